"""vlib — shared machinery of the /verif checks.

Every property check (props/Cxx.py) is a function run(ctx) that uses the helpers here to
  1. regenerate constants from /repo and (re)build the Coq development (full .vo build),
  2. re-check the property's theorem file afresh and read its Print Assumptions output,
  3. build the Go harness against /repo's working tree (-tags verif) and the extracted model,
  4. run both on the same generated cases and diff the projected observables,
  5. evaluate the direct oracle on the implementation,
  6. decide the verdict, write the replay and the evidence file.
"""
import fcntl
import glob
import hashlib
import json
import os
import re
import subprocess
import sys
import time

VERIF = os.path.dirname(os.path.dirname(os.path.abspath(__file__)))
COQ = os.path.join(VERIF, "coq")
HARNESS = os.path.join(VERIF, "harness")
BUILD = os.path.join(VERIF, ".build")
BIN = os.path.join(BUILD, "bin")
REPO = os.environ.get("VERIF_REPO", "/repo")

GOENV = dict(GOFLAGS="-mod=mod", GOPROXY="off", GOSUMDB="off", GOTOOLCHAIN="local",
             CGO_ENABLED="1")

# axioms of the standard library that a theorem may depend on (each is reported in the evidence)
STDLIB_AXIOMS = {
    "functional_extensionality_dep", "FunctionalExtensionality.functional_extensionality_dep",
    "Eqdep.Eq_rect_eq.eq_rect_eq", "eq_rect_eq", "proof_irrelevance",
    "ProofIrrelevance.proof_irrelevance", "ClassicalFacts.proof_irrelevance",
    "classic", "Classical_Prop.classic", "JMeq_eq", "JMeq.JMeq_eq",
    "propositional_extensionality", "PropExtensionality.propositional_extensionality",
}

FORBIDDEN = re.compile(
    r"\b(Admitted|admit|Axiom|Axioms|Parameter|Parameters|Conjecture|Conjectures|Abort All)\b"
    r"|Unset\s+Guard|bypass_check|type-in-type|impredicative-set|Unset\s+Universe\s+Checking"
    r"|Unset\s+Positivity|Admit\s+Obligations|give_up")


def log(*a):
    print(*a, flush=True)


def sh(cmd, cwd=None, timeout=600, env=None, stdin=None, quiet=True):
    e = dict(os.environ)
    e.update(GOENV)
    if env:
        e.update(env)
    t0 = time.time()
    try:
        p = subprocess.run(cmd, shell=isinstance(cmd, str), cwd=cwd, env=e, timeout=timeout,
                           stdout=subprocess.PIPE, stderr=subprocess.STDOUT, input=stdin)
        out = p.stdout.decode("utf-8", "replace")
        rc = p.returncode
    except subprocess.TimeoutExpired as ex:
        out = (ex.stdout or b"").decode("utf-8", "replace") + "\n[TIMEOUT after %ss]" % timeout
        rc = 124
    if not quiet:
        log(out)
    return rc, out, time.time() - t0


def strip_coq_comments(src):
    out = []
    depth = 0
    i = 0
    n = len(src)
    while i < n:
        if src.startswith("(*", i):
            depth += 1
            i += 2
        elif src.startswith("*)", i) and depth > 0:
            depth -= 1
            i += 2
        else:
            if depth == 0:
                out.append(src[i])
            elif src[i] == "\n":
                out.append("\n")
            i += 1
    return "".join(out)


def coq_files():
    fs = []
    for p in glob.glob(os.path.join(COQ, "**", "*.v"), recursive=True):
        rel = os.path.relpath(p, COQ)
        parts = rel.split(os.sep)
        if "extract" in parts or parts[-1] == "Extract.v" or parts[-1].startswith("cases") \
                or parts[0] in ("scratch", "Scratch"):
            continue
        fs.append(rel)
    return sorted(fs)


class CoqLock:
    def __enter__(self):
        os.makedirs(BUILD, exist_ok=True)
        self.f = open(os.path.join(BUILD, "coq.lock"), "w")
        fcntl.flock(self.f, fcntl.LOCK_EX)
        return self

    def __exit__(self, *a):
        fcntl.flock(self.f, fcntl.LOCK_UN)
        self.f.close()


def coq_project_refresh():
    """(Re)write _CoqProject and the Makefile when the set of .v files changed."""
    body = "-Q . ZV\n" + "\n".join(coq_files()) + "\n"
    path = os.path.join(COQ, "_CoqProject")
    old = open(path).read() if os.path.exists(path) else ""
    if old != body or not os.path.exists(os.path.join(COQ, "Makefile")):
        open(path, "w").write(body)
        rc, out, _ = sh("coq_makefile -f _CoqProject -o Makefile", cwd=COQ)
        if rc != 0:
            raise RuntimeError("coq_makefile failed: " + out)


def coq_make(targets=None, jobs=12, timeout=3000):
    """Full .vo build (never -vos) of the given targets (paths relative to coq/, .vo) or of all."""
    with CoqLock():
        coq_project_refresh()
        tg = " ".join(targets) if targets else ""
        rc, out, dt = sh("make -j%d %s" % (jobs, tg), cwd=COQ, timeout=timeout)
    return rc == 0, out, dt


def gate(paths=None):
    """Scan the development for admitted proofs / declared axioms / switched-off checks."""
    hits = []
    for rel in coq_files() + [os.path.relpath(p, COQ) for p in glob.glob(os.path.join(COQ, "*", "Extract.v"))]:
        if paths and not any(rel.startswith(p) for p in paths):
            continue
        src = strip_coq_comments(open(os.path.join(COQ, rel)).read())
        for ln, line in enumerate(src.split("\n"), 1):
            if FORBIDDEN.search(line):
                hits.append("%s:%d: %s" % (rel, ln, line.strip()))
            if re.match(r"\s*(Variable|Variables|Hypothesis|Hypotheses|Context)\b", line):
                # allowed only inside a Section: checked structurally
                pass
    # Variable/Hypothesis outside a section
    for rel in coq_files():
        if paths and not any(rel.startswith(p) for p in paths):
            continue
        src = strip_coq_comments(open(os.path.join(COQ, rel)).read())
        depth = 0
        for ln, line in enumerate(src.split("\n"), 1):
            if re.match(r"\s*Section\s+\w+", line):
                depth += 1
            elif re.match(r"\s*End\s+\w+", line) and depth > 0:
                depth -= 1
            elif depth == 0 and re.match(r"\s*(Variable|Variables|Hypothesis|Hypotheses|Context)\b", line):
                hits.append("%s:%d: %s (outside a Section)" % (rel, ln, line.strip()))
    return hits


def coq_check_props(prop_file, timeout=900):
    """Compile Properties/<file> afresh and parse the Print Assumptions output.
    Returns dict(ok, theorems=[{name, axioms:[...]}], error, wall_s)."""
    src = open(os.path.join(COQ, prop_file)).read()
    names = re.findall(r"^Print Assumptions\s+([\w']+)\s*\.", src, re.M)
    thms = re.findall(r"^(?:Theorem|Lemma|Corollary)\s+([\w']+)", strip_coq_comments(src), re.M)
    with CoqLock():
        rc, out, dt = sh("coqc -Q . ZV %s" % prop_file, cwd=COQ, timeout=timeout)
    res = dict(ok=False, theorems=[], error=None, wall_s=dt, declared=thms)
    if rc != 0:
        res["error"] = out[-3000:]
        return res
    # split output into blocks per Print Assumptions
    blocks = re.split(r"(?=^Closed under the global context|^Axioms:)", out, flags=re.M)
    blocks = [b for b in blocks if b.startswith("Closed under") or b.startswith("Axioms:")]
    if len(blocks) != len(names):
        res["error"] = "Print Assumptions output count %d != %d" % (len(blocks), len(names))
        return res
    bad = []
    for nm, b in zip(names, blocks):
        ax = []
        if b.startswith("Axioms:"):
            ax = re.findall(r"^([\w.']+)\s*:", b[len("Axioms:"):], re.M)
        res["theorems"].append(dict(name=nm, axioms=ax))
        for a in ax:
            if a not in STDLIB_AXIOMS and a.split(".")[-1] not in STDLIB_AXIOMS:
                bad.append("%s depends on non-whitelisted axiom %s" % (nm, a))
    missing = [t for t in thms if t not in names]
    if missing:
        bad.append("theorems without Print Assumptions: " + ",".join(missing))
    if bad:
        res["error"] = "; ".join(bad)
        return res
    res["ok"] = True
    return res


def coqchk(module, timeout=3000):
    """Thorough tier: re-check the compiled property module and everything it depends on with the
    independent checker; returns dict(ok, axioms, summary). The compiled tree is copied under the
    build lock (seconds) and checked from the copy, so a long coqchk never blocks other checks."""
    import shutil
    import tempfile
    tmp = tempfile.mkdtemp(prefix="coqchk-", dir=BUILD)
    try:
        with CoqLock():
            sh("rsync -a --include='*/' --include='*.vo' --exclude='*' %s/ %s/" % (COQ, tmp), timeout=600)
        rc, out, dt = sh("coqchk -silent -o -Q . ZV %s" % module, cwd=tmp, timeout=timeout)
    finally:
        shutil.rmtree(tmp, ignore_errors=True)
    i = out.find("CONTEXT SUMMARY")
    summ = out[i:] if i >= 0 else out[-1500:]
    ax = []
    m = re.search(r"\* Axioms:(.*?)\n\s*\n\* Constants", summ, re.S)
    if m:
        body = m.group(1).strip()
        if body != "<none>":
            ax = [l.strip() for l in body.split("\n") if l.strip()]
    bad = [a for a in ax if a.split(".")[-1] not in STDLIB_AXIOMS and a not in STDLIB_AXIOMS]
    clean = all(("%s: <none>" % k) in summ for k in (
        "relying on type-in-type", "relying on unsafe (co)fixpoints", "whose positivity is assumed"))
    return dict(ok=(rc == 0 and clean and not bad), axioms=ax, summary=summ[-1200:], wall_s=round(dt, 1))


def regen_consts(group, gocmd_bin, args="-consts"):
    """Regenerate coq/<group>/Consts.v from the source tree through the harness binary;
    rewritten only if the content changed (then dependent proofs are re-checked by make)."""
    rc, out, _ = sh("%s %s" % (os.path.join(BIN, gocmd_bin), args), cwd=BUILD, timeout=120)
    if rc != 0:
        raise RuntimeError("constgen failed: " + out[-2000:])
    # keep only the Coq text (the Go side may log to stderr which is merged): lines from the header on
    idx = out.find("(* GENERATED")
    if idx < 0:
        raise RuntimeError("constgen produced no header: " + out[-500:])
    body = out[idx:]
    path = os.path.join(COQ, group, "Consts.v")
    old = open(path).read() if os.path.exists(path) else None
    changed = old != body
    if changed:
        open(path, "w").write(body)
    return changed


def go_build(cmd, tags="verif", timeout=900):
    """Build one harness command against the repository working tree (hooks on)."""
    os.makedirs(BIN, exist_ok=True)
    modfile = ""
    if os.environ.get("VERIF_GOMOD"):      # used by tools/mutrun.sh to point the replace at a scratch worktree
        modfile = "-modfile=%s " % os.environ["VERIF_GOMOD"]
    rc, out, dt = sh("go build %s-tags %s -o %s ./cmd/%s" % (modfile, tags, os.path.join(BIN, cmd), cmd),
                     cwd=HARNESS, timeout=timeout)
    return rc == 0, out, dt


def model_build(group, timeout=600):
    """Extract coq/<group>/Extract.v (ExtrOcamlBasic only) and compile coq/<group>/extract/driver.ml."""
    d = os.path.join(COQ, group, "extract")
    with CoqLock():
        rc, out, dt = sh("coqc -Q %s ZV ../Extract.v" % COQ, cwd=d, timeout=timeout)
    if rc != 0:
        return False, out, dt
    sh("cp %s ." % os.path.join(COQ, "Extract", "vio.ml"), cwd=d)
    extra = ""
    if os.path.exists(os.path.join(d, "extra.ml")):
        extra = "extra.ml"
    rc, out2, dt2 = sh("ocamlfind ocamlopt -O2 -w -a -package str,unix -linkpkg model.mli model.ml vio.ml %s driver.ml -o modelrun" % extra,
                       cwd=d, timeout=timeout)
    return rc == 0, out + out2, dt + dt2


def modelrun_path(group):
    return os.path.join(COQ, group, "extract", "modelrun")


def read_out(path):
    """id \t output  -> dict (keeps order in list too)"""
    d = {}
    order = []
    with open(path, errors="replace") as f:
        for line in f:
            line = line.rstrip("\n")
            if not line:
                continue
            i = line.find("\t")
            if i < 0:
                continue
            k, v = line[:i], line[i + 1:]
            d[k] = v
            order.append(k)
    return d, order


def diff_outputs(impl_path, model_path):
    a, order = read_out(impl_path)
    b, _ = read_out(model_path)
    mism = []
    for k in order:
        if b.get(k) != a[k]:
            mism.append((k, a[k], b.get(k)))
    for k in b:
        if k not in a:
            mism.append((k, None, b[k]))
    return mism, len(order)


def load_known_findings():
    path = os.path.join(VERIF, "known_findings.jsonl")
    out = []
    if os.path.exists(path):
        for line in open(path):
            line = line.strip()
            if line and not line.startswith("#"):
                out.append(json.loads(line))
    return out


class Ctx:
    def __init__(self, prop, tier, seed, replay=None):
        self.prop = prop
        self.tier = tier
        self.seed = seed
        self.replay = replay
        self.t0 = time.time()
        self.run_dir = os.path.join(BUILD, "run", prop)
        os.makedirs(self.run_dir, exist_ok=True)
        os.makedirs(os.path.join(VERIF, "replays"), exist_ok=True)
        os.makedirs(os.path.join(VERIF, "evidence"), exist_ok=True)
        # every temporary file/directory of this run (Go os.MkdirTemp, Python tempfile, child processes)
        # lives under one per-run root that is removed when the check finishes
        import shutil
        troot = os.path.join(BUILD, "tmp")
        os.makedirs(troot, exist_ok=True)
        now = time.time()
        for d in os.listdir(troot):
            full = os.path.join(troot, d)
            try:
                if d.startswith(prop + "-") and now - os.path.getmtime(full) > 3 * 3600:
                    shutil.rmtree(full, ignore_errors=True)
            except OSError:
                pass
        self.tmp_root = os.path.join(troot, "%s-%d" % (prop, os.getpid()))
        os.makedirs(self.tmp_root, exist_ok=True)
        os.environ["TMPDIR"] = self.tmp_root
        self.violations = []      # (replay_path, text, no_failing_input)
        self.known = []
        self.notes = []
        self.proof = None
        self.cov = {}
        self.assumptions = []

    # ---------- proofs ----------
    def check_proofs(self, prop_file=None, make_targets=None, gate_paths=None):
        """Build the development and re-check the property file. Returns (ok, info)."""
        prop_file = prop_file or "Properties/%s.v" % self.prop
        info = dict(file=prop_file)
        hits = gate(gate_paths)
        if hits:
            info["gate"] = hits
        ok, out, dt = coq_make(make_targets)
        info["make_s"] = round(dt, 1)
        if not ok:
            info["make_error"] = tail_err(out)
        res = coq_check_props(prop_file) if ok else dict(ok=False, theorems=[], error="make failed", declared=[])
        info.update(res)
        info["ok"] = bool(ok and res["ok"] and not hits)
        if info["ok"] and self.tier == "thorough" and not os.environ.get("VERIF_NO_COQCHK"):
            mod = "ZV." + prop_file[:-2].replace("/", ".")
            ck = coqchk(mod)
            info["coqchk"] = ck
            if not ck["ok"]:
                info["ok"] = False
                info["error"] = "coqchk: " + ck["summary"]
        self.proof = info
        return info["ok"], info

    # ---------- verdict ----------
    def write_replay(self, name, obj):
        path = os.path.join(VERIF, "replays", "%s-%s.json" % (self.prop, name))
        with open(path, "w") as f:
            json.dump(obj, f, indent=1, sort_keys=True)
        return path

    def report_violation(self, name, obj, signature=None, what="", no_failing_input=False):
        """Report one failing case. signature is matched against open known findings."""
        obj = dict(obj)
        obj["property"] = self.prop
        obj["what"] = what
        if signature:
            obj["signature"] = signature
            for kf in load_known_findings():
                if kf.get("status") == "open" and kf.get("property") == self.prop and kf.get("signature") == signature:
                    if signature not in [k[0] for k in self.known]:
                        self.known.append((signature, kf.get("what", what)))
                        log("KNOWN-FINDING: property=%s %s" % (self.prop, kf.get("what", what)))
                    return False
        path = self.write_replay(name, obj)
        self.violations.append((path, what, no_failing_input))
        log("VIOLATION property=%s replay=%s%s" % (self.prop, path, " no-failing-input-found" if no_failing_input else ""))
        return True

    def finish(self, coverage, assumptions=None, level="proof"):
        """Write the evidence file and exit with the verdict."""
        pr = self.proof or {}
        thms = pr.get("theorems", [])
        declared = pr.get("declared", []) or [t["name"] for t in thms]
        cov = dict(coverage)
        cov.setdefault("obligations", max(1, len(declared)))
        cov.setdefault("discharged", len(thms) if pr.get("ok") else 0)
        cov.setdefault("checker_cmd", "make -C coq (coqc 8.16.1, full .vo build) ; coqc -Q . ZV %s" % pr.get("file", ""))
        axs = sorted({a for t in thms for a in t["axioms"]})
        cov.setdefault("trusted_base", [
            "Coq 8.16.1 kernel (coqc; vm_compute in Examples only; no native_compute)",
            "axioms reported by Print Assumptions: " + (", ".join(axs) if axs else "none (closed under the global context)"),
            "extraction: ExtrOcamlBasic only; OCaml 4.13.1 ocamlopt; coq/Extract/vio.ml + the group's driver.ml",
            "correspondence harness: Go harness under /verif/harness built against /repo working tree with -tags verif; lib/vlib.py diff",
            "build shims: third_party/gorocksdb (stubbed tuning calls), third_party/ugorji (alphabet fix)",
        ])
        cov["theorems"] = thms
        if pr.get("coqchk"):
            cov["coqchk"] = dict(ok=pr["coqchk"]["ok"], axioms=pr["coqchk"]["axioms"], wall_s=pr["coqchk"]["wall_s"])
            cov["checker_cmd"] += " ; coqchk -silent -o -Q . ZV ZV." + pr.get("file", "")[:-2].replace("/", ".")
        if pr.get("error"):
            cov["proof_error"] = pr["error"][-1500:]
        if self.notes:
            cov["notes"] = self.notes
        if self.known:
            cov["known_findings_hit"] = [k[0] for k in self.known]
        ev = dict(property_id=self.prop, tier=self.tier, seed=self.seed, level=level, coverage=cov,
                  assumptions=(assumptions or []) + self.assumptions,
                  wall_s=round(time.time() - self.t0, 2), violations=len(self.violations))
        with open(os.path.join(VERIF, "evidence", "%s.json" % self.prop), "w") as f:
            json.dump(ev, f, indent=1)
        try:
            import shutil
            shutil.rmtree(self.tmp_root, ignore_errors=True)
        except Exception:
            pass
        if self.violations:
            sys.exit(1)
        log("OK property=%s tier=%s seed=%d wall=%.1fs" % (self.prop, self.tier, self.seed, time.time() - self.t0))
        sys.exit(0)


def tail_err(out, n=2500):
    i = out.find("Error")
    if i >= 0:
        return out[max(0, i - 800): i + n]
    return out[-n:]


def case_hash(s):
    return hashlib.sha1(s.encode("utf-8", "replace")).hexdigest()[:16]


def standard_verdict(ctx, proofs_ok, mismatches, oracle_failures, search_fn=None, corr_name="correspondence"):
    """The common decision procedure (DESIGN.md 1.2 step 4).
    oracle_failures: list of dict(name, case, what, signature?) — the property fails on the implementation.
    mismatches: list of (id, impl, model) — the model no longer predicts the implementation.
    search_fn(): called when only proofs/correspondence broke; returns more oracle_failures.
    An open known finding only turns the failures carrying ITS signature into KNOWN-FINDING lines; it never
    hides another oracle failure, a broken proof or a broken correspondence."""
    def report_all(fails, kind):
        n0 = len(ctx.violations)
        for f in fails:
            if len(ctx.violations) - n0 >= 5:
                break
            ctx.report_violation(f.get("name", case_hash(json.dumps(f.get("case"), sort_keys=True, default=str))),
                                 dict(case=f.get("case"), kind=kind),
                                 signature=f.get("signature"), what=f.get("what", ""))
        return len(ctx.violations) - n0
    if report_all(oracle_failures, "failing-input") > 0:
        return
    if proofs_ok and not mismatches:
        return
    found = search_fn() if search_fn else []
    if found and report_all(found, "failing-input (found by search after a broken proof/correspondence)") > 0:
        return
    broken = {}
    if not proofs_ok:
        pr = ctx.proof or {}
        broken["broken_proof"] = dict(file=pr.get("file"), error=(pr.get("error") or pr.get("make_error") or "")[-3000:],
                                      gate=pr.get("gate"))
    if mismatches:
        broken["broken_correspondence"] = dict(name=corr_name, count=len(mismatches),
                                               first=[dict(id=m[0], impl=m[1], model=m[2]) for m in mismatches[:10]])
    ctx.report_violation("unproved", dict(kind="no-failing-input-found", **broken),
                         what="property no longer shown to hold: " + ", ".join(broken.keys()),
                         no_failing_input=True)
