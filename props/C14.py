"""C14 — a checkpoint restores exactly the state at its log index."""
import glob
import json
import os
import re
import shutil

import vlib
from vlib import sh, log

CANON = re.compile(r"^[0-9a-f]{16}-[0-9a-f]{16}$")
PFADD_HEX = "7066616464"
F1_SIG = "local snapshot copy overwrites hard-linked sst files in place"
RS_SIG = "a snapshot already transferred from another source is taken for the requested one"
H_SIG = "a directory left half written by a crash inside backup / transfer / restore is used"
K1R_SIG = "engine.rockEngCheckpoint.Save releases the apply loop by a 20ms timer; RocksDB fixes the WAL length only after listing the data directory (>= 100000 files there)"
K1_SIG = "checkpoint of index i contains writes applied after the apply loop was released"


def unh(s):
    return b"" if s in ("-", "") else bytes.fromhex(s)


def names_of(s):
    return [unh(x).decode("latin1") for x in s.split(",")] if s else []


def key_of(n):
    t, i = n.split("-")
    return (int(t, 16), int(i, 16))


def parse_cases(path):
    cases = {}
    order = []
    for line in open(path):
        p = line.rstrip("\n").split("\t")
        cases[p[0]] = p[1:]
        order.append(p[0])
    return cases, order


def parse_fents(s):
    out = {}
    if s in ("-", ""):
        return out
    for e in s.split(","):
        p = e.split(":")
        out[unh(p[0]).decode("latin1")] = ["d"] if p[1] == "d" else p[1:]
    return out


def check_purge(keep, latest, names, left, what):
    """The purge clause of the property on one before/after pair of directory listings (no model)."""
    errs = []
    removed = [n for n in names if n not in left]
    if any(n not in names for n in left):
        errs.append("purge created an entry")
    cand = [n for n in names if "-" in n]
    if any("-" not in n for n in removed):
        errs.append("an entry the glob *-* does not match was removed")
    if cand and all(CANON.match(n) for n in cand):
        srt = sorted(cand, key=key_of)
        newest = srt[max(0, len(srt) - keep):] if keep > 0 else []
        for r in removed:
            if r in newest:
                errs.append("one of the newest min(keepNum,n) checkpoints was removed: " + r)
        if len(removed) > max(0, len(cand) - keep):
            errs.append("more than n-keepNum checkpoints removed")
        monotone = all(key_of(srt[k])[1] <= key_of(srt[k + 1])[1] for k in range(len(srt) - 1))
        if monotone:
            for r in removed:
                if key_of(r)[1] >= latest:
                    errs.append("removed a checkpoint with index >= latest snapshot index: " + r)
    return [what + ": " + e for e in errs]


def oracle(cases, order, impl, skeleton):
    """The property itself evaluated on the implementation's outputs (no model involved)."""
    fails = []
    hist = {}
    nontrivial = set()
    stats = dict(purge_removed_some=0, restores_ok=0, restores_rolled_back=0, restores_nobackup=0, restores_cross_store=0,
                 repeated_restores=0, purged_in_trace=0, plan_kept_sst=0, plan_err=0, less_panic=0)

    def bump(k):
        hist[k] = hist.get(k, 0) + 1

    traces = {}
    for cid in order:
        c = cases[cid]
        kind = c[0]
        out = impl.get(cid)
        if out is None:
            fails.append(dict(name="missing-" + cid, base=cid.split(".")[0], what="no implementation output for " + cid))
            continue
        if kind in ("TB", "TO"):
            traces.setdefault(cid.split(".")[0], []).append((cid, c, out))
            bump("T." + (c[1] if kind == "TO" else "begin"))
            continue
        bump(kind)
        if kind == "N":
            t, i = int(c[1], 16), int(c[2], 16)
            nm = unh(out).decode("latin1")
            if not CANON.match(nm) or key_of(nm) != (t, i):
                fails.append(dict(name="name-" + cid, base=cid, what="checkpoint name does not parse back to its term/index: %r" % nm))
            nontrivial.add(vlib.case_hash("\t".join(c)))
        elif kind == "C":
            a, b_ = unh(c[1]).decode("latin1"), unh(c[2]).decode("latin1")
            if out == "panic":
                stats["less_panic"] += 1
            if CANON.match(a) and CANON.match(b_):
                want = "1" if key_of(a) < key_of(b_) else "0"
                if out != want:
                    fails.append(dict(name="less-" + cid, base=cid, what="Less(%s,%s)=%s, (term,index) order says %s" % (a, b_, out, want)))
            nontrivial.add(vlib.case_hash("\t".join(c)))
        elif kind == "P":
            keep, latest, names = int(c[1]), int(c[2], 16), names_of(c[3] if len(c) > 3 else "")
            if not out.startswith("left="):
                fails.append(dict(name="purge-" + cid, base=cid, what="purgeOldCheckpoint: " + out))
                continue
            left = names_of(out[5:])
            if len(left) < len(names):
                stats["purge_removed_some"] += 1
                nontrivial.add(vlib.case_hash("\t".join(c)))
            for e in check_purge(keep, latest, names, left, "purgeOldCheckpoint"):
                fails.append(dict(name="purge-" + cid, base=cid, what=e))
        elif kind == "L":
            skip, names, match = int(c[1]), names_of(c[2] if len(c) > 2 else ""), names_of(c[3] if len(c) > 3 else "")
            cand = [n for n in names if "-" in n]
            if out not in ("none", "panic"):
                got = unh(out).decode("latin1")
                if got not in match or got not in cand:
                    fails.append(dict(name="latest-" + cid, base=cid, what="GetLatestCheckpoint returned a non-matching entry " + got))
                elif all(CANON.match(n) for n in cand):
                    ms = sorted([n for n in cand if n in match], key=key_of, reverse=True)
                    if len(ms) <= skip or ms[skip] != got:
                        fails.append(dict(name="latest-" + cid, base=cid, what="GetLatestCheckpoint did not return the (skip+1)-th newest matching checkpoint"))
                nontrivial.add(vlib.case_hash("\t".join(c)))
            elif out == "none" and all(CANON.match(n) for n in cand) and len(cand) > skip:
                if len([n for n in cand if n in match]) > skip:
                    fails.append(dict(name="latest-" + cid, base=cid, what="GetLatestCheckpoint found nothing although a matching checkpoint exists"))
        elif kind == "F":
            cur, ck = parse_fents(c[1]), parse_fents(c[2])
            m = re.match(r"^(\w+) data=(\S+) ck=(\S+)$", out)
            if not m:
                fails.append(dict(name="plan-" + cid, base=cid, what="restore on crafted directories: " + out[:200]))
                continue
            res, data, ck2 = m.group(1), parse_fents(m.group(2)), parse_fents(m.group(3))
            # the checkpoint directory is never damaged
            if {n: v[:4] for n, v in ck.items()} != {n: v[:4] for n, v in ck2.items()}:
                fails.append(dict(name="plan-" + cid, base=cid, what="restore changed the checkpoint directory"))
            has_dir = any(v[0] == "d" and not n.startswith("LOG") for n, v in ck.items())
            if res == "err":
                stats["plan_err"] += 1
                if not has_dir:
                    fails.append(dict(name="plan-" + cid, base=cid, what="restore failed on a checkpoint made of regular files"))
                continue
            if res != "ok":
                fails.append(dict(name="plan-" + cid, base=cid, what="restore: " + res))
                continue
            want = {n: v for n, v in ck.items() if not n.startswith("LOG")}
            got = {n: v for n, v in data.items() if not n.startswith("LOG")}
            if set(want) != set(got):
                fails.append(dict(name="plan-" + cid, base=cid, what="data dir after restore has other non-LOG files than the checkpoint: %s vs %s" % (sorted(got), sorted(want))))
            else:
                for n in want:
                    if want[n][:4] != got[n][:4]:
                        fails.append(dict(name="plan-" + cid, base=cid, what="file %s differs from the checkpoint's after restore" % n))
                    if n.endswith(".sst") and got[n][0] == "f" and got[n][4] != "1":
                        fails.append(dict(name="plan-" + cid, base=cid, what="sst %s is not a hard link of the checkpoint's file" % n))
            for n, v in cur.items():
                if n.startswith("LOG") and (n not in data or (v[0] == "f" and data[n][:4] != v[:4])):
                    fails.append(dict(name="plan-" + cid, base=cid, what="LOG file %s of the data dir was touched" % n))
            if any(n.endswith(".sst") and n in ck for n in cur):
                stats["plan_kept_sst"] += 1
                nontrivial.add(vlib.case_hash("\t".join(c)))
        elif kind == "E":
            want = "fetch=ok ck2_unchanged=1 live_unchanged=1 restore2=ok:1 restore3=ok:1"
            if out != want:
                fails.append(dict(name="fetch-" + cid, base=cid, signature=F1_SIG,
                                  what="fetching a newer checkpoint from a source that reused sst numbers (%s r1=%s r2=%s): %s" % (c[1], c[2], c[3], out)))
            nontrivial.add(vlib.case_hash("\t".join(c)))
        elif kind == "G":
            # the chosen source must be an eligible peer (not the asker, answered yes, not our own directory)
            lid, retry, rl = int(c[1]), int(c[2]), c[3] == "1"
            peers = []
            if len(c) > 6 and c[6] not in ("-", ""):
                for e in c[6].split(","):
                    r_, a_, ro_, m_, an_ = e.split(":")
                    peers.append((int(r_), unh(a_).decode(), unh(ro_).decode(), unh(m_).decode(), an_))
            elig = [p for p in peers if p[0] != lid and p[4] == "1" and not (p[1] == "127.0.0.1" and p[2] == "/mine")]
            srcs = []
            for p in elig:
                if p[1] == "127.0.0.1" and not rl:
                    srcs.append(("", p[2] + "/ns-0"))
                else:
                    srcs.append((p[1], p[3] + "/ns-0"))
            if out == "none":
                if elig:
                    fails.append(dict(name="source-" + cid, base=cid, what="GetValidBackupInfo found no source although a peer holds the backup"))
            elif out in ("panic", "wrong-request", "listenerr"):
                fails.append(dict(name="source-" + cid, base=cid, what="GetValidBackupInfo: " + out))
            else:
                a_, d_ = out.split(" ")
                got = (unh(a_).decode(), unh(d_).decode())
                if got not in srcs:
                    fails.append(dict(name="source-" + cid, base=cid, what="GetValidBackupInfo chose %r, not a peer that holds the requested backup" % (got,)))
                nontrivial.add(vlib.case_hash("\t".join(c)))
        elif kind == "H":
            # reuse: every directory other than the new one keeps exactly its files and link structure
            newn = "%016x-%016x" % (int(c[2], 16), int(c[3], 16))
            if out == "panic":
                stats["reuse_panics"] = stats.get("reuse_panics", 0) + 1
                cand = [unh(e.split(":")[0]).decode("latin1") for e in (c[5].split(",") if len(c) > 5 and c[5] not in ("-", "") else [])]
                if all(CANON.match(n) for n in cand):
                    fails.append(dict(name="reuse-" + cid, base=cid, what="handleReuseOldCheckpoint panicked on a directory of well-formed names"))
            elif not out.startswith("reused="):
                fails.append(dict(name="reuse-" + cid, base=cid, what="handleReuseOldCheckpoint: " + out[:200]))
            else:
                def parse_dirs(s_):
                    d = {}
                    if s_ in ("-", ""):
                        return d
                    for e in s_.split(","):
                        nm, info, fl = e.split(":")
                        d[unh(nm).decode("latin1")] = (info, {} if fl == "-" else dict(y.split("=") for y in fl.split(".")))
                    return d
                before = parse_dirs(c[5] if len(c) > 5 else "-")
                ru, after_s = out[7:].split(" ", 1)
                after = parse_dirs(after_s)
                def groups(dd, skipn):
                    g = {}
                    for nm, (info, fs) in dd.items():
                        if nm == skipn:
                            continue
                        for f, ino in fs.items():
                            g.setdefault(ino, set()).add((nm, f))
                    return sorted(sorted(v) for v in g.values())
                for nm, (info, fs) in before.items():
                    if nm == newn:
                        continue
                    if nm not in after or after[nm][0] != info or set(after[nm][1]) != set(fs):
                        fails.append(dict(name="reuse-" + cid, base=cid, what="handleReuseOldCheckpoint changed checkpoint %s, which is not the one being fetched" % nm))
                if groups(before, newn) != groups(after, newn):
                    fails.append(dict(name="reuse-" + cid, base=cid, what="handleReuseOldCheckpoint changed the hard-link structure of other checkpoints"))
                if ru != "-":
                    rn = unh(ru).decode("latin1")
                    src = c[1]
                    if rn == newn or rn not in before or before[rn][0] != src:
                        fails.append(dict(name="reuse-" + cid, base=cid, what="handleReuseOldCheckpoint reused %s, which was not fetched from the same source" % rn))
                    else:
                        ssts = [f for f in after[rn][1] if unh(f).decode("latin1").endswith(".sst")]
                        for f in ssts:
                            if newn not in after or after[newn][1].get(f) != after[rn][1][f]:
                                fails.append(dict(name="reuse-" + cid, base=cid, what="sst %s of the reused checkpoint is not hard-linked into the new directory" % unh(f).decode("latin1")))
                        if ssts:
                            stats["reuse_linked"] = stats.get("reuse_linked", 0) + 1
                            nontrivial.add(vlib.case_hash("\t".join(c)))
        elif kind == "HR":
            m = re.match(r"^rounds=(\d+) restore_differs=(\d+)$", out)
            if not m or int(m.group(2)) != 0:
                fails.append(dict(name="hllcache-" + cid, base=cid,
                                  what="HyperLogLog writes held in the write cache around Backup / Restore (%s, write buffer %s KB): the content after "
                                       "Restore differs from the content at the backup instant: %s" % (c[1], c[4], out[:200])))
            else:
                stats["hll_cache_rounds"] = stats.get("hll_cache_rounds", 0) + int(m.group(1))
            nontrivial.add(vlib.case_hash("\t".join(c)))
        elif kind == "RS":
            stats["two_source_scenarios"] = stats.get("two_source_scenarios", 0) + 1
            if out != "fromA=ok/ok:A repeatA=ok/ok:A fromB=ok/ok:B":
                fails.append(dict(name="sources-" + cid, base=cid, signature=RS_SIG,
                                  what="two remote sources with a snapshot of the same (term,index) (%s): after transfer + apply the store must hold "
                                       "that source's content: %s" % (c[1], out[:200])))
            nontrivial.add(vlib.case_hash("\t".join(c)))
        elif kind == "MS":
            stats["size_class_cases"] = stats.get("size_class_cases", 0) + 1
            if out != "backup=ok restore=ok:exact again=ok:exact":
                fails.append(dict(name="size-" + cid, base=cid,
                                  what="checkpoint of about %s KB (values of %s KB) on %s: backup / restore did not bring back the content of the backup instant: %s"
                                       % (c[2], c[3], c[1], out[:200])))
            nontrivial.add(vlib.case_hash("\t".join(c)))
        elif kind == "FF":
            stats["failed_transfers"] = stats.get("failed_transfers", 0) + 1
            m = re.match(r"^first=(\S+) half=(\S+) second=(\S+) restore=(\S+)$", out)
            # the first transfer is made to fail; then: a loud refusal or the source's content, never anything else
            if not m or m.group(1) != "err" or m.group(2) == "ACCEPTED" or m.group(4) not in ("exact", "nobackup") \
                    or (m.group(3) == "ok" and m.group(4) != "exact"):
                fails.append(dict(name="failedfetch-" + cid, base=cid, signature=H_SIG,
                                  what="a snapshot transfer whose copy failed midway (%s): the half directory passed for a backup or the retry "
                                       "did not end with the source's content: %s" % (c[1], out[:200])))
            nontrivial.add(vlib.case_hash("\t".join(c)))
        elif kind in ("CB", "CR", "CF", "CRR"):
            stats["crash_cases"] = stats.get("crash_cases", 0) + 1
            good = {"CB": ("killed checkpoint-refused", "killed checkpoint-restores-exactly", "checkpoint-refused-or-exact"),
                    "CR": ("killed open=restored restart-restores-exactly checkpoint-unchanged",
                           "killed open=pre-restore restart-restores-exactly checkpoint-unchanged",
                           "open=complete restart-restores-exactly checkpoint-unchanged"),
                    "CF": ("restores-exactly",)}
            good["CRR"] = good["CR"]
            good = good[kind]
            if out not in good:
                what = {"CB": "a process killed inside a backup (%s, %s) left a checkpoint that is neither refused nor exact: %s",
                        "CR": "a process killed inside a restore (%s, %s): after the restart the store is not all-old/all-new, "
                              "or does not end with the checkpoint's content, or the checkpoint changed: %s",
                        "CRR": "a process killed inside RestoreFromRemoteBackup (%s, %s) while a local checkpoint of the same name exists: after the "
                               "restart the store is not all-old/all-remote-snapshot, or does not end with the remote snapshot's content: %s",
                        "CF": "a process killed inside a snapshot transfer (%s, %s): the half directory was accepted or the retry restored other content: %s"}[kind]
                fails.append(dict(name="crash-" + cid, base=cid, signature=H_SIG, what=what % (c[1], c[2], out)))
            nontrivial.add(vlib.case_hash("\t".join(c)))
        elif kind == "I":
            m = re.match(r"^trials=(\d+) later_writes_visible=(\d+)$", out)
            if re.match(r"^trials=\d+ later_writes_visible=\*$", out):
                pass        # huge-directory demonstration: judged from known.out in evaluate()
            elif not m:
                fails.append(dict(name="interleave-" + cid, base=cid, what="apply-loop schedule around a snapshot (%s): %s" % (c[1], out[:200])))
            else:
                stats["interleaved_trials"] = stats.get("interleaved_trials", 0) + int(m.group(1))
                if int(m.group(2)) != 0:
                    fails.append(dict(name="interleave-" + cid, base=cid, signature=K1_SIG,
                                      what="engine %s: %s of %s checkpoints, restored, show writes that were applied after WaitReady returned "
                                           "(schedule: apply, dump, Backup+WaitReady, apply on at once while the copy runs, GetResult, Restore, dump)"
                                           % (c[1], m.group(2), m.group(1))))
            nontrivial.add(vlib.case_hash("\t".join(c)))
        elif kind == "K":
            p = out.split(" ")
            if len(p) != 2 or p[0] != p[1]:
                fails.append(dict(name="k1-" + cid, base=cid, signature=K1_SIG,
                                  what="counter was %s when Backup released the apply loop, %s after restoring that checkpoint" % tuple((p + ["?", "?"])[:2])))
            nontrivial.add(vlib.case_hash("\t".join(c)))

    # value-level traces
    for tid, lines in traces.items():
        sk = skeleton.get(tid, [])
        has_pf = any(PFADD_HEX in l for l in sk)
        keep = [10, 10]
        val = [None, None]
        rec = [{}, {}]      # per store: name -> value recorded at the backup instant
        dgs = [{}, {}]      # per store: name -> digest
        rrec = [{}, {}]     # the same for the directory of remote checkpoints
        rdgs = [{}, {}]
        pend = [None, None]
        latest = [0, 0]
        last_restore = [None, None]
        for cid, c, out in lines:
            p = out.split(" ")
            if len(p) != 7:
                fails.append(dict(name="trace-" + cid, base=tid, what="trace step failed: " + out[:200]))
                break
            res, v0, v1, d0, d1, q0, q1 = p
            newv = [v0, v1]
            newd = []
            for d in (d0, d1, q0, q1):
                if d == "~":
                    newd.append(None)
                elif d == "-":
                    newd.append({})
                else:
                    newd.append({unh(x.split("=")[0]).decode("latin1"): x.split("=")[1] for x in d.split(",")})
            newr = newd[2:]
            newd = newd[:2]
            if c[0] == "TB":
                for s in (0, 1):
                    k = int(c[2 + s])
                    keep[s] = k if k > 0 else 10
                val = newv
                continue
            op, s = c[1], int(c[2])
            o = 1 - s
            bad = lambda w: fails.append(dict(name="trace-" + cid, base=tid, what="%s (engine %s, step %s %s)" % (w, lines[0][1][1], cid, " ".join(c[1:5]))))
            # the other store's content never changes
            if newv[o] != val[o]:
                bad("an operation on one store changed the content of the other")
            name = None
            if op in ("B", "R", "Y", "O", "F", "V", "M"):
                name = "%016x-%016x" % (int(c[3], 16), int(c[4], 16))
            if op == "W":
                pass
            elif op == "B":
                if res != "ok":
                    bad("Backup was not accepted: " + res)
                elif not has_pf and newv[s] != val[s]:
                    bad("Backup changed the content of the store")
                pend[s] = (name, newv[s])
            elif op == "G":
                if res != "ok":
                    bad("backup failed: " + res)
                if not has_pf and newv[s] != val[s]:
                    bad("finishing a backup changed the content of the store")
                if pend[s]:
                    nm, v = pend[s]
                    before = set(dgs[s]) | {nm}
                    rec[s][nm] = v
                    dgs[s].pop(nm, None)
                    pend[s] = None
                    if newd[s] is not None:
                        for e in check_purge(keep[s], latest[s], sorted(before), sorted(newd[s]), "purge after backup"):
                            bad(e)
                        if len(newd[s]) < len(before):
                            stats["purged_in_trace"] += 1
            elif op == "R":
                if res == "ok":
                    stats["restores_ok"] += 1
                    if name not in rec[s]:
                        bad("Restore succeeded for a checkpoint that was never taken")
                    else:
                        if newv[s] != rec[s][name]:
                            bad("content after Restore(%s) differs from the content at the backup instant" % name)
                        if val[s] != rec[s][name]:
                            stats["restores_rolled_back"] += 1
                            nontrivial.add(vlib.case_hash(tid + cid))
                        if last_restore[s] == name:
                            stats["repeated_restores"] += 1
                    before = set(dgs[s])
                    if newd[s] is not None:
                        for e in check_purge(keep[s], latest[s], sorted(before), sorted(newd[s]), "purge after restore"):
                            bad(e)
                    last_restore[s] = name
                elif res == "nobackup":
                    stats["restores_nobackup"] += 1
                    if newv[s] != val[s]:
                        bad("a refused Restore changed the content")
                    if newd[s] is not None and name in newd[s]:
                        bad("Restore says no backup although the checkpoint directory exists")
                else:
                    bad("Restore failed: " + res)
            elif op == "Y":
                if res == "ok":
                    if name in rec[s]:
                        rec[o][name] = rec[s][name]
                        stats["restores_cross_store"] += 1
                    dgs[o].pop(name, None)
                elif res == "nosrc":
                    rec[o].pop(name, None)
                    dgs[o].pop(name, None)
                else:
                    bad("copying a checkpoint failed: " + res)
            elif op == "V":
                # ProposeOp_TransferRemoteSnap on the other store, this store being the source
                if res == "ok":
                    if name in rdgs[o] and name in rrec[o]:
                        pass        # already transferred completely from the same source: nothing is fetched
                    elif name in rec[s]:
                        rrec[o][name] = rec[s][name]
                        rdgs[o].pop(name, None)
                    else:
                        bad("a snapshot transfer succeeded although the source does not hold the checkpoint")
                elif res == "err":
                    if name in rec[s] and not (name in rdgs[o]):
                        bad("a snapshot transfer failed although the source holds the checkpoint")
                    rrec[o].pop(name, None)
                    rdgs[o].pop(name, None)
                else:
                    bad("snapshot transfer to the remote directory: " + res)
            elif op == "M":
                if res == "ok":
                    stats["restores_remote"] = stats.get("restores_remote", 0) + 1
                    if name not in rrec[s]:
                        bad("RestoreFromRemoteBackup succeeded for a checkpoint that was never transferred")
                    elif newv[s] != rrec[s][name]:
                        bad("content after RestoreFromRemoteBackup(%s) differs from the content at the backup instant" % name)
                    for e in check_purge(keep[s], latest[s], sorted(dgs[s]), sorted(newd[s] or dgs[s]), "purge after restore"):
                        bad(e)
                elif name in rrec[s] and name in rdgs[s]:
                    bad("RestoreFromRemoteBackup failed although the checkpoint was transferred: " + res)
                elif newv[s] != val[s]:
                    bad("a failed RestoreFromRemoteBackup changed the content")
            elif op == "F":
                if res == "ok":
                    stats["fetches"] = stats.get("fetches", 0) + 1
                    if name not in rec[s]:
                        if name not in rec[o]:
                            bad("PrepareSnapshot succeeded although no store holds the checkpoint")
                        else:
                            rec[s][name] = rec[o][name]
                            if newd[s] is not None and newd[o] is not None and newd[s].get(name) != newd[o].get(name):
                                bad("fetched checkpoint %s differs on disk from the source's" % name)
                elif res == "nosrc":
                    if name in rec[o] or name in rec[s]:
                        bad("PrepareSnapshot found no backup although a store holds it")
                else:
                    bad("PrepareSnapshot failed: " + res)
            elif op == "S":
                latest[s] = int(c[3], 16)
            elif op == "Z":
                if not has_pf and newv[s] != val[s]:
                    bad("close + reopen changed the content of the store")
            if op in ("R", "Y", "O", "S", "X", "F", "V") and not (op == "R" and res == "ok") and newv[s] != val[s]:
                bad("operation %s changed the content of the store" % op)
            if op != "R":
                last_restore[s] = None if op in ("W", "B", "Z") else last_restore[s]
            # checkpoints are never damaged: the digest of a checkpoint directory is constant while it exists
            for x in (0, 1):
                if newd[x] is None:
                    continue
                for nm, dg in newd[x].items():
                    if nm in dgs[x] and dgs[x][nm] != dg:
                        bad("checkpoint %s of store %d changed on disk (digest %s -> %s)" % (nm, x, dgs[x][nm], dg))
                    if nm not in rec[x]:
                        bad("checkpoint directory %s appeared from nowhere" % nm)
                for nm in list(rec[x]):
                    if nm not in newd[x] and (pend[x] is None or pend[x][0] != nm):
                        rec[x].pop(nm)      # purged
                dgs[x] = dict(newd[x])
            for x in (0, 1):
                for nm, dg in newr[x].items():
                    if nm in rdgs[x] and rdgs[x][nm] != dg:
                        bad("remote checkpoint %s of store %d changed on disk (digest %s -> %s)" % (nm, x, rdgs[x][nm], dg))
                    if nm not in rrec[x]:
                        bad("remote checkpoint directory %s appeared from nowhere" % nm)
                gone = [nm for nm in rdgs[x] if nm not in newr[x]]
                if gone:
                    for e in check_purge(3, 2 ** 64 - 2, sorted(rdgs[x]), sorted(nm for nm in newr[x] if nm in rdgs[x]), "purge of the remote directory"):
                        bad(e)
                    for nm in gone:
                        rrec[x].pop(nm, None)
                rdgs[x] = dict(newr[x])
            val = newv
    return fails, hist, nontrivial, stats


def read_skeleton(path):
    sk = {}
    if os.path.exists(path):
        for line in open(path):
            line = line.rstrip("\n")
            sk.setdefault(line.split("\t")[0].split(".")[0], []).append(line)
    return sk


def run_impl(ctx, sub, args, replay_file=None):
    d = os.path.join(ctx.run_dir, sub)
    shutil.rmtree(d, ignore_errors=True)
    os.makedirs(d)
    if replay_file:
        cmd = "%s -replay %s -out %s" % (os.path.join(vlib.BIN, "ckpt"), replay_file, d)
    else:
        cmd = "%s %s -out %s" % (os.path.join(vlib.BIN, "ckpt"), args, d)
    rc, out, dt = sh(cmd + " > run.log 2>&1", cwd=d, timeout=3000)
    if rc != 0:
        return None, open(os.path.join(d, "run.log"), errors="replace").read()[-3000:]
    rc2, out2, dt2 = sh("%s < cases.tsv > model.out" % vlib.modelrun_path("Ckpt"), cwd=d, timeout=1200)
    if rc2 != 0:
        return None, out2
    return d, ""


def evaluate(d):
    cases, order = parse_cases(os.path.join(d, "cases.tsv"))
    impl, _ = vlib.read_out(os.path.join(d, "impl.out"))
    sk = read_skeleton(os.path.join(d, "skeleton.tsv"))
    fails, hist, nontrivial, stats = oracle(cases, order, impl, sk)
    # interleaving cases run with a deliberately huge data directory: outcome reported on the side
    kp = os.path.join(d, "known.out")
    if os.path.exists(kp):
        for line in open(kp):
            cid, eng, junk, trials, bad = line.rstrip("\n").split("\t")
            stats["interleaved_trials_huge_directory"] = stats.get("interleaved_trials_huge_directory", 0) + int(trials)
            if int(bad) > 0:
                fails.append(dict(name="interleave-huge-" + cid, base=cid, signature=K1R_SIG if eng == "rocksdb" else K1_SIG,
                                  what="engine %s with %s extra files in its data directory: %s of %s checkpoints, restored, show writes applied "
                                       "after WaitReady returned" % (eng, junk, bad, trials)))
    seen = set()
    uniq = []
    for f in fails:
        base = f.pop("base")
        if base in seen:
            continue
        seen.add(base)
        f["case"] = dict(cases_tsv=sk.get(base, []), what=f["what"])
        uniq.append(f)
    return cases, order, impl, sk, uniq, hist, nontrivial, stats


def shrink_trace(ctx, fail, budget=40):
    """Delta-debugging on the op list of a failing value-level trace: re-runs the real code on the
    reduced history and keeps a reduction when the direct oracle still reports the same kind of failure."""
    lines = fail["case"].get("cases_tsv", [])
    if len(lines) < 3 or "\tTS\t" not in lines[0]:
        return fail
    cat = fail["what"].split(" (engine")[0].split("(")[0]
    head, ops = lines[0], lines[1:]
    runs = [0]

    def still_fails(cand):
        if runs[0] >= budget:
            return None
        runs[0] += 1
        rf = os.path.join(ctx.run_dir, "shrink_cases.tsv")
        with open(rf, "w") as f:
            f.write(head + "\n")
            for l in cand:
                f.write(l + "\n")
        d, err = run_impl(ctx, "shrink", None, rf)
        if d is None:
            return None
        for f2 in evaluate(d)[4]:
            if f2["what"].split(" (engine")[0].split("(")[0] == cat:
                return f2
        return None

    best = fail
    n = 2
    while len(ops) >= 2 and runs[0] < budget:
        chunk = max(1, len(ops) // n)
        reduced = False
        for i in range(0, len(ops), chunk):
            cand = ops[:i] + ops[i + chunk:]
            f2 = still_fails(cand)
            if f2 is not None:
                ops, best, reduced = cand, f2, True
                n = max(n - 1, 2)
                break
        if not reduced:
            if chunk == 1:
                break
            n = min(n * 2, len(ops))
    best["what"] += " [history shrunk to %d ops in %d runs]" % (len(ops), runs[0])
    return best


def run(ctx):
    quick = ctx.tier == "quick"
    ok, out, _ = vlib.go_build("ckpt")
    if not ok:
        log("BUILD FAILED (harness ckpt):\n" + out[-3000:])
        raise SystemExit(2)
    vlib.regen_consts("Ckpt", "ckpt")
    proofs_ok, info = ctx.check_proofs(
        make_targets=sorted("Ckpt/" + os.path.basename(p) + "o" for p in glob.glob(os.path.join(vlib.COQ, "Ckpt", "Proofs*.v")))
        + ["Properties/C14.vo"],
        gate_paths=["Ckpt", "Common", "Properties/C14"])
    mok, mout, _ = vlib.model_build("Ckpt")
    if not mok:
        log("MODEL BUILD FAILED:\n" + mout[-3000:])
        raise SystemExit(2)

    if quick:
        args = "-seed %d -ndir 500 -nplan 200 -ntrace 2 -tracelen 50 -nfetch 0 -ninter 40 -ncrash 1 -engines pebble,rocksdb,mem -k1 none" % ctx.seed
    else:
        args = "-seed %d -ndir 15000 -nplan 3000 -ntrace 30 -tracelen 80 -nfetch 6 -ninter 600 -nhll 120 -ncrash 25 -junk 100000 -exh -engines pebble,rocksdb,mem -k1 pebble,rocksdb,mem -k1mb 48" % ctx.seed
    runs = []
    corpus = sorted(glob.glob(os.path.join(vlib.VERIF, "corpus", "C14", "*.tsv")))
    if ctx.replay:
        rp = json.load(open(ctx.replay))
        rf = os.path.join(ctx.run_dir, "replay_cases.tsv")
        with open(rf, "w") as f:
            for line in rp.get("case", {}).get("cases_tsv", []):
                f.write(line + "\n")
        runs.append(("replay", None, rf))
    else:
        for k, cf in enumerate(corpus):
            runs.append(("corpus%d" % k, None, cf))
        runs.append(("fresh", args, None))
        if not quick:
            # the btree index of the mem engine (reachable through engine.VerifSetMemType only). The third index,
            # skiplist, is not run: its iterator is no snapshot, so its checkpoint contains writes applied after
            # the release (99 of 100 interleaved trials); it cannot be selected outside the package tests.
            for mt in ("btree",):
                runs.append(("mem-" + mt, "-seed %d -ndir 0 -nplan 60 -ntrace 8 -tracelen 70 -ninter 200 -ncrash 0 -engines mem -memtype %s -k1 mem -k1mb 16" % (ctx.seed + 7, mt), None))

    all_mism, all_fail, total = [], [], 0
    hist_all, stats_all, distinct, samples = {}, {}, set(), []
    for sub, a, rf in runs:
        d, err = run_impl(ctx, sub, a, rf)
        if d is None:
            # the harness process died (an abort inside cgo, a fatal runtime error): when it was in the middle of
            # a case, that case is the failing input; otherwise it is an infrastructure problem
            dd = os.path.join(ctx.run_dir, sub)
            sk = read_skeleton(os.path.join(dd, "current.tsv"))
            if sk:
                last = list(sk)[-1]
                ctx.report_violation("crash-" + last, dict(case=dict(cases_tsv=sk[last], what="harness process died"), kind="failing-input"),
                                     what="the process running the real code died while executing this case (checkpoint / restore / open): " + err[-400:])
                ctx.finish(dict(traces_validated_against_impl=0, evaluations=0, distinct_nontrivial=0,
                                rule="harness process died", histogram={}, mismatches=0, samples=[]))
            log("HARNESS RUN FAILED (%s):\n%s" % (sub, err[-3000:]))
            raise SystemExit(2)
        mism, cnt = vlib.diff_outputs(os.path.join(d, "impl.out"), os.path.join(d, "model.out"))
        cases, order, impl, sk, fails, hist, nontrivial, stats = evaluate(d)
        all_mism += [(m[0], m[1], m[2]) for m in mism]
        if not ctx.replay:
            fails = [shrink_trace(ctx, f) if k < 2 and f["name"].startswith("trace-") else f for k, f in enumerate(fails)]
        all_fail += fails
        total += cnt
        distinct |= nontrivial
        for k, v in hist.items():
            hist_all[k] = hist_all.get(k, 0) + v
        for k, v in stats.items():
            stats_all[k] = stats_all.get(k, 0) + v
        try:
            ncoll = open(os.path.join(d, "run.log"), errors="replace").read().count("sst number reused with other content")
            stats_all["fetch_scenarios_with_sst_number_reuse"] = stats_all.get("fetch_scenarios_with_sst_number_reuse", 0) + ncoll
        except OSError:
            pass
        if sub in ("fresh", "replay"):
            byk = {}
            for cid in order:
                byk.setdefault(cases[cid][0], cid)
            for kd in ("P", "F", "TO", "L", "G", "H", "E", "I", "HR", "RS", "MS", "FF", "CB", "CR", "CRR", "CF", "K"):
                if kd in byk:
                    cid = byk[kd]
                    samples.append(dict(case=[x[:160] for x in cases[cid]], impl=(impl.get(cid) or "")[:300]))

    def search():
        d2, err = run_impl(ctx, "search", "-seed %d -ndir 3000 -nplan 800 -ntrace 6 -tracelen 60 -nfetch 4 -ninter 300 -ncrash 10 -engines pebble,rocksdb,mem -k1 pebble,rocksdb -k1mb 48" % (ctx.seed + 1000003))
        if d2 is None:
            return []
        return evaluate(d2)[4]

    vlib.standard_verdict(ctx, proofs_ok, all_mism, all_fail, search_fn=search,
                          corr_name="Ckpt/Model.v vs rockredis GetCheckpointDir / CheckpointSortNames.Less / purgeOldCheckpoint / "
                                    "GetLatestCheckpoint / restoreFromPath / Backup+Restore through node.kvStoreSM on pebble, rocksdb, mem")
    hist_all.update({"stat." + k: v for k, v in stats_all.items()})
    ctx.finish(dict(
        traces_validated_against_impl=total,
        evaluations=total,
        distinct_nontrivial=len(distinct),
        rule="cases from one seeded PRNG. N: (term,index) incl. uint64 edges; C: pairs of names (canonical, other widths, upper case, junk); "
             "P: directory listings (<=12 entries with junk/duplicate keys, <=40 well-formed) x keepNum 0..12 x latestSnapIndex; "
             "L: listing x skipN x matching subset; F: crafted data/checkpoint directories (sst same/different/hard-linked, LOG*, "
             "MANIFEST/CURRENT/OPTIONS, sub-directories, files longer than the 256KB footer window) restored by the real restoreFromPath on a mem store; "
             "T: histories on two real state machines per engine (writes of every data type incl. INCR counters, table counters, TTLs, "
             "HyperLogLog; Backup at random instants with writes while the copy runs; Restore on the same store, repeated, and on the "
             "other store after copying the checkpoint directory; compaction; close+reopen; SetLatestSnapIndex; small KeepBackup traces "
             "where the purge really removes; fetch of a checkpoint by the real kvStoreSM.PrepareSnapshot from the peer store); "
             "I: the production apply-loop schedule around a snapshot, many trials per engine on one store: apply, dump, GetSnapshot (Backup+WaitReady), "
             "apply further entries at once while the copy runs, GetData, RestoreFromSnapshot, dump; "
             "G: node.GetValidBackupInfo against one HTTP stub per peer (same host / other host, own data root, refusing, unreachable; the stub rejects "
             "any request that is not the checkbackup of exactly the requested snapshot); H: node.handleReuseOldCheckpoint on crafted backup directories "
             "(source_node_info per checkpoint, shared hard links, the new directory present or not, from the same or another source); "
             "HR: PFADDs on 1-45 distinct keys (the dirty cache holds 32) still only in the write cache right before Backup and right before Restore, on a store "
             "with a 16 KB write buffer and on a default one; the T histories carry such bursts too; "
             "RS: two source stores with a checkpoint of the same (term,index) and different content, ProposeOp_TransferRemoteSnap + ProposeOp_ApplyRemoteSnap "
             "(real custom raft requests through ApplyRaftRequest) from one, repeated after its checkpoint is gone, then from the other; "
             "MS: checkpoint size classes just below / above 1 MiB and a few MiB with values of 60-260 KB; CRR: kills inside RestoreFromRemoteBackup while a local checkpoint of the same name exists; "
             "FF: a transfer through PrepareSnapshot whose cp fails midway (a cp wrapper on PATH with a 64 KB file size limit), process alive, then retry and restore; "
             "CB/CR/CF: a child process is killed (SIGKILL, with its cp child) inside a backup, a restore, a snapshot transfer — at each named crash point "
             "of rockredis.go and at random moments — and the store is restarted the way node/raft.go does; "
             "E: two checkpoints fetched and restored, the source falls back to its first checkpoint and reuses sst numbers with other content, third fetch; K: 32MB unflushed memtable + INCR traffic racing with the checkpoint copy. "
             "Non-trivial = a purge that removes, a plan with an sst present on both sides, a restore that really rolls the content back, "
             "any N/C/L/K; distinct by hash of the case.",
        histogram=hist_all,
        mismatches=len(all_mism),
        samples=samples[:6],
    ), assumptions=[
        "value ids and checkpoint digests on W/B/G/Z lines are observations of the implementation handed to the model (the model is parametric in what a write does); the content after every Restore is predicted by the model and judged by the direct oracle",
        "TTLs are >= 2h and the WaitCompact expiry policy is used, so no expiry happens during a run",
        "directory listings handed to sort.Sort have <= 12 entries whenever they contain names on which Less is not a strict total order (Go sorts <= 12 elements by insertion sort, which the model transcribes)",
    ])
