"""C05 — WAL reopen after a crash returns exactly a durable prefix."""
import glob
import json
import os
import shutil

import vlib
from vlib import sh, log

GROUP = "Wal"
BINARY = "walcheck"

SIG_TYPE = "single bit flip in a WAL record's Type byte (the record CRC covers only Data)"   # or in the tag of the Type field
SIG_COLL = "torn write whose zero-filled record Data has the same CRC-32C as the written Data (CRC-32 collision)"

_POLY = 0x82F63B78
_TAB = []
for _i in range(256):
    _c = _i
    for _ in range(8):
        _c = (_c >> 1) ^ _POLY if _c & 1 else _c >> 1
    _TAB.append(_c)


def crc32c(bs, crc=0):
    s = crc ^ 0xFFFFFFFF
    for b in bs:
        s = _TAB[(s ^ b) & 0xFF] ^ (s >> 8)
    return s ^ 0xFFFFFFFF


def damage(data, kind):
    """the tail segment's bytes under a T / X / Z image (X is judged like T: missing bytes read as absent)"""
    f = kind.split(":")
    b = bytearray(data)
    if f[0] in ("T", "X"):
        c = min(int(f[1], 16), len(b))
        b[c:] = bytes(len(b) - c)
    elif f[0] == "Z":
        for k in range(1, len(f) - 1, 2):
            a = min(int(f[k], 16), len(b))
            e = min(a + int(f[k + 1], 16), len(b))
            b[a:e] = bytes(e - a)
    return bytes(b)


def crc_collision(orig, fmap, kind):
    """NoCrcCollision evaluated directly (no model): is there a written frame whose length field and record
    header survived, whose Data bytes changed, and whose changed Data has the same CRC-32C?"""
    cls, end = fmap
    dmg = damage(orig, kind)
    off = 0
    while off + 8 <= end:
        l = int.from_bytes(orig[off:off + 8], "little")
        rb = l & ((1 << 56) - 1)
        pad = (l >> 56) & 7 if l >> 63 else 0
        fe = off + 8 + rb + pad
        if dmg[off:fe] != orig[off:fe]:
            drange = [i for i in range(off + 8, off + 8 + rb) if cls.get(i) == "data"]
            hdr = [i for i in range(off, off + 8 + rb) if cls.get(i) != "data"]
            if drange and all(dmg[i] == orig[i] for i in hdr):
                d0 = bytes(orig[i] for i in drange)
                d1 = bytes(dmg[i] for i in drange)
                if d0 != d1 and crc32c(d0) == crc32c(d1):
                    return True
        off = fe
    return False


# ----------------------------------------------------------------------------- parsing

def parse_cases(path):
    """-> ordered list of (id, fields)"""
    out = []
    for line in open(path):
        p = line.rstrip("\n").split("\t")
        if len(p) >= 2:
            out.append((p[0], p[1:]))
    return out


def kv(s):
    d = {}
    for tok in s.split(" "):
        if "=" in tok:
            k, v = tok.split("=", 1)
            d[k] = v
    return d


def parse_hist_out(s):
    d = kv(s)
    if "err" in d and "files" not in d:
        return None
    recs = []
    for r in d["recs"].split(","):
        f = r[1:].split(".")
        if r[0] == "e":
            recs.append(("e", int(f[0], 16), int(f[1], 16), f[2]))
        elif r[0] == "s":
            recs.append(("s", int(f[0], 16), int(f[1], 16), int(f[2], 16)))
        else:
            recs.append(("n", int(f[0], 16), int(f[1], 16)))
    files = []
    for f in d["files"].split(","):
        name, hx = f.split(":")
        files.append((name, b"" if hx == "-" else bytes.fromhex(hx)))

    def sp(v):
        if v == "none":
            return None
        name, off, n = v.split(":")
        return (name, int(off, 16), int(n, 16))
    segrec = {}
    for t in d["segrec"].split(","):
        name, n = t.split(":")
        segrec[name] = int(n, 16)
    # records of purged segments are gone from the directory: the log that can be read starts at `drop`
    drop = segrec.get(files[0][0], 0) if files else 0
    st0 = (0, 0, 0)
    for r in recs[:drop]:
        if r[0] == "s":
            st0 = (r[1], r[2], r[3])
    return dict(recs=recs, files=files, pre=sp(d["pre"]), sync=sp(d["sync"]), segrec=segrec, drop=drop, st0=st0)


def parse_result(tok):
    """'ok meta=.. st=.. ents=..' -> (meta, st, ents)"""
    d = kv(tok)
    st = tuple(int(x, 16) for x in d["st"].split("."))
    ents = []
    if d["ents"] != "-":
        for e in d["ents"].split(","):
            f = e.split(".")
            ents.append((int(f[0], 16), int(f[1], 16), f[2]))
    return d["meta"], st, ents


def parse_recs(txt):
    recs = []
    if txt in ("-", "", "?"):
        return recs
    for r in txt.split(","):
        f = r[1:].split(".")
        if r[0] == "e":
            recs.append(("e", int(f[0], 16), int(f[1], 16), f[2]))
        elif r[0] == "s":
            recs.append(("s", int(f[0], 16), int(f[1], 16), int(f[2], 16)))
        else:
            recs.append(("n", int(f[0], 16), int(f[1], 16)))
    return recs


def parse_img_out(s):
    """vse=.. at=i.t ver=.. r1=<cls | ok meta.. st.. ents..> [rep=0 | rep=1 size=.. r2=<..>]
       [tz=<0|1> cont=<records appended after the recovery> g2=at2=i.t <cls | ok ...>]"""
    g2 = None
    if " tz=" in s:
        s, _, gen2 = s.partition(" tz=")
        tz, _, rest = gen2.partition(" cont=")
        crecs, _, g2txt = rest.partition(" g2=")
        g2 = dict(tz=tz, cont=parse_recs(crecs), raw=g2txt)
        if g2txt.startswith("at2="):
            a, _, r = g2txt.partition(" ")
            g2["at"] = tuple(int(x, 16) for x in a[4:].split("."))
            g2["res"] = r
    o = dict(raw=s, g2=g2)
    head, _, rest = s.partition(" r1=")
    h = kv(head)
    o["vse"] = h.get("vse")
    o["at"] = tuple(int(x, 16) for x in h["at"].split("."))
    o["ver"] = h.get("ver")
    r1, _, rep = rest.partition(" rep=")
    o["r1"] = r1
    o["rep"] = None
    o["r2"] = None
    if rep:
        if rep.startswith("1"):
            o["rep"] = 1
            o["r2"] = rep.partition(" r2=")[2]
        else:
            o["rep"] = 0 if rep.startswith("0") else rep
    o["final"] = o["r2"] if o["r2"] is not None else o["r1"]
    return o


# ----------------------------------------------------------------------------- the property itself

def effect(recs, k, start, drop=0, st0=(0, 0, 0)):
    """The meaning of the first k saved records when the log is reopened at snapshot `start`, stated over the
    WHOLE log and independently of segment file names: the live log is built by placing every entry at its
    index (a later write at an index replaces the earlier entry and truncates everything behind it — also
    when that index is at or below the snapshot); the reopen returns the live entries beyond the snapshot
    index and the newest hard state of the prefix. None = ReadAll must refuse (a gap beyond the snapshot,
    live entries that do not start at index+1).
    Records of purged segments (before `drop`) only contribute their hard state."""
    si, sterm = start
    st = (0, 0, 0)
    for r in recs[:k]:
        if r[0] == "s":
            st = (r[1], r[2], r[3])
    log = []
    for r in recs[drop:k]:
        if r[0] == "e":
            e = (r[1], r[2], r[3])
            if not log or r[1] < log[0][0]:
                log = [e]
            else:
                up = r[1] - log[0][0]
                if up > len(log):
                    # a gap in the saved history: ReadAll only notices it among the entries beyond the snapshot
                    if r[1] > si and not (r[1] == si + 1 and log[-1][0] <= si):
                        return None
                    log = [e]
                else:
                    log = log[:up] + [e]
        # a marker at the snapshot index with another term makes ReadAll refuse only if its record lies in the
        # segments Open selected: refusing is always acceptable, so markers never make a result unacceptable
    ents = [e for e in log if e[0] > si]
    if ents and ents[0][0] != si + 1:
        return None
    return st, ents


def valid_snaps(recs, k, drop=0, st0=(0, 0, 0)):
    st = st0
    snaps = []
    for r in recs[drop:k]:
        if r[0] == "s":
            st = (r[1], r[2], r[3])
        elif r[0] == "n":
            snaps.append((r[1], r[2]))
    return [s for s in snaps if s[0] <= st[2]]


def frame_map(data):
    """byte offset -> field class of the written frames of a segment image (for classifying bit flips)"""
    cls = {}
    off = 0
    n = len(data)
    while off + 8 <= n:
        l = int.from_bytes(data[off:off + 8], "little")
        if l == 0:
            break
        rb = l & ((1 << 56) - 1)
        pad = (l >> 56) & 7 if l >> 63 else 0
        if off + 8 + rb + pad > n:
            break
        for i in range(8):
            cls[off + i] = "lenfield"
        p = off + 8
        end = p + rb
        # 08 <type> 10 <crc varint> [1a <len varint> data]
        stage = ["tag", "type"]
        q = p
        try:
            cls[q] = "typetag"; q += 1
            while True:
                cls[q] = "type"; q += 1
                if data[q - 1] < 0x80:
                    break
            cls[q] = "tag"; q += 1
            while True:
                cls[q] = "crc"; q += 1
                if data[q - 1] < 0x80:
                    break
            if q < end:
                cls[q] = "tag"; q += 1
                while True:
                    cls[q] = "datalen"; q += 1
                    if data[q - 1] < 0x80:
                        break
                while q < end:
                    cls[q] = "data"; q += 1
        except IndexError:
            pass
        for i in range(end, end + pad):
            cls[i] = "pad"
        off = end + pad
    return cls, off


def contract_synced(opt, ops):
    """Number of logical records that the API CONTRACT makes durable before the last operation starts — computed
    from the case line alone, not from the fdatasync the hook observed: an explicit WAL.Sync() that returned nil,
    and, without optimizedFsync, every SaveSnapshot and every Save with entries (raft.MustSync), cover everything
    saved before they returned. (With optimizedFsync only the explicit Sync is counted: Save/SaveSnapshot/cut may
    legitimately skip the fdatasync there, W1.) On the unmodified code this never exceeds what the hook saw."""
    n = 1                    # Create's own marker
    best = 0
    for o in ops[:-1]:
        f = o.split(":")
        if f[0] == "S":
            ents = [e for e in f[2].split("|") if e] if len(f) > 2 else []
            st = [int(x, 16) for x in f[1].split(",")]
            n += len(ents) + (1 if any(st) else 0)
            if ents and not opt:
                best = n
        elif f[0] == "N":
            n += 1
            if not opt:
                best = n
        elif f[0] == "Y":
            best = n
    return best


def oracle(cases, impl):
    """Direct oracle: the property evaluated on the implementation's outputs only.
    Every reopened crash image must be an error, or exactly effect(prefix) for a prefix of the saved
    records that contains every record saved before the last completed fdatasync."""
    fails = []
    hist = {}
    stats = dict(images=0, ok_results=0, loud=0, panics=0, repaired=0, min_slack=None, flips={}, modes={},
                 outcome={})
    cur = None
    cur_line = None
    nontrivial = set()
    for cid, c in cases:
        out = impl.get(cid)
        kind = c[0]
        if kind == "H":
            cur_line = "\t".join([cid] + c)
            cur = parse_hist_out(out) if out else None
            stats["modes"]["optimizedFsync" if c[1] == "1" else "fsync-always"] = \
                stats["modes"].get("optimizedFsync" if c[1] == "1" else "fsync-always", 0) + 1
            if cur is None:
                fails.append(dict(name="history-" + cid, case=dict(cases_tsv=[cur_line], impl=out),
                                  what="the wal refused or failed a save history: %s" % out))
                continue
            cur["meta"] = c[3]
            cur["contract"] = contract_synced(c[1] == "1", c[4].split(";"))
            if cur["contract"] > (cur["pre"][2] if cur["pre"] is not None else 0):
                stats["contract_beyond_hook"] = stats.get("contract_beyond_hook", 0) + 1
            cur["fmap"] = [frame_map(f[1]) for f in cur["files"]]
            for o in c[4].split(";"):
                hist["op:" + o[:1]] = hist.get("op:" + o[:1], 0) + 1
            hist["segments:%d" % min(len(cur["files"]), 6)] = hist.get("segments:%d" % min(len(cur["files"]), 6), 0) + 1
            continue
        if kind == "K":
            # the concurrent leg: Save in one goroutine, WAL.Sync() in another (node/raft.go does both), then a
            # clean Close: the reopen must return the last hard state and the files must hold every record
            hist["K"] = hist.get("K", 0) + 1
            if out != c[1]:
                fails.append(dict(name="closelost-" + cid, case=dict(cases_tsv=["\t".join([cid] + c)], impl=out),
                                  what="Save racing with WAL.Sync(), then a clean Close: the reopen gave [%s], "
                                       "every saved record present would be [%s]" % (out, c[1])))
            continue
        if kind in ("D", "U"):
            hist[kind] = hist.get(kind, 0) + 1
            if out == "panic":
                fails.append(dict(name="decpanic-" + cid, case=dict(cases_tsv=["\t".join([cid] + c)], impl=out),
                                  what="the decoder / Unmarshal panicked on a byte string"))
            continue
        if kind != "I" or cur is None:
            continue
        stats["images"] += 1
        ik = c[2].split(":")[0]
        hist["image:" + ik] = hist.get("image:" + ik, 0) + 1
        if out is None:
            fails.append(dict(name="missing-" + cid, case=dict(cases_tsv=[cur_line, "\t".join([cid] + c)]),
                              what="no implementation output"))
            continue
        o = parse_img_out(out)
        recs, drop, st0 = cur["recs"], cur["drop"], cur["st0"]
        req = 0
        if ik in ("F", "T", "X", "Z", "D") and cur["pre"] is not None:
            req = cur["pre"][2]
        if ik in ("F", "T", "X", "Z", "D"):
            # what Sync()/Save/SaveSnapshot promised when they returned nil, whether or not an fdatasync was seen
            req = max(req, cur["contract"])
        fclass = None
        if ik == "B":
            f = c[2].split(":")
            fi = min(int(f[1], 16), len(cur["files"]) - 1)
            fclass = cur["fmap"][fi][0].get(int(f[2], 16) // 8, "unwritten")
            stats["flips"][fclass] = stats["flips"].get(fclass, 0) + 1
        sig = None
        sig_vse = None
        if fclass in ("type", "typetag"):
            # the open finding is a re-typing into another KNOWN record type (accepted silently by design of the
            # format); a flip that makes the type unknown is refused loudly by the code ('unexpected block type'),
            # so a silent non-prefix result there is a new failure, not the known one
            sig = SIG_TYPE
            sig_vse = SIG_TYPE      # ValidSnapshotEntries has no default case: it skips unknown types in the baseline
            bit = int(f[2], 16)
            data = cur["files"][fi][1]
            if fclass == "type" and bit // 8 < len(data) and (data[bit // 8] ^ (1 << (bit % 8))) not in (1, 2, 3, 4, 5):
                sig = None
            if fclass == "typetag":
                sig = None
        if ik in ("T", "X", "Z"):
            stats["nocrc_evaluated"] = stats.get("nocrc_evaluated", 0) + 1
            if crc_collision(cur["files"][-1][1], cur["fmap"][-1], c[2]):
                stats["nocrc_false"] = stats.get("nocrc_false", 0) + 1
                sig = SIG_COLL
        final = o["final"]
        okey = ("ok" if o["r1"].startswith("ok") else o["r1"]) + \
               ("" if o["rep"] is None else "/rep=%s" % o["rep"]) + \
               ("" if o["r2"] is None else "/" + ("ok" if o["r2"].startswith("ok") else o["r2"]))
        stats["outcome"][okey] = stats["outcome"].get(okey, 0) + 1
        if "panic" in out:
            stats["panics"] += 1
        if o["rep"] == 1:
            stats["repaired"] += 1
        case = dict(cases_tsv=[cur_line, "\t".join([cid] + c)], impl=out, image=c[2], open_at=c[1])
        # ValidSnapshotEntries: a list must be the valid markers of some prefix >= the synced one
        if o["vse"] is not None and not o["vse"].startswith("err") and o["vse"] != "panic":
            got = [] if o["vse"] == "-" else [tuple(int(x, 16) for x in s.split(".")) for s in o["vse"].split("|")]
            if not any(valid_snaps(recs, k, drop, st0) == got for k in range(max(req, drop), len(recs) + 1)):
                fails.append(dict(name="vse-" + cid, case=case, signature=sig_vse or sig,
                                  what="ValidSnapshotEntries returned markers %s that are not the valid markers of any "
                                       "prefix holding the %d synced records" % (o["vse"], req)))
                continue
        if not final.startswith("ok"):
            stats["loud"] += 1
            first_idx = int(cur["files"][0][0].split("-")[1], 16)
            # (every prefix must be readable: ReadAll refuses at a transient gap even if a later overwrite from a
            # lower index heals it in the whole-log meaning)
            if ik in ("F", "D") and all(effect(recs, k, o["at"], drop) is not None for k in range(drop, len(recs) + 1)) \
                    and (o["at"] == (0, 0) or ("n", o["at"][0], o["at"][1]) in recs[drop:]) \
                    and first_idx <= o["at"][0] and final != "snapmismatch":
                fails.append(dict(name="undamaged-" + cid, case=case,
                                  what="an undamaged log is refused when opened at %x.%x: %s" % (o["at"] + (final,))))
            continue
        stats["ok_results"] += 1
        meta, st, ents = parse_result(final)
        mh = cur["meta"]
        if not (meta == mh or (meta in ("~", "-") and mh in ("~", "-")) or meta == "~"):
            fails.append(dict(name="meta-" + cid, case=case, signature=sig,
                              what="returned metadata %s differs from the written %s" % (meta, mh)))
            continue
        ks = [k for k in range(drop, len(recs) + 1) if effect(recs, k, o["at"], drop) == (st, ents)]
        if not ks and (st, ents) == ((0, 0, 0), []) and len(cur["files"]) == 1 and ik in ("T", "X", "Z"):
            ks = [drop]   # cut inside the only segment's own header: not even the carried-over hard state
        if not ks:
            fails.append(dict(name="notprefix-" + cid, case=case, signature=sig,
                              what="reopen returned (state %s, %d entries) which is not the effect of any prefix of the "
                                   "%d saved records%s" % (st, len(ents), len(recs),
                                                           " [flipped bit lies in a record's %s]" % fclass if fclass else "")))
            continue
        if ik == "F" and len(recs) not in ks:
            fails.append(dict(name="closelost-" + cid, case=case,
                              what="after a clean Close the reopen returned the effect of only %d of the %d saved records"
                                   % (max(ks), len(recs))))
            continue
        if max(ks) < req:
            fails.append(dict(name="lost-" + cid, case=case, signature=sig,
                              what="reopen returned the effect of only %d records although %d were saved before the last "
                                   "completed fdatasync" % (max(ks), req)))
            continue
        slack = max(ks) - req
        if stats["min_slack"] is None or slack < stats["min_slack"]:
            stats["min_slack"] = slack
        g2 = o.get("g2")
        if g2 is not None:
            stats["gen2"] = stats.get("gen2", 0) + 1
            if g2["tz"] != "1":
                fails.append(dict(name="dirtytail-" + cid, case=case,
                                  what="after the recovery (Open + ReadAll in write mode) bytes survive in the tail segment "
                                       "behind the last valid record"))
                continue
            if "res" not in g2 or not g2["res"].startswith("ok"):
                fails.append(dict(name="gen2refused-" + cid, case=case,
                                  what="records were appended to the recovered log and it was closed cleanly; the next "
                                       "reopen does not succeed: " + g2["raw"][:80]))
                continue
            _, st2, ents2 = parse_result(g2["res"])
            want = [effect(recs[:k] + g2["cont"], k + len(g2["cont"]), g2["at"], drop) for k in ks]
            if (st2, ents2) not in want:
                fails.append(dict(name="gen2-" + cid, case=case,
                                  what="second generation: after recovery to a %d-record prefix, %d records were appended "
                                       "and the log closed; the reopen returned (state %s, %d entries), not the effect of "
                                       "prefix + appended records (something cut off came back, or something appended "
                                       "was lost)" % (max(ks), len(g2["cont"]), st2, len(ents2))))
                continue
        if ik in ("T", "X", "Z", "B"):
            nontrivial.add(vlib.case_hash(cur_line + c[1] + c[2]))
    return fails, hist, stats, nontrivial


# ----------------------------------------------------------------------------- running both sides

# sub-runs judged by the direct oracle only (the extracted model works on lists of binary numbers: minutes per
# history with a 1-2 MB entry)
ORACLE_ONLY = ("mega",)


def run_both(ctx, sub, args):
    d = os.path.join(ctx.run_dir, "%s.%d" % (sub, os.getpid()))     # concurrent invocations must not share it
    shutil.rmtree(d, ignore_errors=True)
    os.makedirs(d)
    cmd = "%s %s -out %s" % (os.path.join(vlib.BIN, BINARY), args, d)
    rc, out, dt = sh(cmd, cwd=d, timeout=3000)
    if rc != 0:
        return None, out
    if sub in ORACLE_ONLY:
        return d, ""
    # the extracted model uses the system stack for its (non tail recursive) list functions: 300 KB entries
    # need more than the default 8 MB
    rc2, out2, dt2 = sh("ulimit -s 4000000 2>/dev/null || ulimit -s unlimited 2>/dev/null || true; %s < cases.tsv > model.out"
                        % vlib.modelrun_path(GROUP), cwd=d, timeout=3000)
    if rc2 != 0:
        return None, out2
    return d, ""


def judge(d, diff=True):
    cases = parse_cases(os.path.join(d, "cases.tsv"))
    impl, _ = vlib.read_out(os.path.join(d, "impl.out"))
    if diff:
        mism, cnt = vlib.diff_outputs(os.path.join(d, "impl.out"), os.path.join(d, "model.out"))
    else:
        mism, cnt = [], 0
    fails, hist, stats, nontrivial = oracle(cases, impl)
    return mism, cnt, cases, impl, fails, hist, stats, nontrivial


def merge(a, b):
    for k, v in b.items():
        if isinstance(v, dict):
            a.setdefault(k, {})
            merge(a[k], v)
        elif isinstance(v, int) and isinstance(a.get(k), int):
            if k == "min_slack":
                a[k] = min(a[k], v)
            else:
                a[k] += v
        elif a.get(k) is None:
            a[k] = v


def run(ctx):
    quick = ctx.tier == "quick"
    ok, out, _ = vlib.go_build(BINARY)
    if not ok:
        log("BUILD FAILED (harness %s):\n%s" % (BINARY, out[-3000:]))
        raise SystemExit(2)
    vlib.regen_consts(GROUP, BINARY)
    proofs_ok, info = ctx.check_proofs(make_targets=["Wal/Proofs.vo", "Properties/C05.vo"],
                                       gate_paths=["Wal", "Common", "Properties/C05"])
    mok, mout, _ = vlib.model_build(GROUP)
    if not mok:
        log("MODEL BUILD FAILED:\n" + mout[-3000:])
        raise SystemExit(2)

    runs = []
    if ctx.replay:
        rp = json.load(open(ctx.replay))
        rc = os.path.join(ctx.run_dir, "replay_cases.%d.tsv" % os.getpid())
        with open(rc, "w") as f:
            for line in (rp.get("case") or {}).get("cases_tsv", []) or rp.get("cases_tsv", []):
                f.write(line + "\n")
        runs.append(("replay", "-replay %s" % rc))
    else:
        corpus = sorted(glob.glob(os.path.join(vlib.VERIF, "corpus", "C05", "*.tsv")))
        if corpus:
            cc = os.path.join(ctx.run_dir, "corpus_cases.%d.tsv" % os.getpid())
            with open(cc, "w") as f:
                for i, p in enumerate(corpus):
                    for line in open(p):
                        line = line.rstrip("\n")
                        if line and not line.startswith("#"):
                            # keep ids unique per corpus file
                            f.write("c%d." % i + line + "\n")
            runs.append(("corpus", "-replay %s" % cc))
        if quick:
            runs.append(("fresh", "-seed %d -n 12 -img 30 -exhaustive 1 -scen 12 -conc 30 -ndec 300" % ctx.seed))
            runs.append(("mega", "-seed %d -n 0 -img 0 -ndec 0 -mega 1" % ctx.seed))
        else:
            runs.append(("fresh", "-seed %d -n 50 -img 80 -exhaustive 6 -big 2 -scen 50 -mega 1 -megak 0 -conc 300 -ndec 4000" % ctx.seed))
            runs.append(("mega", "-seed %d -n 0 -img 0 -ndec 0 -mega 6" % ctx.seed))

    all_mism, all_fail, total = [], [], 0
    hist_all, stats_all, nontriv, samples = {}, {}, set(), []
    for sub, args in runs:
        d, err = run_both(ctx, sub, args)
        if d is None:
            log("HARNESS/MODEL RUN FAILED (%s):\n%s" % (sub, err[-3000:]))
            raise SystemExit(2)
        mism, cnt, cases, impl, fails, hist, stats, nt = judge(d, diff=sub not in ORACLE_ONLY)
        cmap = dict(cases)
        hline = {}
        last_h = None
        for cid, c in cases:
            if c[0] == "H":
                last_h = "\t".join([cid] + c)
            hline[cid] = last_h
        for m in mism:
            lines = []
            if cmap.get(m[0], ["?"])[0] == "I":
                lines.append(hline[m[0]])
            lines.append("\t".join([m[0]] + cmap.get(m[0], [])))
            all_mism.append((m[0], m[1], m[2], lines))
        all_fail += fails
        total += cnt
        merge(hist_all, hist)
        merge(stats_all, stats)
        nontriv |= nt
        pick = [cid for cid, c in cases if c[0] == "I" and c[2][0] in "TZB"][:400:80]
        for cid in pick:
            samples.append(dict(history=hline[cid][:400], image=cmap[cid][1:], impl=impl.get(cid, "")[:300]))

    def search():
        d2, err = run_both(ctx, "search", "-seed %d -n 60 -img 120 -exhaustive 6 -scen 60 -ndec 0" % (ctx.seed + 1000003))
        if d2 is None:
            return []
        ks = {kf.get("signature") for kf in vlib.load_known_findings()
              if kf.get("status") == "open" and kf.get("property") == "C05"}
        return [f for f in judge(d2)[4] if f.get("signature") not in ks]

    mm = [(m[0], (m[1] or "")[:600], (m[2] or "")[:600]) for m in all_mism]
    if all_mism and not all_fail:
        # keep the first disagreeing case replayable
        ctx.notes.append("first model/impl disagreement: " + json.dumps(all_mism[0][3])[:4000])
    # failures whose signature is an open known finding are reported as such (once per signature) and do not
    # hide anything else: the remaining failures and any model/impl disagreement go through the usual verdict
    known_sigs = {kf.get("signature") for kf in vlib.load_known_findings()
                  if kf.get("status") == "open" and kf.get("property") == "C05"}
    seen = set()
    unknown = []
    for f in all_fail:
        if f.get("signature") in known_sigs:
            if f["signature"] not in seen:
                seen.add(f["signature"])
                ctx.report_violation(f["name"], dict(case=f.get("case"), kind="failing-input"),
                                     signature=f["signature"], what=f.get("what", ""))
        else:
            unknown.append(f)
    known_count = len(all_fail) - len(unknown)
    all_fail = unknown
    if not all_mism and not all_fail:
        # nothing to look at afterwards: the case files of a thorough run are tens of MB
        for sub, _ in runs:
            shutil.rmtree(os.path.join(ctx.run_dir, "%s.%d" % (sub, os.getpid())), ignore_errors=True)
        for f in glob.glob(os.path.join(ctx.run_dir, "*_cases.%d.tsv" % os.getpid())):
            os.remove(f)
    vlib.standard_verdict(ctx, proofs_ok, mm, all_fail, search_fn=search,
                          corr_name="Wal/Model.v vs wal.Create/Save/SaveSnapshot/cut (segment bytes) and "
                                    "ValidSnapshotEntries/Verify/Open+ReadAll/Repair on crash images")
    ctx.finish(dict(
        traces_validated_against_impl=total,
        evaluations=stats_all.get("images", 0),
        distinct_nontrivial=len(nontriv),
        rule="histories from one seeded PRNG (Save with 0-3 entries of payload sizes 0..600 around the 8-byte padding and "
             "varint boundaries, suffix overwrites, hard-state changes, snapshot markers, ReleaseLockTo+purge, Sync; "
             "SegmentSizeBytes 200..2048; both fsync modes; thorough tier: also entries of 120-300 KB, beyond the page "
             "writer's 128 KiB buffer, with 64-200 KB segments) run through the real wal package; the segment files must equal "
             "the model's byte for byte; the crash is placed inside the last operation; images of the tail: T cut+zero fill "
             "(every frame boundary +-9 and random offsets, exhaustive for short histories), X short file, Z zeroed 512-byte "
             "sectors after the sync point (single and pairs), B single bit flips, D tail segment missing, F undamaged. "
             "Every accepted reopen of a non-bit-flip image is CONTINUED: the recovered wal must have an all-zero tail behind "
             "its last valid record, the lost live entries are saved again unchanged, a new entry and a hard-state-only "
             "Save follow, the wal is closed and reopened, judged against prefix + appended records. "
             "Designed per run: one history with an entry just above the encoder's 1 MiB scratch buffer (1048577.. / 2097158 "
             "bytes, all padding residues over the seeds; thorough: all 6), reopened undamaged at 0/L/its marker and cut "
             "once, judged by the direct oracle only (thorough: one 1048577-byte history also through the model); "
             "a concurrent leg (K lines, Go only; the model's line is the statement 'a clean Close loses nothing'): 3 x "
             "(80-110 KB of commit-only hard states left in the page writer, then WAL.Sync() racing with one more Save), "
             "Close, reopen: last hard state and the number of state records in the files must be exact. "
             "Non-trivial = a damaged image (T/X/Z/B) whose reopen returned data, distinct by hash of history+image.",
        histogram=hist_all,
        reopen_stats=stats_all,
        no_crc_collision="NoCrcCollision evaluated (independent Python CRC-32C) on %d torn images (T/X/Z): false on %d "
                         "(only the crafted corpus case is expected)"
                         % (stats_all.get("nocrc_evaluated", 0), stats_all.get("nocrc_false", 0)),
        mismatches=len(all_mism),
        known_finding_cases=known_count,
        samples=samples[:6],
    ), assumptions=[
        "crash model: bytes covered by the last completed fdatasync of the tail segment are fixed; later bytes may be "
        "missing from any offset on or be zero per 512-byte sector; older segments are intact (modelled, not verified "
        "against a kernel / file system)",
        "W1: with optimizedFsync only vote/term changes (and explicit Sync) fdatasync; cut() and SaveSnapshot do not; "
        "the 'synced' set used by oracle and theorem is the one the code really produced (sync hook), per run mode in "
        "reopen_stats.modes",
        "wal.ReadAll in write mode never reports ErrSnapshotNotFound (the error is overwritten when the encoder is "
        "created); the model follows the code",
    ])
