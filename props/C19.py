"""C19 — cross-cluster log replay applies each source entry exactly once."""
import glob
import json
import os
import shutil

import vlib
from vlib import sh, log


def parse_cases(path):
    cases = {}
    for line in open(path):
        line = line.rstrip("\n")
        if not line or line.startswith("#"):
            continue
        p = line.split("\t")
        cases[p[0]] = p[1:]
    return cases


def parse_dump(d):
    """'J=1:5,2:7;N=0=0,1=5;A=0=,1=f' -> (journal [(tag, p)], {c: n}, {c: str})"""
    parts = dict(x.split("=", 1) for x in d.split(";"))
    j = []
    if parts.get("J"):
        for e in parts["J"].split(","):
            t, p = e.split(":")
            j.append((int(t), int(p)))
    n = {}
    for e in parts.get("N", "").split(","):
        if e:
            c, v = e.split("=")
            n[int(c)] = int(v)
    a = {}
    for e in parts.get("A", "").split(","):
        if e:
            c, v = e.split("=")
            a[int(c)] = v
    return j, n, a


def parse_synced(s):
    m = {}
    if s == "-":
        return m
    for e in s.split("+"):
        c, v = e.split(":")
        t, i, ts = v.split(".")
        m[c] = (int(t), int(i), -1 if ts == "*" else int(ts))   # "*": wall clock of an ApplyRemoteSnapshot call
    return m


def is_subseq(a, b):
    it = iter(b)
    return all(x in it for x in a)


def oracle_case(cid, c, out):
    """The property itself evaluated on the implementation's observables (no model involved).
    Returns (list of failure strings, stats)."""
    fails = []
    kind, eng, cls, ops = c[0], c[1], c[2], c[3].split()
    st = dict(ops=len(ops), dup=0, restart=0, snap=0, lose=0, err=0, local=0, commit=0, rpc=0, snapop=0)
    if out is None:
        return ["no implementation output"], st
    if cls == "raw":
        return [], st      # outside the property's hypotheses: only model = implementation is checked
    obs = out.split(" / ")
    if "panic" in obs or any(o.startswith("setup-err") for o in obs):
        return ["the replay path panicked or could not start: " + out[-200:]], st
    src = {}            # cluster -> source dump
    srclog = {}         # cluster -> [(t, i, ts, p)]
    per_op = []
    k = 0
    for op in ops:
        f = op.split(":")
        if f[0] == "W":
            continue
        if f[0] == "Q":
            cl = int(f[1])
            ents = [tuple(int(x) for x in e.split(".")) for e in f[2].split(",")] if len(f) > 2 and f[2] else []
            srclog[cl] = ents
            if not obs[k].startswith("SRC "):
                return ["output misaligned at op %d" % k], st
            src[cl] = parse_dump(obs[k][4:])
        else:
            r = obs[k].split(";")
            if len(r) != 4:
                return ["bad observation %r at op %d" % (obs[k], k)], st
            per_op.append((op, r[0], parse_synced(r[1]), int(r[2])))
            if r[3] == "g4" and op.split(":")[0] in ("T", "P", "K", "G"):
                # GetApplySnapStatus said ApplySuccess for the snapshot at source entry k: the recorded position
                # must really cover that snapshot (the sender goes on behind it)
                ff = op.split(":")
                wl = [o2 for o2 in ops if o2.startswith("W:%s:" % ff[1])]
                if wl:
                    we = wl[0].split(":")[2].split(",")[int(ff[2]) - 1].split(".")
                    got = parse_synced(r[1]).get("c" + ff[1])
                    if got is None or got[0] < int(we[0]) or got[1] < int(we[1]):
                        fails.append("GetApplySnapStatus answered ApplySuccess for snapshot (%s,%s) at %s but the recorded position is %s"
                                     % (we[0], we[1], op, got))
            if kind == "M":
                # three replicas fed the same committed entries (replica 2 restarted now and then) never differ
                for n_, fo in enumerate(r[3].split("|")):
                    if fo != "%s,%s" % (r[1], r[2]):
                        fails.append("replica %d differs from the leader after %s: %s vs %s,%s" % (n_ + 1, op, fo, r[1], r[2]))
        k += 1
    if k >= len(obs) or not obs[k].startswith("END "):
        return ["missing END dump"], st
    j, n, a = parse_dump(obs[k][4:])
    if kind == "M" and (k + 1 >= len(obs) or obs[k + 1] != "REPL same"):
        fails.append("the replicas' data differ at the end: " + (obs[k + 1] if k + 1 < len(obs) else "missing"))
    # --- per-op checks: position never moves backwards, changes only together with applied data,
    #     is untouched by deliveries/losses/snapshots, and (with the data) survives a restart
    prev_s, prev_len = {}, 0
    seen = set()
    for op, res, s, jl in per_op:
        f = op.split(":")
        if f[0] == "D":
            key = tuple(f[1:6])
            if key in seen:
                st["dup"] += 1
            seen.add(key)
            if res == "err":
                st["err"] += 1
        elif f[0] == "H":
            st["rpc"] += 1
            st["down"] = st.get("down", 0) + 1
            if res != "err":
                fails.append("a batch sent while the raft group was not ready was answered %r instead of an error" % res)
        elif f[0] in ("B", "BE"):
            st["rpc"] += 1
            if res == "ok":
                # an acknowledged call was proposed and applied: every entry is covered by the position of its cluster
                for e in f[1:]:
                    g = e.split(".")
                    if len(g) < 5 or int(g[2]) == 0:
                        continue
                    got = s.get("c" + g[0])
                    if got is None or not (int(g[1]) < got[0] or int(g[2]) <= got[1]):
                        fails.append("ApplyRaftReqs answered success but entry %s is not covered by the recorded position %s" % (e, got))
                        break
            for e in f[1:]:
                g = e.split(".")
                if tuple(g[:5]) in seen:
                    st["dup"] += 1
                seen.add(tuple(g[:5]))
            if res == "err":
                st["err"] += 1
        elif f[0] in ("R", "Y", "R0"):
            st["restart"] += 1
        elif f[0] in ("S", "SB", "SF"):
            st["snap"] += 1
        elif f[0] == "X":
            st["lose"] += 1
        elif f[0] == "L":
            st["local"] += 1
        elif f[0] == "C":
            st["commit"] += 1
        for cl, v in prev_s.items():
            if cl not in s:
                fails.append("synced position of %s disappeared at %s" % (cl, op))
            elif s[cl][0] < v[0] or s[cl][1] < v[1]:
                fails.append("synced position of %s moved backwards at %s: %s -> %s" % (cl, op, v, s[cl]))
        if jl < prev_len:
            fails.append("applied data shrank at %s: %d -> %d" % (op, prev_len, jl))
        if f[0] in ("T", "P", "K", "G"):
            st["snapop"] = st.get("snapop", 0) + 1
        frozen = ("D", "X", "S", "SB", "SF", "R", "Y", "T", "P", "K") if kind == "A" else (("S", "R", "R0", "T", "P") if kind == "M" else ("S", "R"))   # kind B: T/P/K are whole rpcs that apply
        if f[0] in frozen and (s != prev_s or jl != prev_len):
            fails.append("%s changed the replica state: synced %s -> %s, journal %d -> %d" % (op, prev_s, s, prev_len, jl))
        changed = [cl for cl in s if s[cl] != prev_s.get(cl)]
        if changed and jl - prev_len < len(changed):
            fails.append("position of %s advanced at %s without applied data (journal %d -> %d)" % (changed, op, prev_len, jl))
        if res not in ("ok", "err", "none", "skip", "any") and not res.startswith("ok"):
            fails.append("unexpected result %s at %s" % (res, op))
        prev_s, prev_len = s, jl
    if len(j) != prev_len:
        fails.append("journal length at the end %d differs from the last observation %d" % (len(j), prev_len))
    # --- data checks
    tags = sorted(set(t for t, _ in j) | set(srclog.keys()))
    for cl in tags:
        pj = [p for t, p in j if t == cl]
        want_n = sum(pj)
        want_a = "".join(chr(97 + p % 26) for p in pj)
        if n.get(cl, 0) != want_n or a.get(cl, "") != want_a:
            fails.append("the three non-idempotent keys of tag %d disagree: journal %s counter %s string %r" % (cl, pj, n.get(cl), a.get(cl)))
        if cl == 0:
            continue
        ents = srclog.get(cl, [])
        name = "c%d" % cl
        sp = [e[3] for e in ents]
        if len(set(pj)) != len(pj):
            fails.append("a source entry of c%d was applied more than once: %s" % (cl, pj))
        elif not is_subseq(pj, sp):
            fails.append("applied entries of c%d are not a subsequence of its source log: %s vs %s" % (cl, pj, sp))
        # recorded position = position of the last applied entry
        if pj:
            last = [e for e in ents if e[3] == pj[-1]]
            got = prev_s.get(name)
            if last and got is not None and got[2] == -1:
                got = (got[0], got[1], last[0][2])      # position recorded by a snapshot install: term and index only
            if last and got != (last[0][0], last[0][1], last[0][2]):
                fails.append("synced position of %s is %s but the last applied entry is %s" % (name, prev_s.get(name), last[0][:3]))
        elif name in prev_s:
            fails.append("synced position recorded for %s although nothing of it was applied" % name)
        if cls in ("e2e", "e2esnap"):
            # the REAL sender's delivery sequence must follow the source order: every delivered entry is a re-delivery
            # of an already covered one or exactly the next new one; an installed snapshot covers its prefix
            # (the Follows hypothesis of the theorem)
            kk = 0
            pos = {e[1]: n_ for n_, e in enumerate(ents)}
            for op, res, sy, jl in per_op:
                f = op.split(":")
                if f[0] == "P" and int(f[1]) == cl:
                    kpt = int(f[2])
                    got = sy.get(name)
                    if got is not None and got[2] == -1 and (got[0], got[1]) == ents[kpt - 1][:2]:
                        kk = max(kk, kpt)        # the position is the snapshot's own: it has been installed
                    continue
                if f[0] not in ("B", "BE"):
                    continue
                for e in f[1:]:
                    g = e.split(".")
                    if int(g[0]) != cl:
                        continue
                    j_ = pos.get(int(g[2]))
                    if j_ is None or (int(g[1]), int(g[2]), int(g[3]), int(g[4])) != ents[j_]:
                        fails.append("the sender delivered something that is not a source entry of c%d: %s" % (cl, e))
                    elif j_ == kk:
                        kk += 1
                    elif j_ > kk:
                        fails.append("the sender jumped over an undelivered entry of c%d: delivered position %d, next expected %d" % (cl, j_, kk))
                        kk = j_ + 1
            if kk != len(ents):
                fails.append("the sender never delivered the tail of c%d (%d of %d)" % (cl, kk, len(ents)))
        if cls in ("ord", "e2e", "snap", "e2esnap"):
            sj, sn, sa = src[cl]
            if pj != [p for t, p in sj if t == cl] or n.get(cl, 0) != sn.get(cl, 0) or a.get(cl, "") != sa.get(cl, ""):
                fails.append("data replayed from c%d differs from the source's data: %s / %s / %r  vs source %s / %s / %r"
                             % (cl, pj, n.get(cl), a.get(cl), [p for t, p in sj if t == cl], sn.get(cl), sa.get(cl)))
    return fails, st


M0_SIGNATURE = ("kvStoreSM.ApplyRaftRequest conflict pre-check skipped when isReplaying; non-syncer-only receiver; "
                "restart re-applies entries ignored as conflicting")


def oracle_m0(cases, impl):
    """Receiver NOT in syncer-only mode (class m0, outside the model): a restart must reproduce data and positions."""
    fails = []
    for cid, c in cases.items():
        out = impl.get(cid)
        if out is None:
            continue
        ops = [o for o in c[3].split() if not o.startswith("Q:")]
        obs = [o for o in out.split(" / ") if not o.startswith("SRC ") and not o.startswith("END ")]
        prev = None
        for op, o in zip(ops, obs):
            r = o.split(";")
            if len(r) != 4:
                break
            cur = (r[1], r[2])
            if c[0] == "M":
                bad = [fo for fo in r[3].split("|") if fo != "%s,%s" % (r[1], r[2])]
                if bad:
                    fails.append(dict(name="m0-" + cid, signature=M0_SIGNATURE,
                                      case=dict(cases_tsv=["\t".join([cid] + c)], impl=out, leader=cur, follower=bad[0]),
                                      what="replicas of a non-syncer-only receiver diverge after %s: leader %s,%s follower %s "
                                           "(the restarted replica replays without the conflict pre-check)" % (op, r[1], r[2], bad[0])))
                    break
                prev = cur
                continue
            if (op.startswith("R:") or op.startswith("Y:")) and prev is not None and cur != prev:
                fails.append(dict(name="m0-" + cid, signature=M0_SIGNATURE,
                                  case=dict(cases_tsv=["\t".join([cid] + c)], impl=out, before=prev, after=cur),
                                  what="restart changed the replica state on a non-syncer-only receiver: %s -> %s "
                                       "(entries ignored live by the conflict pre-check are applied by the replay)" % (prev, cur)))
                break
            prev = cur
    return fails


def oracle(cases, impl):
    fails = []
    hist = {}
    nontrivial = set()
    for cid, c in cases.items():
        fs, st = oracle_case(cid, c, impl.get(cid))
        for k, v in st.items():
            hist[k] = hist.get(k, 0) + v
        hist["class_" + c[2]] = hist.get("class_" + c[2], 0) + 1
        hist["engine_" + c[1]] = hist.get("engine_" + c[1], 0) + 1
        hist["kind_" + c[0]] = hist.get("kind_" + c[0], 0) + 1
        if st["dup"] >= 1 and (st["restart"] + st["snap"]) >= 1:
            nontrivial.add(vlib.case_hash("\t".join(c)))
        if fs:
            fails.append(dict(name="replay-" + cid,
                              case=dict(cases_tsv=["\t".join([cid] + c)], impl=impl.get(cid), failures=fs[:5]),
                              what="cross-cluster replay: " + fs[0]))
    return fails, hist, nontrivial


def shrink_case(ctx, cid, c, first_failure=None, budget=120):
    """Delta debugging on the op list of a failing bare-node case (kind A): drop chunks of ops while the direct
    oracle still fails on the REAL code.  Declarations (W) and source dumps (Q) are kept."""
    if c[0] != "A":
        return c
    binp = os.path.join(vlib.BIN, "sync")
    d = os.path.join(ctx.run_dir, "shrink")
    os.makedirs(d, exist_ok=True)
    ops = c[3].split()
    fixed = [o for o in ops if o[0] in "WQ"]
    body = [o for o in ops if o[0] not in "WQ"]
    # keep the SAME kind of failure; the "everything was delivered" promise of classes ord/snap does not survive the
    # removal of deliveries, so candidates are judged as class any, and a pure end-state difference is not shrunk
    kind = (first_failure or "")[:18]
    if c[2] != "m0" and (not kind or kind.startswith("data replayed") or kind.startswith("the sender")):
        return c
    jclass = c[2] if c[2] in ("m0", "any") else "any"

    def fails(b):
        w = [o for o in fixed if o[0] == "W"]
        q = [o for o in fixed if o[0] == "Q"]
        cand = [c[0], c[1], jclass, " ".join(w + b + q)]
        with open(os.path.join(d, "cand.tsv"), "w") as f:
            f.write("\t".join(["s"] + cand) + "\n")
        rc, out, _ = sh("%s -replay cand.tsv -out ." % binp, cwd=d, timeout=120)
        if rc != 0:
            return False
        files = ("cases_m0.tsv", "impl_m0.out") if c[2] == "m0" else ("cases.tsv", "impl.out")
        impl, _ = vlib.read_out(os.path.join(d, files[1]))
        if c[2] == "m0":
            return bool(oracle_m0({"s": cand}, impl))
        fs, _ = oracle_case("s", cand, impl.get("s"))
        return any(x[:18] == kind for x in fs)

    n, runs = 2, 0
    while len(body) >= 2 and runs < budget:
        chunk = max(1, len(body) // n)
        reduced = False
        for i in range(0, len(body), chunk):
            cand = body[:i] + body[i + chunk:]
            runs += 1
            if cand and fails(cand):
                body, n, reduced = cand, max(n - 1, 2), True
                break
            if runs >= budget:
                break
        if not reduced:
            if chunk == 1:
                break
            n = min(n * 2, len(body))
    w = [o for o in fixed if o[0] == "W"]
    q = [o for o in fixed if o[0] == "Q"]
    return [c[0], c[1], c[2], " ".join(w + body + q)]


def run_impl(ctx, seed, n, sub, replay_file=None, engines="mem", nb=0, ne=0, nm=0, nes=0, nm0=0, nel=0):
    d = os.path.join(ctx.run_dir, sub)
    shutil.rmtree(d, ignore_errors=True)
    os.makedirs(d)
    port = 37000 + (os.getpid() % 90) * 10
    binp = os.path.join(vlib.BIN, "sync")
    if replay_file:
        cmd = "%s -replay %s -out %s -port %d" % (binp, replay_file, d, port)
    else:
        cmd = "%s -seed %d -n %d -nm %d -nm0 %d -nb %d -ne %d -nes %d -nel %d -engines %s -out %s -port %d" % (binp, seed, n, nm, nm0, nb, ne, nes, nel, engines, d, port)
    rc, out, dt = sh(cmd, cwd=d, timeout=3000)
    if rc == 3:
        # the live server (child process) did not come up or died: time/port dependent, one retry
        rc, out, dt = sh(cmd, cwd=d, timeout=3000)
    if rc == 3:
        return None, "INCONCLUSIVE " + out
    if rc != 0:
        return None, out
    for line in out.split("\n"):
        if line.startswith("SKIPPED-E"):
            ctx.notes.append("end-to-end run skipped as inconclusive: " + line[:300])
    rc2, out2, dt2 = sh("%s < cases.tsv > model.out" % vlib.modelrun_path("Sync"), cwd=d, timeout=1200)
    if rc2 != 0:
        return None, out2
    # the receiver that is not syncer-only: the conflict model (coq/Sync/Conflict.v) on its own files; kind M of that
    # class has no model line (direct oracle only)
    rc3, out3, dt3 = sh("grep -P '^[^\\t]*\\tA\\t' cases_m0.tsv > cases_m0A.tsv; %s < cases_m0A.tsv > model_m0.out"
                        % vlib.modelrun_path("Sync"), cwd=d, timeout=1200)
    return d, ""


def run(ctx):
    quick = ctx.tier == "quick"
    ok, out, _ = vlib.go_build("sync")
    if not ok:
        log("BUILD FAILED (harness sync):\n" + out[-3000:])
        raise SystemExit(2)
    vlib.regen_consts("Sync", "sync")
    proofs_ok, info = ctx.check_proofs(make_targets=["Sync/Proofs.vo", "Sync/ProofsSender.vo", "Sync/ProofsConflict.vo", "Properties/C19.vo"],
                                       gate_paths=["Sync", "Properties/C19"])
    mok, mout, _ = vlib.model_build("Sync")
    if not mok:
        log("MODEL BUILD FAILED:\n" + mout[-3000:])
        raise SystemExit(2)

    runs = []
    if ctx.replay:
        rp = json.load(open(ctx.replay))
        rf = os.path.join(ctx.run_dir, "replay_cases.tsv")
        with open(rf, "w") as f:
            for line in (rp.get("case") or {}).get("cases_tsv", []) or rp.get("cases_tsv", []):
                f.write(line + "\n")
        runs.append(dict(sub="replay", replay=rf))
    else:
        corpus = sorted(glob.glob(os.path.join(vlib.VERIF, "corpus", "C19", "*.tsv")))
        if corpus:
            cf = os.path.join(ctx.run_dir, "corpus_cases.tsv")
            with open(cf, "w") as f:
                for p in corpus:
                    for line in open(p):
                        if line.strip() and not line.startswith("#"):
                            f.write(line if line.endswith("\n") else line + "\n")
            runs.append(dict(sub="corpus", replay=cf))
        if quick:
            runs.append(dict(sub="fresh", n=220, nm=21, nm0=30, nb=6, ne=3, nes=1, nel=3, engines="mem"))
        else:
            runs.append(dict(sub="fresh", n=3200, nm=240, nm0=330, nb=90, ne=40, nes=6, nel=6, engines="mem,pebble,rocksdb"))
            runs.append(dict(sub="fresh-pebble-live", n=0, nb=30, ne=15, engines="pebble"))

    all_mism, all_fail, total, evals, hist_all, samples, distinct = [], [], 0, 0, {}, [], set()
    m0_fail = []
    for r in runs:
        d, err = run_impl(ctx, ctx.seed, r.get("n", 0), r["sub"], replay_file=r.get("replay"),
                          engines=r.get("engines", "mem"), nb=r.get("nb", 0), ne=r.get("ne", 0), nm=r.get("nm", 0), nes=r.get("nes", 0), nm0=r.get("nm0", 0), nel=r.get("nel", 0))
        if d is None and err.startswith("INCONCLUSIVE") and r.get("nb", 0) > 0 and not r.get("replay"):
            ctx.notes.append("live server inconclusive twice (start/ports); live cases of run %s skipped" % r["sub"])
            if r.get("n", 0) == 0:
                continue
            d, err = run_impl(ctx, ctx.seed, r.get("n", 0), r["sub"], engines=r.get("engines", "mem"), nb=0)
        if d is None:
            log("HARNESS RUN FAILED:\n" + err[-3000:])
            raise SystemExit(2)
        mism, cnt = vlib.diff_outputs(os.path.join(d, "impl.out"), os.path.join(d, "model.out"))
        cases = parse_cases(os.path.join(d, "cases.tsv"))
        impl, _ = vlib.read_out(os.path.join(d, "impl.out"))
        fails, hist, nt = oracle(cases, impl)
        all_mism += [(m[0], m[1], m[2]) for m in mism]
        all_fail += fails
        total += cnt
        distinct |= nt
        for k, v in hist.items():
            hist_all[k] = hist_all.get(k, 0) + v
        ids = list(cases.keys())
        for cid in ids[:2]:
            samples.append(dict(case=cases[cid], impl=(impl.get(cid) or "")[-600:]))
        m0c = os.path.join(d, "cases_m0.tsv")
        if os.path.exists(m0c) and os.path.getsize(m0c) > 0:
            c0 = parse_cases(m0c)
            i0, _ = vlib.read_out(os.path.join(d, "impl_m0.out"))
            m0_fail += oracle_m0(c0, i0)
            # correspondence of the conflict model with the real code (kind A lines)
            ia = os.path.join(d, "impl_m0A.out")
            with open(ia, "w") as f:
                for cid0, c00 in c0.items():
                    if c00[0] == "A" and cid0 in i0:
                        f.write("%s\t%s\n" % (cid0, i0[cid0]))
            mism0, cnt0 = vlib.diff_outputs(ia, os.path.join(d, "model_m0.out"))
            all_mism += [(m[0], m[1], m[2]) for m in mism0]
            total += cnt0
            hist_all["class_m0"] = hist_all.get("class_m0", 0) + len(c0)
    evals = hist_all.get("ops", 0)

    def search():
        d2, err = run_impl(ctx, ctx.seed + 1000003, 6000, "search", engines="mem,pebble", nb=40)
        if d2 is None:
            d2, err = run_impl(ctx, ctx.seed + 1000003, 6000, "search", engines="mem,pebble")
        if d2 is None:
            return []
        cases = parse_cases(os.path.join(d2, "cases.tsv"))
        impl, _ = vlib.read_out(os.path.join(d2, "impl.out"))
        fails, _, _ = oracle(cases, impl)
        return fails

    # shrink the first failing bare-node cases (the shrunk schedule is what the replay file carries)
    if not ctx.replay:
        for f in all_fail[:5]:
            try:
                line = f["case"]["cases_tsv"][0].split("\t")
                small = shrink_case(ctx, line[0], line[1:], first_failure=(f["case"].get("failures") or [None])[0])
                if small != line[1:]:
                    f["case"]["original_cases_tsv"] = f["case"]["cases_tsv"]
                    f["case"]["cases_tsv"] = ["\t".join([line[0]] + small)]
            except Exception as ex:      # shrinking is a convenience, never a verdict
                ctx.notes.append("shrinking failed: %r" % (ex,))
    vlib.standard_verdict(ctx, proofs_ok, all_mism, all_fail, search_fn=search,
                          corr_name="Sync/Model.v vs node.ProposeRawAsyncFromSyncer / KVNode.applyEntries+applyEntry / "
                                    "isAlreadyApplied / postprocessRemoteApply / GetSnapshot / RestoreFromSnapshot")
    # class m0 is reported on its own so that its (known) finding never hides a broken proof or correspondence
    for f in m0_fail[:5]:
        ctx.report_violation(f["name"], dict(case=f["case"], kind="failing-input"), signature=f["signature"], what=f["what"])
    ctx.finish(dict(
        traces_validated_against_impl=total,
        evaluations=evals,
        distinct_nontrivial=len(distinct),
        rule="one case = one delivery schedule against a real un-started KVNode (hook node/sync_verif.go): 1-3 source clusters "
             "with well-formed logs (2-10 entries, index gaps, term bumps), deliveries = in-order batches, duplicates, stale "
             "re-sends, batches overlapping the synced position, timestamp-mismatch and rejected proposals, lost in-flight "
             "proposals, local writes, snapshots and restarts (restore + replay of the log tail in batches of 1-4); class ord = "
             "first occurrences follow the source order (oracle: replica data = source data), class any = arbitrary losses/"
             "re-ordering/gaps (oracle: at most once, in order). Non-trivial = at least one duplicate delivery and at least one "
             "snapshot or restart; distinct by hash of the schedule. evaluations = schedule steps executed on the real code. "
             "kind B = the same against the real grpc handlers server.ApplyRaftReqs/GetSyncedRaft of a live single-replica server "
             "in a child process (real raft, WAL, snapshots every 5 entries), restart = SIGKILL + new process on the same directory. "
             "class e2e = the REAL sender (logSyncerSM + RemoteLogSender over gRPC) ships the source log to that server through a "
             "recording proxy that loses requests/responses, crashes the receiver and restarts the sender; the recorded calls are "
             "the case (oracle additionally: the sender's deliveries follow the source order). class e2esnap = the same with one "
             "snapshot hand-over by the real logSyncerSM.PrepareSnapshot (backup lookup answered by a stand-in, NotifyTransferSnap / "
             "status polling / NotifyApplySnap through the proxy, which also plays the file transfer or lets it fail once). "
             "kind M = three bare replicas fed the same committed entries, replica 2 restarted. Learner scenarios (leg E, two real "
             "logSyncerSM instances): a stand-by learner (ignore mode) takes over from a forwarding learner that died with a backlog "
             "while the receiver was stalled; a learner snapshot (GetSnapshot) requested with a backlog, then the learner restarts "
             "from its last successful snapshot.",
        histogram=hist_all,
        mismatches=len(all_mism),
        samples=samples[:4],
    ), assumptions=[
        "the receiving cluster runs in syncer-only mode (node.SetSyncerOnly(true)): no conflict check against local writes",
        "the local raft group is played by the harness for the bare-node cases (commit order = proposal order, a lost proposal never commits); "
        "the live-server cases use a real single-replica raft group",
        "source logs are well-formed: indices strictly increasing and >= 1, terms non-decreasing (hypothesis of the exactly-once theorems)",
    ])
