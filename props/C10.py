"""C10 — expired data is dead; unexpired data is never removed."""
import json
import os
import shutil

import vlib
from vlib import sh, log

LAZY = 172800
SIG_VERSION = "wait_compact renewOnExpired version=ts collision (clear + re-create at equal ts)"
SIG_HCLEAR = "rockredis.HClear length from the wall clock (HLen) but deletion decision from the log timestamp"
SIG_DEL = "rockredis.DelKeys counts a physically present expired key (no timestamp, no expiry decision)"


def unh(s):
    return b"" if s in ("-", "") else bytes.fromhex(s)


def hx(b):
    return b.hex() if b else "-"


# ---------------------------------------------------------------- parsing the implementation's dumps

def parse_rel(s, base):
    """'0' -> 0 ; 'e123' / 'v-5' -> base + n"""
    if s == "0":
        return 0
    return base + int(s[1:])


class Phys:
    """the physical state printed by an X line of the IMPLEMENTATION"""

    def __init__(self, line, now0):
        self.kv, self.meta, self.el, self.tidx, self.bad = {}, {}, {}, set(), []
        for it in (line.split(";") if line else []):
            p = it.split("/")
            if p[0] == "K":
                self.kv[p[1]] = (parse_rel(p[2], now0), parse_rel(p[3], now0 * 10**9), p[4])
            elif p[0] == "M":
                self.meta[(p[1], p[2])] = (parse_rel(p[3], now0), parse_rel(p[4], now0 * 10**9), int(p[5]), int(p[6]))
            elif p[0] == "E":
                self.el.setdefault((p[1], p[2], parse_rel(p[3], now0 * 10**9)), {})[p[4]] = p[5]
            elif p[0] == "T":
                self.tidx.add((now0 + int(p[1]), p[2], p[3]))
            else:
                self.bad.append(it)

    def header(self, t, k):
        """(stored, exp, ver)"""
        if t == "k":
            if k in self.kv:
                return True, self.kv[k][0], self.kv[k][1]
            return False, 0, 0
        if (t, k) in self.meta:
            m = self.meta[(t, k)]
            return True, m[0], m[1]
        return False, 0, 0

    def content(self, t, k):
        """the items a reader of a live key must see, in the order of the read API"""
        if t == "k":
            return [self.kv[k][2]] if k in self.kv else []
        if (t, k) not in self.meta:
            return []
        exp, ver, a, b = self.meta[(t, k)]
        els = self.el.get((t, k, ver), {})
        if t == "h":
            return ["%s:%s" % (f[1:], v[1:]) for f, v in sorted(els.items(), key=lambda x: unh(x[0][1:]))]
        if t == "s":
            return [m[1:] for m in sorted(els, key=lambda x: unh(x[1:]))][:max(a, 0)]
        if t == "z":
            # ZRANGE iterates the score index (sub keys s<score>:<member>)
            idx = [(int(sb[1:].split(":")[0]), sb[1:].split(":")[1]) for sb in els if sb[0] == "s"]
            idx.sort(key=lambda x: (x[0], unh(x[1])))
            return ["%s:%d" % (m, sc) for sc, m in idx][:max(a, 0)]
        if t == "l":
            l = sorted(((int(s[1:]), v) for s, v in els.items()))
            return [v[1:] for s, v in l if a <= s <= b]
        return []

    def length(self, t, k):
        if t == "k":
            return len(unh(self.kv[k][2])) if k in self.kv else 0
        if (t, k) not in self.meta:
            return 0
        m = self.meta[(t, k)]
        return m[3] - m[2] + 1 if t == "l" else m[2]


def expired(policy, exp, t_ns):
    return policy == "compact" and exp != 0 and t_ns != 0 and exp <= t_ns // 10**9


def obs_expected(ph, policy, now0, now_ns, t, k):
    stored, exp, ver = ph.header(t, k)
    if not stored or expired(policy, exp, now_ns):
        return "ex=0 ttl=-1 len=0 items="
    ttl = "-1"
    if policy == "compact" and exp != 0:
        ttl = str(exp - now0)
    return "ex=1 ttl=%s len=%d items=%s" % (ttl, ph.length(t, k), ",".join(ph.content(t, k)))


def multi_expected(ph, policy, now_ns, keys, mems):
    """EXISTS k1 k2 .. / MGET / HMGET / SISMEMBER / ZSCORE: an expired key contributes exactly like an absent one"""
    def live(t, k):
        stored, exp, ver = ph.header(t, k)
        return stored and not expired(policy, exp, now_ns)

    def elems(t, k):
        return ph.el.get((t, k, ph.meta[(t, k)][1]), {}) if live(t, k) else {}
    ex = sum(1 for k in keys if live("k", k))
    mg = ",".join(ph.kv[k][2] if live("k", k) else "~" for k in keys)
    hm = "|".join(",".join(elems("h", k).get("b" + m, "b~")[1:] for m in mems) for k in keys)
    si = "|".join(",".join("1" if "b" + m in elems("s", k) else "0" for m in mems) for k in keys)
    zs = "|".join(",".join(elems("z", k).get("b" + m, "i~")[1:] for m in mems) for k in keys)
    return "exists=%d mget=%s hmget=%s sismember=%s zscore=%s" % (ex, mg, hm, si, zs)


# ---------------------------------------------------------------- what a command does to an ABSENT key

def dec(b):
    return int(b.decode())


def last_wins(pairs):
    d = {}
    for a, b in pairs:
        d[a] = b
    return d


def set_opts(opts):
    """getExNxXXArgs: dict(ex, nx, xx) or None for an argument error"""
    r = dict(ex=0, nx=False, xx=False)
    i = 0
    while i < len(opts):
        o = opts[i].decode("latin1").lower()
        if o in ("nx", "xx"):
            if r["nx"] or r["xx"]:
                return None
            r[o] = True
        elif o == "ex":
            if i + 1 >= len(opts):
                return None
            try:
                d = int(opts[i + 1].decode())
            except ValueError:
                return None
            if d <= 0:
                return None
            r["ex"] = d
            i += 1
        else:
            return None
        i += 1
    return r


def on_absent(name, a):
    """(reply, content after or None when nothing is written) for a command applied to a key that does not exist.
    content: for KV a hex value, for collections a list in read order."""
    k = a[0] if a else None
    if name == "set" and len(a) > 2:
        o = set_opts(a[2:])
        if o is None:
            return "-err", None
        return (":0", None) if o["xx"] else (":1", [hx(a[1])])
    if name == "setifeq":
        return (":1", [hx(a[2])]) if a[1] == b"" else (":0", None)
    if name == "delifeq":
        return ":0", None
    if name == "ltrim":
        return "_", None
    if name == "lset":
        return "-err", None
    if name == "zremrangebyrank":
        return ":0", None
    if name == "set":
        return ":1", [hx(a[1])]
    if name == "setex":
        return "_", [hx(a[2])]
    if name == "setnx":
        return ":1", [hx(a[1])]
    if name == "getset":
        return "_", [hx(a[1])]
    if name == "incr":
        return ":1", [hx(b"1")]
    if name == "incrby":
        return ":%d" % dec(a[1]), [hx(str(dec(a[1])).encode())]
    if name == "append":
        return ":%d" % len(a[1]), [hx(a[1])]      # APPEND k "" on an absent key creates the empty string
    if name == "setrange":
        if not a[2]:
            return ":0", None
        v = b"\0" * dec(a[1]) + a[2]
        return ":%d" % len(v), [hx(v)]
    if name in ("expire", "hexpire", "sexpire", "zexpire", "lexpire", "persist", "hpersist", "spersist", "zpersist", "lpersist",
                "hclear", "sclear", "zclear", "lclear", "hdel", "srem", "zrem", "zremrangebyscore"):
        return ":0", None
    if name in ("lpop", "rpop"):
        return "_", None
    if name in ("hset", "hsetnx"):
        return ":1", ["%s:%s" % (hx(a[1]), hx(a[2]))]
    if name == "hmset":
        d = last_wins(zip(a[1::2], a[2::2]))
        return "_", ["%s:%s" % (hx(f), hx(d[f])) for f in sorted(d)]
    if name == "hincrby":
        return ":%d" % dec(a[2]), ["%s:%s" % (hx(a[1]), hx(str(dec(a[2])).encode()))]
    if name == "sadd":
        ms = sorted(set(a[1:]))
        return ":%d" % len(ms), [hx(m) for m in ms]
    if name == "spop":
        return ("-err" if dec(a[1]) <= 0 else "*0"), None
    if name == "zadd":
        d = last_wins((m, dec(s)) for s, m in zip(a[1::2], a[2::2]))
        return ":%d" % len(d), ["%s:%d" % (hx(m), sc) for m, sc in sorted(d.items(), key=lambda x: (x[1], x[0]))]
    if name == "zincrby":
        return ":%d" % dec(a[1]), ["%s:%d" % (hx(a[2]), dec(a[1]))]
    if name == "lpush":
        return ":%d" % len(a[1:]), [hx(v) for v in reversed(a[1:])]
    if name == "rpush":
        return ":%d" % len(a[1:]), [hx(v) for v in a[1:]]
    return None, None


OVERWRITE = ("set", "getset", "mset")
MODIFY = ("incr", "incrby", "append", "setrange", "hset", "hsetnx", "hmset", "hdel", "hincrby", "sadd", "srem", "spop",
          "zadd", "zincrby", "zrem", "zremrangebyscore", "lpush", "rpush", "lpop", "rpop", "ltrim", "lset", "zremrangebyrank")
TYPE_OF = dict(setifeq="k", delifeq="k", ltrim="l", lset="l", zremrangebyrank="z", set="k", setex="k", setnx="k", getset="k", mset="k", incr="k", incrby="k", append="k", setrange="k",
               expire="k", persist="k", hexpire="h", hpersist="h", hclear="h", hset="h", hsetnx="h", hmset="h",
               hdel="h", hincrby="h", sexpire="s", spersist="s", sclear="s", sadd="s", srem="s", spop="s",
               zexpire="z", zpersist="z", zclear="z", zadd="z", zincrby="z", zrem="z", zremrangebyscore="z",
               lexpire="l", lpersist="l", lclear="l", lpush="l", rpush="l", lpop="l", rpop="l")
TYPES = ("k", "h", "s", "z", "l")


# ---------------------------------------------------------------- the direct oracle

def oracle(cases, impl, order):
    """The property evaluated on the implementation's outputs only (no model involved)."""
    fails, hist = [], {}
    seqs = {}
    for cid in order:
        seqs.setdefault(cid.split(".")[0], []).append(cid)

    def bump(k, n=1):
        hist[k] = hist.get(k, 0) + n

    for sq, ids in seqs.items():
        policy, now0 = None, 0
        ph = None            # latest physical state of the implementation
        before_bg = None     # observations taken before a background step
        pending = None       # the write whose X has not been seen yet
        cleared = {}         # (type, key) -> (ts, generation) of a CLEAR that was the latest write on the key
        bg = None
        obs_run = {}

        def fail(kind, cid, what, sig=None, **kw):
            fails.append(dict(name="%s-%s" % (kind, cid), what=what, signature=sig,
                              case=dict(seq=sq, step=cid, **kw)))

        for cid in ids:
            c = cases[cid]
            out = impl.get(cid)
            kind = c[0]
            if out is None:
                fail("missing", cid, "no implementation output")
                continue
            if out == "panic" or out.startswith("panic"):
                fail("panic", cid, "the implementation panicked")
                continue
            if kind == "NEW":
                policy, now0 = c[1], int(c[2])
                ph = Phys("", now0)
                cleared = {}
                bump("seq " + policy)
                continue
            now_ns = (now0 + 300) * 10**9
            if kind == "W":
                ts, name, args = int(c[1]), c[3], [unh(x) for x in c[4:]]
                bump("W " + name)
                if ts == 0:
                    bump("W ts=0 (escape: outside the property's hypothesis)")
                pending = dict(cid=cid, ts=ts, name=name, args=args, reply=out, before=ph, hexargs=c[4:], cleared=dict(cleared),
                               multi=pending is not None)     # multi: several writes since the last physical dump
                if name in TYPE_OF and TYPE_OF[name] != "k" and args:
                    tk = (TYPE_OF[name], hx(args[0]))
                    cleared.pop(tk, None)
                    if name.endswith("clear") and ph.header(*tk)[0]:
                        cleared[tk] = (ts, ph.header(*tk)[2])
            elif kind == "X":
                nph = Phys(out, now0)
                if nph.bad:
                    fail("dump", cid, "undecodable engine content: " + ",".join(nph.bad[:3]))
                if pending is not None:
                    check_write(pending, nph, policy, now0, fail, bump)
                    pending = None
                if bg is not None:
                    check_bg_phys(bg, ph, nph, policy, now0, fail, bump)
                ph = nph
            elif kind == "O":
                t, k = c[2], c[3]
                want = obs_expected(ph, policy, now0, now_ns, t, k)
                bump("O")
                if "ttl=-1" not in out:
                    bump("O ttl reported")
                if out != want:
                    stored, exp, ver = ph.header(t, k)
                    sig = None
                    if policy == "compact" and stored and t != "k" and ver != 0 and stale_same_version(ph, t, k):
                        sig = SIG_VERSION
                    fail("read", cid, "a read does not show exactly the stored live content "
                         "(expired must be absent, unexpired fully visible with its remaining TTL): got [%s] want [%s]" % (out, want),
                         sig, type=t, key=k)
                obs_run[(t, k)] = out
                if bg is not None and bg.get("after") is not None:
                    bg["after"][(t, k)] = out
                    if len(bg["after"]) == len(bg["before"]):
                        check_bg_obs(bg, fail, bump)
                        bg = None
            elif kind == "Q":
                keys, mems = c[2].split(","), c[3].split(",")
                want = multi_expected(ph, policy, now_ns, keys, mems)
                bump("Q")
                if want.split(" ")[0] != "exists=%d" % sum(1 for k in keys if k in ph.kv):
                    bump("Q exists over a stored but expired string")
                if out != want:
                    sig = None
                    for part, t in ((2, "h"), (3, "s"), (4, "z")):
                        if out.split(" ")[part] != want.split(" ")[part]:
                            for k in keys:
                                stored, exp, ver = ph.header(t, k)
                                if policy == "compact" and stored and ver != 0 and stale_same_version(ph, t, k):
                                    sig = SIG_VERSION
                    if out.split(" ")[:2] != want.split(" ")[:2]:
                        sig = None
                    fail("multiread", cid, "a multi-key / multi-member read (EXISTS k1 k2 .., MGET, HMGET, SISMEMBER, ZSCORE): an expired "
                         "key must contribute exactly like an absent one: got [%s] want [%s]" % (out, want), sig, keys=c[2])
            elif kind in ("C", "L", "K"):
                bump(kind)
                bg = dict(cid=cid, kind=kind, case=c, out=out, before=dict(obs_run), after=None, ph=ph)
                if kind == "K":
                    # a real engine compaction: judge what disappeared
                    bg["out"] = c[2] if len(c) > 2 else ""
                    if bg["out"]:
                        bump("K dropped something")
                if kind in ("C", "K"):
                    check_filter(bg, ph, now0, fail, bump)
                bg["after"] = {}
                bg["before"] = {kk: vv for kk, vv in obs_run.items()}
            elif kind == "F":
                # the compaction filter on synthetic headers: it may allow dropping a KV value / a collection meta only
                # when it has been expired for LONGER than the lazy threshold (an unexpired key is never removed)
                csec, deltas = int(c[1]), [int(x) for x in c[2].split(",")]
                want = "".join(("11" if (d + LAZY < 0 and csec + d > 1500000000) else "00") for d in deltas)
                bump("F probes", len(deltas))
                if out != want:
                    fail("filter", cid, "compaction filter decisions around the lazy threshold (ExpireAt - clock = %s): got %s want %s"
                         % (c[2], out, want), deltas=c[2])
            elif kind == "A":
                tn, t, k = int(c[1]), c[2], c[3]
                stored, exp, ver = ph.header(t, k)
                ex = expired(policy, exp, tn) and stored
                ttl = "-1"
                if policy == "compact" and stored and exp != 0 and exp - tn // 10**9 > 0:
                    ttl = str(exp - now0)
                want = "st=%d ex=%d ttl=%s" % (1 if stored else 0, 1 if ex else 0, ttl)
                bump("A " + ("expired" if ex else "live" if stored else "absent"))
                if out != want:
                    fail("clock", cid, "expiry decision / TTL of the read path at a chosen read clock: got [%s] want [%s]" % (out, want),
                         type=t, key=k, tn=tn)
    return fails, hist


def stale_same_version(ph, t, k):
    """the current generation number is also the number of elements that the meta does not account for"""
    exp, ver, a, b = ph.meta[(t, k)]
    els = ph.el.get((t, k, ver), {})
    n = b - a + 1 if t == "l" else a
    if t == "z":
        return len([x for x in els if x[0] == "b"]) != n or len([x for x in els if x[0] == "s"]) != n
    return len(els) != n


def check_write(w, after, policy, now0, fail, bump):
    name, args, ts, before, reply = w["name"], w["args"], w["ts"], w["before"], w["reply"]
    cid = w["cid"]
    if name in ("mset", "del"):
        keys = [hx(k) for k in (args[0::2] if name == "mset" else args)]
        t = "k"
    else:
        keys = [hx(args[0])]
        t = TYPE_OF[name]
    if policy != "compact":
        # local deletion: the time index is what the deleter acts on.  An index entry appears only for the key and the second
        # that THIS command asked for, and only when the command was accepted (C10_local_index_provenance)
        req = None
        try:
            if name == "setex" or (name.endswith("expire") and name in TYPE_OF):
                req = dec(args[1])
            elif name == "set" and len(args) > 2:
                o = set_opts(args[2:])
                req = o["ex"] if o and o["ex"] else None
            elif name == "setifeq" and len(args) > 4:
                req = dec(args[4])
        except ValueError:
            req = None
        for (wh, tt, kk) in sorted(after.tidx - before.tidx if not w.get("multi") else ()):
            ok = req is not None and reply not in (":0", "-err") and (tt, kk) == (t, keys[0])
            if ok and abs(req) < 10**9:
                want = ts // 10**9 + req
                ok = wh == (want if want > 0 else 1)
            bump("local index entry written")
            if not ok:
                fail("early", cid, "an expiry index entry (second %d, %s %s) appeared that this command did not ask for or that belongs to a "
                     "refused / failed command (reply %s): the background deletion will remove a key at a time it was never given"
                     % (wh - now0, tt, kk, reply), None, cmd=name, args=w["hexargs"])
        return
    if ts <= 0:
        return   # the ts = 0 escape: hypothesis ts > 0 of the property
    if name == "del":
        n_live = 0
        for k in set(keys):
            stored, exp, ver = before.header("k", k)
            if stored and not expired(policy, exp, ts):
                n_live += 1
        if reply != ":%d" % n_live:
            fail("dead", cid, "DEL must count exactly the keys that are live at its timestamp: reply %s, live keys %d" % (reply, n_live), None, cmd=name, args=w["hexargs"])
        return
    for k in dict.fromkeys(keys):
        stored, exp, ver = before.header(t, k)
        dead = stored and expired(policy, exp, ts)
        st2, exp2, ver2 = after.header(t, k)
        if dead:
            bump("write meets an expired key")
            bump("write meets an expired key: " + name)
            # (1) a write on an expired key behaves as on an absent key
            if name == "mset":
                i = max(j for j in range(0, len(args), 2) if hx(args[j]) == k)
                wr, wc = "_", [hx(args[i + 1])]
            else:
                wr, wc = on_absent(name, args)
            sig = None
            if name == "hclear" and reply == ":1" and not expired(policy, exp, (now0 + 300) * 10**9):
                sig = SIG_HCLEAR
            if t != "k" and ts != 0 and (t, k, ts) in before.el:
                sig = SIG_VERSION      # the renewed generation number (= ts) is that of elements stored before
            if wr is not None and reply != wr and not (name in ("setex", "set", "setifeq") and reply == "-err") and not (name.endswith("expire") and reply == "-err"):
                fail("dead", cid, "a write on an expired key must reply as on an absent key: got %s want %s" % (reply, wr), sig,
                     cmd=name, args=w["hexargs"], ts=ts - now0 * 10**9, expire_at=exp - now0)
            if reply == "-err":
                continue
            if wc is not None:
                got = after.content(t, k) if st2 else []
                if got != wc:
                    # the open finding is specifically: the new generation number (= ts) is that of elements stored before
                    sg = SIG_VERSION if (t != "k" and ts != 0 and (t, k, ts) in before.el) else None
                    fail("dead", cid, "a write on an expired key must start from empty "
                         "(no content of the expired predecessor): content after %s want %s" % (got, wc), sg,
                         cmd=name, args=w["hexargs"], ts=ts - now0 * 10**9, expire_at=exp - now0)
                # the rewritten key carries no expiry of its predecessor (SETEX sets its own)
                if name not in ("setex", "set", "setifeq") and st2 and exp2 != 0:
                    # HINCRBY / HSET .. of a field that is (physically) stored under the renewed generation number: "not a new
                    # field", the meta with the renewed header is not rewritten - the open generation-collision finding
                    sg = SIG_VERSION if (t != "k" and ts != 0 and (t, k, ts) in before.el) else None
                    fail("ttl", cid, "a key re-created over an expired one inherited an expiry", sg, cmd=name, args=w["hexargs"])
            else:
                # nothing written: the stored (dead) entry is untouched
                if (st2, exp2, ver2) != (stored, exp, ver) and not (name == "delifeq" and not st2):
                    fail("dead", cid, "a no-op on an expired key changed its stored header", cmd=name, args=w["hexargs"])
            continue
        # ---- the key is live (or absent) at ts
        if not stored:
            # (2) a re-created collection shows no member of an earlier (cleared / expired) generation
            wr, wc = on_absent(name, args) if name != "mset" else ("_", None)
            if wc is not None and t != "k" and st2 and reply != "-err":
                got = after.content(t, k)
                if got != wc:
                    sg = SIG_VERSION if (ts != 0 and (t, k, ts) in before.el) else None
                    if w.get("cleared", {}).get((t, k)) == (ts, ts):
                        # the previous write on this key was a CLEAR with this very timestamp of the generation numbered by this
                        # timestamp: that CLEAR deletes the elements physically (1dcd66e) - not the open finding
                        sg = None
                    fail("resurrect", cid, "a re-created collection shows members it was not given: %s want %s" % (got, wc), sg,
                         cmd=name, args=w["hexargs"], ts=ts - now0 * 10**9)
            continue
        bump("write meets a live key with an expiry" if exp else "write meets a live key")
        if reply == "-err":
            if (st2, exp2) != (stored, exp):
                fail("ttl", cid, "a failed command changed the stored expiry", cmd=name, args=w["hexargs"])
            continue
        when = ts // 10**9
        if (name == "set" and len(args) > 2) or name == "setifeq":
            # SET with options / SETIFEQ on a live key: a refused write changes nothing, an accepted one stores a fresh
            # header with the expiry it asks for (none without EX)
            if name == "set":
                o = set_opts(args[2:])
                d = o["ex"] if o else 0
                accepted = o is not None and not o["nx"]
                want_reply = "-err" if o is None else (":0" if o["nx"] else ":1")
            else:
                d = dec(args[4]) if len(args) > 3 else 0
                accepted = before.content(t, k) == [hx(args[1])]
                want_reply = ":1" if accepted else ":0"
            if reply != want_reply:
                fail("ttl", cid, "%s on a live key: reply %s want %s" % (name, reply, want_reply), cmd=name, args=w["hexargs"])
            elif not accepted:
                if (st2, exp2, ver2) != (stored, exp, ver):
                    fail("ttl", cid, "a refused conditional write changed the stored header", cmd=name, args=w["hexargs"])
            elif d == 0 and exp2 != 0:
                fail("ttl", cid, "overwriting the whole value must clear the expiry: ExpireAt %d kept" % exp2, cmd=name, args=w["hexargs"])
            elif d and 0 < when + d < 2**32 - 2 and exp2 != when + d:
                fail("ttl", cid, "SET EX stored ExpireAt %d, want %d" % (exp2, when + d), cmd=name, args=w["hexargs"])
        elif name == "delifeq":
            same = before.content(t, k) == [hx(args[1])]
            if reply != (":1" if same else ":0") or st2 != (not same):
                fail("ttl", cid, "DELIFEQ on a live key: reply %s, value equal %s, stored after %s" % (reply, same, st2), cmd=name, args=w["hexargs"])
        elif name in OVERWRITE or (name == "setnx" and reply == ":1"):
            if st2 and exp2 != 0:
                fail("ttl", cid, "overwriting the whole value must clear the expiry: ExpireAt %d kept" % exp2, cmd=name, args=w["hexargs"])
        elif name == "setex":
            d = dec(args[1])
            want = when + d if when + d > 0 else 1     # expireWhen: a second not after the epoch is second 1
            if want < 2**32 - 2 and exp2 != want:
                fail("ttl", cid, "SETEX stored ExpireAt %d, want %d" % (exp2, want), cmd=name, args=w["hexargs"])
        elif name.endswith("expire") and reply == ":1":
            d = dec(args[1])
            want = when + d if when + d > 0 else 1
            if want < 2**32 - 2 and exp2 != want:
                fail("ttl", cid, "EXPIRE stored ExpireAt %d, want %d" % (exp2, want), cmd=name, args=w["hexargs"])
            bump("expire set")
        elif name.endswith("persist") and reply == ":1":
            if exp2 != 0:
                fail("ttl", cid, "PERSIST must clear the expiry", cmd=name, args=w["hexargs"])
            bump("persist cleared")
        elif name in MODIFY or name == "setnx":
            if st2 and exp2 != exp:
                fail("ttl", cid, "a modifying command must keep the expiry: ExpireAt %d -> %d" % (exp, exp2), cmd=name, args=w["hexargs"])
            if st2 and ver2 != ver:
                fail("ttl", cid, "a modifying command on a live key changed its generation", cmd=name, args=w["hexargs"])
            if exp:
                bump("modify keeps expiry")


def check_filter(bg, ph, now0, fail, bump):
    """what the production compaction filter allows to drop: only metas / KV values expired for longer than the lazy
    threshold, and element keys of stale generations (or of such long-expired collections)"""
    csec = int(bg["case"][1])
    for it in (bg["out"].split(";") if bg["out"] else []):
        p = it.split("/")
        bump("filter allows " + p[0])
        ok = False
        if p[0] == "K":
            exp = ph.kv.get(p[1], (0, 0, ""))[0]
            ok = exp != 0 and exp + LAZY < csec
        elif p[0] == "M":
            exp = ph.meta.get((p[1], p[2]), (0, 0, 0, 0))[0]
            ok = exp != 0 and exp + LAZY < csec
        elif p[0] == "E":
            ver = parse_rel(p[3], now0 * 10**9)
            m = ph.meta.get((p[1], p[2]))
            ok = m is None or m[1] != ver or (m[0] != 0 and m[0] + LAZY < csec)
        if not ok:
            fail("filter", bg["cid"], "the compaction filter allows dropping live data: " + it, item=it)


def check_bg_phys(bg, before, after, policy, now0, fail, bump):
    if bg["kind"] == "L":
        scan = int(bg["case"][1])
        # every key removed physically had a recorded expiry <= the scan time
        gone = [("k", k) for k in before.kv if k not in after.kv] + [tk for tk in before.meta if tk not in after.meta]
        for t, k in gone:
            due = [w for (w, tt, kk) in before.tidx if tt == t and kk == k and w <= scan]
            bump("local deletion removed a key")
            if not due:
                fail("early", bg["cid"], "background deletion removed a key that has no recorded expiry at or before the scan time",
                     type=t, key=k)
        for (w, t, k) in before.tidx:
            if w > scan and (w, t, k) not in after.tidx:
                fail("early", bg["cid"], "background deletion consumed an index entry of the future", type=t, key=k)


def check_bg_obs(bg, fail, bump):
    for tk, o in bg["before"].items():
        o2 = bg["after"].get(tk)
        if o2 is None or o2 == o:
            continue
        if bg["kind"] in ("C", "K"):
            fail("visible", bg["cid"], "a compaction step changed what a reader sees: [%s] -> [%s]" % (o, o2), type=tk[0], key=tk[1])
        else:
            scan = int(bg["case"][1])
            due = [w for (w, tt, kk) in bg["ph"].tidx if tt == tk[0] and kk == tk[1] and w <= scan]
            if not due:
                fail("early", bg["cid"], "background deletion changed a key whose recorded expiry is not due: [%s] -> [%s]" % (o, o2),
                     type=tk[0], key=tk[1])
    bump("bg step with all keys observed before and after")


# ---------------------------------------------------------------- running

def parse_cases(path):
    cases, order = {}, []
    for line in open(path):
        p = line.rstrip("\n").split("\t")
        cases[p[0]] = p[1:]
        order.append(p[0])
    return cases, order


def run_impl(ctx, sub, args, model=True):
    d = os.path.join(ctx.run_dir, sub)
    shutil.rmtree(d, ignore_errors=True)
    os.makedirs(d)
    cmd = "%s %s -out %s" % (os.path.join(vlib.BIN, "ttlsim"), args, d)
    rc, out, dt = sh(cmd, cwd=d, timeout=1500)
    if rc != 0:
        return None, "ttlsim failed (rc %d): %s" % (rc, out[-2000:])
    if model:
        rc2, out2, dt2 = sh("%s < cases.tsv > model.out" % vlib.modelrun_path("Expire"), cwd=d, timeout=1500)
        if rc2 != 0:
            return None, "modelrun failed: " + out2[-2000:]
    return d, ""


def seq_lines(path, seqs):
    return [l.rstrip("\n") for l in open(path) if l.split("\t")[0].split(".")[0] in seqs]


def shrink(ctx, f, budget=120):
    """delta-debugging on the steps of the failing sequence, judged by the direct oracle on the implementation"""
    lines = f["case"].get("abstract_tsv") or []
    if len(lines) < 8:
        return f
    kind, sig = f["name"].split("-")[0], f.get("signature")

    def groups(ls):
        kinds = [l.split("\t")[1] for l in ls]
        starts = []
        for i, k in enumerate(kinds):
            if k in ("W", "A"):
                starts.append(i)
            elif k in ("C", "L", "K"):
                j = i
                while j > 0 and kinds[j - 1] == "O" and i - j < 10:
                    j -= 1
                starts.append(j)
        starts = sorted(set(starts))
        if not starts:
            return ls, []
        gs = [ls[a:b] for a, b in zip(starts, starts[1:] + [len(ls)])]
        return ls[:starts[0]], gs

    def fails(ls):
        p = os.path.join(ctx.run_dir, "shrink.tsv")
        with open(p, "w") as fh:
            fh.write("\n".join(ls) + "\n")
        d, err = run_impl(ctx, "shrink", "-replay %s" % p, model=False)
        if d is None:
            return None
        cases, order = parse_cases(os.path.join(d, "cases.tsv"))
        impl, _ = vlib.read_out(os.path.join(d, "impl.out"))
        fs, _ = oracle(cases, impl, order)
        for g in fs:
            if g["name"].split("-")[0] == kind and g.get("signature") == sig:
                return g
        return None

    head, gs = groups(lines)
    best, n = None, 0
    changed = True
    while changed and n < budget:
        changed = False
        i = len(gs) - 1
        while i >= 0 and n < budget:
            trial = gs[:i] + gs[i + 1:]
            n += 1
            g = fails(head + [l for grp in trial for l in grp])
            if g is not None:
                gs, best, changed = trial, g, True
            i -= 1
    if best is None:
        return f
    best["case"]["abstract_tsv"] = head + [l for grp in gs for l in grp]
    best["case"]["shrunk_from_lines"] = len(lines)
    return best


def run(ctx):
    quick = ctx.tier == "quick"
    ok, out, _ = vlib.go_build("ttlsim")
    if not ok:
        log("BUILD FAILED (harness ttlsim):\n" + out[-3000:])
        raise SystemExit(2)
    vlib.regen_consts("Expire", "ttlsim")
    targets = ["Expire/Model.vo", "Expire/Proofs.vo", "Expire/ProofsRel.vo", "Expire/ProofsCmd.vo", "Expire/ProofsTrace.vo",
               "Expire/ProofsMore.vo", "Expire/ProofsClass.vo", "Expire/ProofsLocal.vo", "Expire/ProofsMono.vo", "Properties/C10.vo"]
    proofs_ok, info = ctx.check_proofs(make_targets=targets, gate_paths=["Expire", "Common", "Properties/C10"])
    mok, mout, _ = vlib.model_build("Expire")
    if not mok:
        log("MODEL BUILD FAILED:\n" + mout[-3000:])
        raise SystemExit(2)

    runs = []
    corpus = sorted(f for f in os.listdir(os.path.join(vlib.VERIF, "corpus", "C10")) if f.endswith(".tsv")) \
        if os.path.isdir(os.path.join(vlib.VERIF, "corpus", "C10")) else []
    if ctx.replay:
        rp = json.load(open(ctx.replay))
        p = os.path.join(ctx.run_dir, "replay_abstract.tsv")
        with open(p, "w") as f:
            for line in rp.get("case", {}).get("abstract_tsv", []):
                f.write(line + "\n")
        runs.append(("replay", "-replay %s" % p))
    else:
        for cf in corpus:
            runs.append(("corpus-" + cf[:-4], "-replay %s" % os.path.join(vlib.VERIF, "corpus", "C10", cf)))
        if quick:
            runs.append(("fresh", "-seed %d -n 230 -len 30 -engines mem,pebble" % ctx.seed))
            runs.append(("rocks", "-seed %d -n 24 -len 30 -engines rocksdb" % (ctx.seed + 7)))
        else:
            runs.append(("fresh", "-seed %d -n 9000 -len 40 -engines mem,pebble" % ctx.seed))
            runs.append(("rocks", "-seed %d -n 1200 -len 40 -engines rocksdb" % (ctx.seed + 7)))

    all_mism, all_fail, total, hist_all, samples, distinct = [], [], 0, {}, [], set()
    for sub, args in runs:
        d, err = run_impl(ctx, sub, args)
        if d is None:
            log("HARNESS RUN FAILED:\n" + err[-3000:])
            raise SystemExit(2)
        mism, cnt = vlib.diff_outputs(os.path.join(d, "impl.out"), os.path.join(d, "model.out"))
        cases, order = parse_cases(os.path.join(d, "cases.tsv"))
        impl, _ = vlib.read_out(os.path.join(d, "impl.out"))
        fails, hist = oracle(cases, impl, order)
        absf = os.path.join(d, "abstract.tsv")
        for f in fails:
            f["case"]["abstract_tsv"] = seq_lines(absf, {f["case"]["seq"]})
            f["name"] = f["name"] + "-" + sub
        for m in mism[:50]:
            all_mism.append((sub + ":" + m[0], m[1], m[2]))
        if len(mism) > 50:
            all_mism.append((sub + ":...", "%d more" % (len(mism) - 50), ""))
        all_fail += fails
        total += cnt
        for k, v in hist.items():
            hist_all[k] = hist_all.get(k, 0) + v
        # non-trivial: a write that meets a key carrying an expiry (live or expired), a background step, a clock probe
        cur = None
        for cid in order:
            c = cases[cid]
            if c[0] in ("W", "C", "L", "A", "K", "F"):
                distinct.add(vlib.case_hash(sub + "\t".join(c[2:] if c[0] == "W" else c)))
        ids = [i for i in order if cases[i][0] == "W"]
        for cid in ids[:2] + ids[-1:]:
            samples.append(dict(case=cases[cid], impl=impl.get(cid)))

    # the hypothesis ts > 0 on the production propose path (live single-process server, redis protocol)
    live = None
    if not ctx.replay:
        for attempt in range(2):
            port = 27100 + ((os.getpid() + attempt * 7) % 300) * 3
            rc, out, _ = sh("%s -live %d" % (os.path.join(vlib.BIN, "ttlsim"), port), cwd=ctx.run_dir, timeout=120)
            lines = [l for l in out.split("\n") if l.startswith("LIVE\t")]
            live = lines[-1].split("\t", 1)[1] if lines else "inconclusive: no result (rc %d)" % rc
            if not live.startswith("inconclusive"):
                break
        hist_all["live-server timestamp check: " + live.split(":")[0].split(" ")[0]] = 1
        if live.startswith("inconclusive"):
            ctx.notes.append("live-server timestamp check inconclusive twice: " + live)
        elif not live.startswith("ok"):
            all_fail.append(dict(name="ts-positive", what="a write applied through the production propose path carried a timestamp "
                                 "that is zero / outside the wall-clock window of the run (the ts = 0 escape of isExpired): " + live,
                                 case=dict(seq="live", abstract_tsv=[], live=live)))

    # the conversion of an old-format bitmap (BitSetOld: one KV value) by the first new-format SETBIT (BitSetV2) keeps
    # every unexpired bit, under both expiration policies (real rockredis functions on a real store; fixed by bcbd73e)
    if not ctx.replay:
        rc, out, _ = sh("%s -bitmap" % os.path.join(vlib.BIN, "ttlsim"), cwd=ctx.run_dir, timeout=120)
        lines = [l for l in out.split("\n") if l.startswith("BITMAP\t")]
        res = lines[-1].split("\t", 1)[1] if lines else "inconclusive: no result (rc %d)" % rc
        parts = [x.strip() for x in res.split(";")]
        bad = [x for x in parts if not x.endswith(": ok") and "inconclusive" not in x]
        hist_all["bitmap conversion check: " + ("violated" if bad else "inconclusive" if any("inconclusive" in x for x in parts) else "ok")] = 1
        if bad:
            all_fail.append(dict(name="bitmap-convert", what="unexpired data removed: converting an old-format bitmap (BitSetOld at offsets "
                                 "0,7,8,9000,20000, then BitSetV2 offset 5) lost stored bits: " + "; ".join(bad),
                                 case=dict(seq="bitmap", cmd="setbitv2", abstract_tsv=[], result=res)))
        elif any("inconclusive" in x for x in parts):
            ctx.notes.append("bitmap conversion check inconclusive: " + res)

    def search():
        d2, err = run_impl(ctx, "search", "-seed %d -n 2500 -len 40 -engines mem,pebble" % (ctx.seed + 1000003), model=False)
        if d2 is None:
            return []
        cases, order = parse_cases(os.path.join(d2, "cases.tsv"))
        impl, _ = vlib.read_out(os.path.join(d2, "impl.out"))
        fails, _ = oracle(cases, impl, order)
        for f in fails:
            f["case"]["abstract_tsv"] = seq_lines(os.path.join(d2, "abstract.tsv"), {f["case"]["seq"]})
        return fails

    # one report per signature / kind, the shortest sequence first
    all_fail.sort(key=lambda f: len(f["case"].get("abstract_tsv", [])))
    seen, uniq = set(), []
    for f in all_fail:
        key = f.get("signature") or f["name"].split("-")[0] + ":" + str(f["case"].get("cmd"))
        if key in seen:
            continue
        seen.add(key)
        uniq.append(f)
    known = {k.get("signature") for k in vlib.load_known_findings() if k.get("status") == "open" and k.get("property") == "C10"}
    uniq = [f if (f.get("signature") in known or ctx.replay) else shrink(ctx, f) for f in uniq[:5]] + uniq[5:]
    # failures that are open known findings are announced here; they must not mask a broken correspondence or
    # proof (vlib.standard_verdict stops at the first non-empty list of oracle failures)
    for f in [f for f in uniq if f.get("signature") in known]:
        ctx.report_violation(f["name"], dict(case=f.get("case"), kind="failing-input"), signature=f["signature"], what=f.get("what", ""))
    uniq = [f for f in uniq if f.get("signature") not in known]
    corr = "Expire/Model.v vs rockredis (value header, generations, compaction filter, local deletion) through node.StateMachine"
    if uniq:
        vlib.standard_verdict(ctx, proofs_ok, all_mism, uniq, corr_name=corr)
    elif not proofs_ok or all_mism:
        # only a proof or the correspondence broke: search for a failing input with the direct oracle alone;
        # open known findings met on the way neither count as the failing input nor end the search
        found = [f for f in search() if f.get("signature") not in known]
        found.sort(key=lambda f: len(f["case"].get("abstract_tsv", [])))
        seen2, picked = set(), []
        for f in found:
            key = f["name"].split("-")[0] + ":" + str(f["case"].get("cmd"))
            if key not in seen2:
                seen2.add(key)
                picked.append(f)
        for f in picked[:5]:
            f = shrink(ctx, f)
            ctx.report_violation(f["name"], dict(case=f.get("case"), kind="failing-input (found by search after a broken proof/correspondence)"),
                                 signature=f.get("signature"), what=f.get("what", ""))
        if not picked:
            broken = {}
            if not proofs_ok:
                pr = ctx.proof or {}
                broken["broken_proof"] = dict(file=pr.get("file"), error=(pr.get("error") or pr.get("make_error") or "")[-3000:], gate=pr.get("gate"))
            if all_mism:
                broken["broken_correspondence"] = dict(name=corr, count=len(all_mism),
                                                       first=[dict(id=m[0], impl=m[1], model=m[2]) for m in all_mism[:10]])
            ctx.report_violation("unproved", dict(kind="no-failing-input-found", **broken),
                                 what="property no longer shown to hold: " + ", ".join(broken.keys()), no_failing_input=True)
    ctx.finish(dict(
        traces_validated_against_impl=total,
        evaluations=total,
        distinct_nontrivial=len(distinct),
        rule="sequences from one seeded PRNG on a real node.StateMachine (mem / pebble; rocksdb in the thorough tier), policy wait_compact (82 %) "
             "or local deletion: writes of every type (KV, hash, set, zset, list) mixed with SETEX / *EXPIRE / *PERSIST / *CLEAR, log timestamps "
             "increasing by 1 ns..3 s, or placed at -1 s / -1 ns / 0 / +1 ns / +1 s around the expiry second of a key, equal to the previous "
             "one, zero, or in another era (100..2000 days before / after the wall clock); after every write the physical dump and the typed "
             "observation of the key through the production read handlers; multi-key / multi-member reads (EXISTS k1 k2 k3, MGET, HMGET, SISMEMBER, ZSCORE over both pool keys and a never-written key) after half of the writes and around every background step; compaction-filter steps (production Filter decides, a seeded subset "
             "is dropped) and local-deletion ticks with all keys observed before and after; read-clock probes through the hook at chosen "
             "clocks. Non-trivial = every write / background step / probe, distinct by hash of its line.",
        histogram=hist_all,
        mismatches=len(all_mism),
        oracle_failures=len(all_fail),
        samples=samples[:6],
    ), assumptions=[
        "log timestamps and expiry instants are kept >= 20 days away from the wall clock (and from wall clock - 48 h), so no comparison depends on sub-day clock values",
        "the ts = 0 escape of isExpired is outside the property (hypothesis ts > 0); writes with ts = 0 are generated (2 %) and diffed against the model, but not judged by the direct oracle; that real entries carry ts > 0 is checked on every run on a live single-process server driven through the redis protocol (timestamps read back from the engine must lie inside the wall-clock window of the run)",
        "integer scores only; the second (score) index of sorted sets is not represented in the model",
        "compaction on mem / pebble is simulated: the production rockCompactFilter.Filter decides per raw key, the harness deletes a seeded subset of the allowed keys (these engines never call the filter); on rocksdb additionally real CompactAllRange runs (steps K): whatever disappears must be allowed by the model's filter predicate and by the direct oracle",
    ])
