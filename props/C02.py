"""C02 — replicas never apply different entries at the same index (raft; shared driver in props/_raft.py)."""
import _raft


def run(ctx):
    _raft.run(ctx, "C02")
