"""C03 — a committed entry survives any crash/restart (raft; shared driver in props/_raft.py)."""
import _raft


def run(ctx):
    _raft.run(ctx, "C03")
