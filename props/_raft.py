"""Shared driver of the raft properties C01, C02, C03.

Implementation side: harness/cmd/raftsim (real raft.Node clusters of /repo under seeded schedules,
package raftdrv) — the direct oracles are evaluated in Go on every trace record and, independently,
re-evaluated here in Python on the fully written traces of the first schedules.
Model side: coq/Raft (raftLog / unstable / storage contract / quorum arithmetic), extracted and
diffed against the real raftLog, MemoryStorage and RocksStorage in `raftsim -mode log`.
"""
import atexit
import fcntl
import glob
import hashlib
import json
import os
import shutil
import signal
import time

import vlib
from vlib import sh, log

RAFTSIM = os.path.join(vlib.BIN, "raftsim")
MODELRUN = None

TITLES = {
    "C01": "at most one leader per term; learners neither lead nor vote",
    "C02": "replicas never apply different entries at the same index; gap-free increasing hand-out",
    "C03": "a committed entry survives any crash/restart",
}


# --------------------------------------------------------------------------------------------
# independent Python re-evaluation of the oracles on a written trace (JSONL, see raftdrv/doc.go)
def same_ent(a, b):
    return (a.get("t"), a.get("k"), a.get("p", 0), a.get("x", 0)) == (b.get("t"), b.get("k"), b.get("p", 0), b.get("x", 0))


def py_oracle(path):
    """Returns list of (prop, rule, seq, what). Deliberately written from the property texts,
    not from oracle.go."""
    out = []
    nodes = {}
    leader_of = {}
    snap_pend = {}
    chosen = {}       # index -> entry (published CommittedEntries)
    applied = {}      # index -> entry
    pending = {}      # node -> Ready projection waiting for its publish sub-step
    handed = {}       # node -> last handed index of this incarnation
    app_last = {}     # node -> last applied index of this incarnation
    was_leader = {}
    granted = {}      # (node, term) -> candidate
    with open(path) as f:
        lines = f.readlines()
    for line in lines[1:]:
        r = json.loads(line)
        ev, seq = r["ev"], r["s"]
        n = ev.get("n")
        if r.get("panic"):
            out.append(("C02", "panic", seq, r["panic"]))
            out.append(("C03", "panic", seq, r["panic"]))
        pre = nodes.get(n)
        sd = r.get("sd")
        for m in r.get("add", []):
            mm = m["msg"]
            if mm["type"] == 6 and not mm.get("reject"):
                k = (mm["from"], mm["term"])
                if granted.setdefault(k, mm["to"]) != mm["to"]:
                    out.append(("C01", "double-vote", seq, "node %s term %s" % k))
                granted[k] = mm["to"]
                if sd is not None and not (sd["term"] > mm["term"] or (sd["term"] == mm["term"] and sd["vote"] == mm["to"])):
                    out.append(("C01", "vote-not-durable", seq, "node %s" % mm["from"]))
                    out.append(("C03", "vote-not-durable", seq, "node %s" % mm["from"]))
            if mm["type"] == 4 and not mm.get("reject") and sd is not None:
                if mm.get("index", 0) > sd["last"] and mm.get("index", 0) > sd["si"]:
                    out.append(("C03", "ack-not-durable", seq, "node %s index %s" % (mm["from"], mm.get("index"))))
                if sd["term"] < mm["term"]:
                    out.append(("C03", "ack-term-not-durable", seq, "node %s" % mm["from"]))
        if "rd" in r:
            pending[n] = r["rd"]
            if r["rd"].get("snap"):
                snap_pend[n] = r["rd"]["snap"]
            for mb in r["rd"].get("msgbodies", []):
                if mb["msg"]["type"] in (6, 18) and pre is not None:
                    post = pre
                    for ns in r.get("nodes", []):
                        if ns["id"] == n:
                            post = ns
                    # a rejection is no vote (Step rejects a stale-term pre-vote before looking at the role)
                    if is_learner(pre) and is_learner(post) and not mb["msg"].get("reject"):
                        out.append(("C01", "learner-vote-response", seq, "node %s" % n))
        if ev["k"] in ("crash", "restart"):
            pending.pop(n, None)
            snap_pend.pop(n, None)
            if ev["k"] == "restart" and not r.get("res"):
                handed.pop(n, None)
                app_last.pop(n, None)
                was_leader.pop(n, None)
        if ev["k"] == "ready" and n in snap_pend and "phs" in r.get("sub", "").split(","):
            # the membership of a persisted snapshot is what a restart starts from
            sn = snap_pend.pop(n)
            for ns in r.get("nodes", []):
                d = ns.get("disk")
                if ns["id"] == n and d and d.get("si") == sn["i"]:
                    if (d.get("svoters") or []) != (sn.get("voters") or []) or (d.get("slearners") or []) != (sn.get("learners") or []):
                        out.append(("C01", "snapshot-membership-not-persisted", seq, "node %s snapshot %s" % (n, sn["i"])))
        if ev["k"] == "ready" and r.get("sub", "").split(",")[0:1] and "publish" in r.get("sub", "").split(",") and n in pending:
            rd = pending.pop(n)
            if rd.get("snap"):
                i = rd["snap"]["i"]
                if n in handed and i <= handed[n]:
                    out.append(("C02", "handout-snapshot-backwards", seq, "node %s" % n))
                if i in chosen and chosen[i]["t"] != rd["snap"]["t"]:
                    out.append(("C02", "snapshot-vs-handout", seq, "index %d" % i))
                handed[n] = i
            for k, e in enumerate(rd.get("cents", [])):
                if n in handed:
                    if e["i"] != handed[n] + 1:
                        out.append(("C02", "handout-gap", seq, "node %s index %d after %d" % (n, e["i"], handed[n])))
                elif k == 0 and pre is not None and e["i"] > pre["app"]["applied"] + 1:
                    out.append(("C02", "handout-gap-after-restart", seq, "node %s" % n))
                handed[n] = e["i"]
                if e["i"] in chosen:
                    if not same_ent(chosen[e["i"]], e):
                        out.append(("C02", "handout-agree", seq, "index %d" % e["i"]))
                else:
                    chosen[e["i"]] = e
        for a in r.get("applied", []):
            e, who = a["e"], a["n"]
            if e["k"] == "GAP":
                out.append(("C02", "apply-gap", seq, "node %s" % who))
                continue
            if e["k"] == "S":
                if who in app_last and e["i"] <= app_last[who]:
                    out.append(("C02", "apply-snapshot-backwards", seq, "node %s" % who))
                app_last[who] = e["i"]
                continue
            if who in app_last and e["i"] != app_last[who] + 1:
                out.append(("C02", "apply-order", seq, "node %s" % who))
            app_last[who] = e["i"]
            if e["i"] in applied and not same_ent(applied[e["i"]], e):
                out.append(("C02", "apply-agree", seq, "index %d" % e["i"]))
            applied.setdefault(e["i"], e)
            if e["i"] in chosen and not same_ent(chosen[e["i"]], e):
                out.append(("C03", "apply-vs-committed", seq, "index %d" % e["i"]))
        for ns in r.get("nodes", []):
            i = ns["id"]
            prev = nodes.get(i)
            nodes[i] = ns
            if not ns["alive"]:
                was_leader.pop(i, None)
                continue
            if is_learner(ns) and ns["role"] != 0:
                out.append(("C01", "learner-role", seq, "node %s role %s" % (i, ns["role"])))
            for v in ns.get("votes", []):
                if v[1] == 1 and v[0] in ns.get("learners", []):
                    if prev is None or v[0] not in [pv[0] for pv in prev.get("votes", [])]:
                        out.append(("C01", "learner-vote-counted", seq, "node %s from %s" % (i, v[0])))
            if ns["role"] == 2 and prev is not None and prev.get("alive") and prev.get("role") == 2 and prev.get("term") == ns["term"] \
                    and ns["commit"] > prev["commit"] and ns.get("log"):
                c = ns["commit"]
                k = c - ns["log"][0]["i"]
                if 0 <= k < len(ns["log"]) and ns["log"][k]["i"] == c:
                    te = ns["log"][k]["t"]
                    have = 0
                    for v in ns.get("voters", []):
                        if v == i:
                            have += 1
                            continue
                        d = (nodes.get(v) or {}).get("disk")
                        if not d:
                            continue
                        if d["si"] > c or (d["si"] == c and d["st"] == te):
                            have += 1
                            continue
                        lg = d.get("log", [])
                        if lg:
                            j = c - lg[0]["i"]
                            if 0 <= j < len(lg) and lg[j]["i"] == c and lg[j]["t"] == te:
                                have += 1
                    if have < len(ns.get("voters", [])) // 2 + 1:
                        out.append(("C02", "commit-without-quorum", seq, "leader %s index %d" % (i, c)))
                        out.append(("C03", "commit-without-quorum", seq, "leader %s index %d" % (i, c)))
            if ns["role"] == 2:
                t = ns["term"]
                if leader_of.setdefault(t, i) != i:
                    out.append(("C01", "two-leaders", seq, "term %d nodes %s %s" % (t, leader_of[t], i)))
                if was_leader.get(i) != t:
                    was_leader[i] = t
                    for k in sorted(chosen):
                        if not has_entry(ns, chosen[k]):
                            out.append(("C03", "leader-missing-committed", seq, "node %s term %d index %d" % (i, t, k)))
                            break
            else:
                was_leader.pop(i, None)
    return out


def is_learner(ns):
    return ns.get("alive") and (ns.get("learner", False) or ns["id"] in ns.get("learners", []))


def has_entry(ns, e):
    if e["i"] < ns["first"]:
        if e["i"] == ns["first"] - 1 and ns.get("dummy", 0) not in (0, e["t"]):
            return False
        return True
    if e["i"] > ns["last"]:
        return False
    lg = ns.get("log", [])
    if not lg:
        return False
    k = e["i"] - lg[0]["i"]
    return 0 <= k < len(lg) and lg[k]["i"] == e["i"] and same_ent(lg[k], e)


# --------------------------------------------------------------------------------------------
def _sim_key(ctx, what):
    """hash of everything the simulated runs depend on: the harness sources, the raft / engine / common packages of
    the working tree (compiled into raftsim) and the two files the driver parses at run time"""
    h = hashlib.sha1()
    pats = [os.path.join(vlib.HARNESS, "internal", "raftdrv", "*.go"), os.path.join(vlib.HARNESS, "cmd", "raftsim", "*.go"),
            os.path.join(vlib.HARNESS, "go.mod")]
    for sub in ("raft", "raft/raftpb", "engine", "common", "wal", "node/raft.go"):
        q = os.path.join(vlib.REPO, sub)
        pats.append(q if q.endswith(".go") else os.path.join(q, "*.go"))
    for pat in pats:
        for f in sorted(glob.glob(pat)):
            if f.endswith("_test.go"):
                continue
            h.update(f.encode())
            h.update(open(f, "rb").read())
    h.update(json.dumps([ctx.seed, ctx.tier, what]).encode())
    return h.hexdigest()


def cached_raftsim(ctx, name, args, timeout=3000):
    """Run raftsim once per (binary, node/raft.go, wal/wal.go, seed, tier, args) and share the output directory
    between the C01/C02/C03 checks: the binary is rebuilt by every check, so a change of /repo or of the
    harness changes the key and the run is redone. Returns (rc, out, summary, dir)."""
    base = os.path.join(vlib.BUILD, "run", "raft-shared", "%d-%s" % (ctx.seed, ctx.tier))
    os.makedirs(base, exist_ok=True)
    d = os.path.join(base, name)
    key = _sim_key(ctx, args)
    with open(os.path.join(base, name + ".lock"), "w") as lf:
        fcntl.flock(lf, fcntl.LOCK_EX)
        try:
            kp = os.path.join(base, name + ".key")
            if os.path.exists(kp) and open(kp).read() == key and os.path.exists(os.path.join(d, "done")):
                sp = os.path.join(d, "summary.json")
                summ = json.load(open(sp)) if os.path.exists(sp) else None
                return 0, "(cached)", summ, d
            if os.path.exists(kp):
                os.remove(kp)
            rc, out, summ, _ = run_raftsim(args, d, timeout=timeout)
            if rc == 0:
                open(os.path.join(d, "done"), "w").write("1")
                open(kp, "w").write(key)
            return rc, out, summ, d
        finally:
            fcntl.flock(lf, fcntl.LOCK_UN)


def run_raftsim(args, outdir, timeout=3000):
    shutil.rmtree(outdir, ignore_errors=True)
    os.makedirs(outdir)
    rc, out, dt = sh("%s -out %s %s" % (RAFTSIM, outdir, args), cwd=outdir, timeout=timeout)
    summ = None
    p = os.path.join(outdir, "summary.json")
    if os.path.exists(p):
        summ = json.load(open(p))
    return rc, out, summ, dt


def collect_failures(prop, summ, limit=20):
    """oracle failures of this property from a raftsim summary"""
    fails = []
    for s in summ.get("schedules", []):
        mine = [v for v in s.get("violations", []) if v["prop"] == prop]
        if not mine:
            continue
        scen = json.load(open(s["scenario"])) if s.get("scenario") and os.path.exists(s["scenario"]) else None
        v = mine[0]
        fails.append(dict(name="%s-%s-%s" % (v["rule"], summ.get("seed"), s["sched"]),
                          case=dict(scenario=scen, violations=mine, sched=s["sched"], seed=summ.get("seed"), storage=summ.get("storage"),
                                    profile=s.get("profile"), order=summ.get("order")),
                          what="%s: %s" % (v["rule"], v["what"]),
                          signature=("%s [%s]" % (prop, v["class"])) if v.get("class") else "%s %s" % (prop, v["rule"])))
        if len(fails) >= limit:
            break
    return fails


def shrink(prop, fail, workdir, budget=80, seconds=90):
    """delta-debugging on the event list of a failing scenario (best effort; bounded by a replay count AND wall clock)"""
    t_end = time.time() + seconds
    scen = fail["case"].get("scenario")
    if not scen:
        return fail
    rule = fail["case"]["violations"][0]["rule"]
    evs = scen["events"]

    def still_fails(cand):
        d = os.path.join(workdir, "shrink")
        shutil.rmtree(d, ignore_errors=True)
        os.makedirs(d)
        sp = os.path.join(d, "s.json")
        json.dump(dict(name="shrink", opt=scen["opt"], events=cand), open(sp, "w"))
        if time.time() > t_end:
            return False
        rc, out, summ, _ = run_raftsim("-mode replay %s" % sp, os.path.join(d, "o"), timeout=20)
        if not summ:
            return False
        for s in summ["schedules"]:
            for v in s.get("violations", []):
                if v["prop"] == prop and v["rule"] == rule:
                    return True
        return False

    # cut the tail after the violation first
    seq = fail["case"]["violations"][0]["seq"]
    if seq < len(evs) and still_fails(evs[:seq]):
        evs = evs[:seq]
        budget -= 1
    n = 2
    while len(evs) >= 2 and budget > 0 and time.time() < t_end:
        chunk = max(1, len(evs) // n)
        reduced = False
        for i in range(0, len(evs), chunk):
            cand = evs[:i] + evs[i + chunk:]
            budget -= 1
            if cand and still_fails(cand):
                evs = cand
                n = max(n - 1, 2)
                reduced = True
                break
            if budget <= 0 or time.time() > t_end:
                break
        if not reduced:
            if chunk == 1:
                break
            n = min(n * 2, len(evs))
    out = dict(fail)
    out["case"] = dict(fail["case"])
    out["case"]["scenario"] = dict(name="shrunk", opt=scen["opt"], events=evs)
    out["case"]["shrunk_from"] = len(scen["events"])
    return out


EXPECTED_ATOMS_NOTE = ["isMeNewLeader = SoftState != nil && RaftState == StateLeader",
                       "waitApply = (!isMeNewLeader && a committed entry is a conf change) || the Ready carries a snapshot"]


class _Deadline(Exception):
    pass


def _alarm(signum, frame):
    raise _Deadline()


def run(ctx, prop):
    quick = ctx.tier == "quick"
    # wall-clock guard: every phase below gets at most what is left of this budget (plus a floor that lets it report)
    t_run0 = time.time()
    budget_s = 900 if quick else 3300

    def left(floor=60):
        return int(max(floor, budget_s - (time.time() - t_run0)))
    ok, out, _ = vlib.go_build("raftsim")
    if not ok:
        log("BUILD FAILED (harness raftsim):\n" + out[-3000:])
        raise SystemExit(2)
    vlib.regen_consts("Raft", "raftsim")
    proofs_ok, info = ctx.check_proofs(make_targets=["Raft/Proofs.vo", "Raft/ProofsLog.vo", "Raft/ProofsStore.vo", "Raft/ProofsCore.vo", "Raft/ProofsRocks.vo", "Properties/%s.vo" % prop],
                                       gate_paths=["Raft/", "RaftAbs/", "Common", "Properties/%s" % prop])
    mok, mout, _ = vlib.model_build("Raft")
    if not mok:
        log("MODEL BUILD FAILED:\n" + mout[-3000:])
        raise SystemExit(2)

    # everything this process writes goes to a directory of its own (two checks of one property may run at the same time),
    # and it runs private copies of the two binaries that concurrent checks rebuild in place
    global RAFTSIM, MODELRUN
    work = os.path.join(ctx.run_dir, "p%d" % os.getpid())
    shutil.rmtree(work, ignore_errors=True)
    os.makedirs(work)
    if not os.environ.get("VERIF_KEEP_RUN"):
        atexit.register(shutil.rmtree, work, True)
    for attempt in range(5):
        try:
            shutil.copy2(os.path.join(vlib.BIN, "raftsim"), os.path.join(work, "raftsim"))
            with vlib.CoqLock():
                shutil.copy2(vlib.modelrun_path("Raft"), os.path.join(work, "modelrun"))
            rc_p, out_p, _ = sh("%s -consts" % os.path.join(work, "raftsim"), timeout=60)
            rc_m, out_m, _ = sh("%s < /dev/null" % os.path.join(work, "modelrun"), timeout=60)
            if rc_p == 0 and rc_m == 0:
                break
        except OSError:
            pass
        time.sleep(1 + attempt)
    else:
        log("could not take private copies of raftsim / modelrun")
        raise SystemExit(2)
    RAFTSIM, MODELRUN = os.path.join(work, "raftsim"), os.path.join(work, "modelrun")
    fails, mism, total_records, total_traces = [], [], 0, 0
    hist, profiles, configs, stats_all, samples, distinct = {}, {}, {}, {}, [], set()
    notes = ctx.notes
    order = None

    def absorb(summ):
        nonlocal total_records, total_traces, order
        order = summ.get("order")
        total_traces += len(summ["schedules"])
        for k, v in summ.get("hist", {}).items():
            hist[k] = hist.get(k, 0) + v
        for k, v in summ.get("profiles", {}).items():
            profiles[k] = profiles.get(k, 0) + v
        for k, v in summ.get("configs", {}).items():
            configs[k] = configs.get(k, 0) + v
        for k, v in summ.get("stats", {}).items():
            if isinstance(v, bool):
                stats_all[k] = bool(stats_all.get(k)) or v
            elif isinstance(v, dict):
                d = stats_all.setdefault(k, {})
                for kk, vv in v.items():
                    d[kk] = d.get(kk, 0) + vv
            elif k == "MaxTerm":
                stats_all[k] = max(stats_all.get(k, 0), v)
            else:
                stats_all[k] = stats_all.get(k, 0) + v
        for s in summ["schedules"]:
            total_records += s["records"]
            # non-trivial: a leader was elected and something beyond the bootstrap entries committed
            if s["leaders"] >= 1 and s["commit"] > s["opt"]["voters"] + 1:
                distinct.add(s["hash"])

    # ---- 1. the model correspondence: real raftLog / storages vs the extracted model ----
    nlog = 400 if quick else 6000
    rc, out, _, dlog = cached_raftsim(ctx, "log", "-mode log -seed %d -n %d" % (ctx.seed, nlog), timeout=left(120))
    d = os.path.join(work, "log")
    shutil.rmtree(d, ignore_errors=True)
    os.makedirs(d)
    if rc == 0:
        for fn in ("cases.tsv", "impl.out", "oracle.out"):
            shutil.copy(os.path.join(dlog, fn), os.path.join(d, fn))
    if rc != 0:
        log("HARNESS RUN FAILED (log mode):\n" + out[-3000:])
        raise SystemExit(2)
    rc2, out2, _ = sh("%s < cases.tsv > model.out" % MODELRUN, cwd=d, timeout=left(120))
    if rc2 != 0:
        log("MODEL RUN FAILED:\n" + out2[-3000:])
        raise SystemExit(2)
    mm, nlogcases = vlib.diff_outputs(os.path.join(d, "impl.out"), os.path.join(d, "model.out"))
    mism += mm
    impl_log, _ = vlib.read_out(os.path.join(d, "oracle.out"))
    log_fails = log_oracle(prop, d, impl_log)
    fails += log_fails

    # ---- 1b. handler-level correspondence: every StepNode / Advance / HandleConfChanged of generated schedules as an
    #          independent case (pre-state + inputs -> post-state + Ready) against coq/Raft/Core.v ----
    core_cov = dict(cases=0, mismatches=0)
    core_plans = [("core-mix", "-mode core -seed %d -n %d -events %d" % (ctx.seed, 30 if quick else 300, 900 if quick else 1500)),
                  ("core-paging", "-mode core -seed %d -n %d -events %d -profile paging" % (ctx.seed + 7, 20 if quick else 200, 1000 if quick else 1500))]
    for cname, cargs in core_plans:
        rc, out, _, dcore = cached_raftsim(ctx, cname, cargs, timeout=left(120))
        if rc != 0:
            log("HARNESS RUN FAILED (core mode):\n" + out[-3000:])
            raise SystemExit(2)
        dd = os.path.join(work, cname)
        shutil.rmtree(dd, ignore_errors=True)
        os.makedirs(dd)
        rc2, out2, _ = sh("%s < %s > model.out" % (MODELRUN, os.path.join(dcore, "core-cases.tsv")), cwd=dd, timeout=left(120))
        if rc2 != 0:
            log("MODEL RUN FAILED (core):\n" + out2[-3000:])
            raise SystemExit(2)
        cm, ncore = vlib.diff_outputs(os.path.join(dcore, "core-impl.out"), os.path.join(dd, "model.out"))
        core_cov["cases"] += ncore
        core_cov["mismatches"] += len(cm)
        for k, a, b in cm[:5]:
            # name the fields that differ
            fa, fb = (a or "").split(" "), (b or "").split(" ")
            diff = [x.split("=")[0] for x, y in zip(fa, fb) if x != y] if len(fa) == len(fb) else ["shape"]
            mism.append(("core:%s:%s" % (cname, k), "fields %s: %s" % (",".join(diff[:8]), (a or "")[:400]), (b or "")[:400]))
        mism += [("core:%s:%s" % (cname, k), (a or "")[:200], (b or "")[:200]) for k, a, b in cm[5:40]]
        try:
            st = json.load(open(os.path.join(dcore, "core-stats.json")))
            for kk, vv in st.items():
                dst = core_cov.setdefault(kk, {})
                for a, b in vv.items():
                    dst[a] = dst.get(a, 0) + b
        except (OSError, ValueError):
            pass

    # ---- 2. corpus (regressions) and an explicit replay ----
    scen_files = sorted(glob.glob(os.path.join(vlib.VERIF, "corpus", prop, "*.json")))
    if ctx.replay:
        rp = json.load(open(ctx.replay))
        sc = (rp.get("case") or {}).get("scenario")
        if sc:
            p = os.path.join(work, "replay_scenario.json")
            json.dump(sc, open(p, "w"))
            scen_files = [p]
        else:
            log("replay file carries no scenario (it names a broken proof/correspondence); running the normal check")
    if scen_files:
        rc, out, summ, _ = run_raftsim("-mode replay " + " ".join(scen_files), os.path.join(work, "corpus"))
        if not summ:
            log("HARNESS RUN FAILED (corpus):\n" + out[-3000:])
            raise SystemExit(2)
        absorb(summ)
        fails += collect_failures(prop, summ)
        if ctx.replay:
            for s in summ["schedules"]:
                log("replay: %d records, violations: %s" % (s["records"], json.dumps(s.get("violations", []))[:1500]))

    # ---- 3. generated schedules ----
    if not (ctx.replay and scen_files and json.load(open(ctx.replay)).get("case", {}).get("scenario")):
        plans = [("mem", 200, 1100, 6), ("rocks-mem", 24, 700, 0)] if quick else \
                [("mem", 3000, 1500, 10), ("rocks-mem", 300, 1200, 0), ("rocks-pebble", 40, 800, 0)]
        for storage, n, events, ntr in plans:
            rc, out, summ, dd = cached_raftsim(ctx, "sim-" + storage,
                                               "-mode sim -seed %d -n %d -events %d -trace %d -storage %s" % (ctx.seed, n, events, ntr, storage),
                                               timeout=left(180))
            if not summ:
                log("HARNESS RUN FAILED (sim %s):\n" % storage + out[-3000:])
                raise SystemExit(2)
            absorb(summ)
            fails += collect_failures(prop, summ)
            for s in summ["schedules"][:2]:
                samples.append(dict(sched=s["sched"], profile=s["profile"], opt=s["opt"], records=s["records"], leaders=s["leaders"],
                                    commit=s["commit"], applied=s["applied"]))
            # independent Python re-evaluation on the fully written traces
            for tp in sorted(glob.glob(os.path.join(dd, "sched-*.jsonl"))):
                pv = [v for v in py_oracle(tp) if v[0] == prop]
                gv = []
                for s in summ["schedules"]:
                    if s.get("file") == tp:
                        gv = [v for v in s.get("violations", []) if v["prop"] == prop]
                if bool(pv) != bool(gv):
                    mism.append(("oracle-crosscheck:" + os.path.basename(tp), json.dumps(gv)[:300], json.dumps(pv)[:300]))
        if not quick:
            rc, out, summ, dd = cached_raftsim(ctx, "crashpoints", "-mode crashpoints -seed %d -n %d -events %d" % (ctx.seed, 10, 220), timeout=left(180))
            if not summ:
                log("HARNESS RUN FAILED (crashpoints):\n" + out[-3000:])
                raise SystemExit(2)
            absorb(summ)
            fails += collect_failures(prop, summ)

    # ---- 4. the abstract protocol: traces of the real cluster through the extracted acceptor (coq/RaftAbs) ----
    abs_cov = None
    if not ctx.replay and fails:
        # failing inputs exist already; traces of a broken implementation can make the directed acceptor scenarios wait
        # for states that never come, so the acceptor is not run on top of them. (With only a broken correspondence it IS
        # run, under the alarm: its directed scenarios are the best source of a concrete failing schedule.)
        abs_cov = dict(skipped="failing schedules were already found by the direct oracles")
    elif not ctx.replay:
        acc_limit = left(240) if quick else left(600)
        old_handler = signal.signal(signal.SIGALRM, _alarm)
        signal.alarm(acc_limit)
        try:
            import _raftabs
            n_tr, n_steps, rejected = _raftabs.run_acceptor(ctx, ctx.tier)
            signal.alarm(0)
            # the directed scenarios of harness/cmd/raftabs also run under the direct oracle: their violations are
            # concrete failing inputs (replayable scenario files) of this property
            if hasattr(_raftabs, "scenario_failures"):
                fails += _raftabs.scenario_failures(prop)
            abs_cov = dict(traces=n_tr, abstract_steps=n_steps, rejected=len(rejected))
            for k in ("labels", "skipped", "skipped_events", "single_config_traces", "overlap_ok_traces", "accepted_traces"):
                if k in _raftabs.LAST:
                    abs_cov[k] = _raftabs.LAST[k]
            total_traces += n_tr
            for rj in rejected[:10]:
                mism.append(("raftabs-acceptor:%s:%s" % (rj.get("trace"), rj.get("seq")), "%s (implementation trace)" % rj.get("event"),
                             "rejected by the abstract protocol: %s" % rj.get("why")))
        except _Deadline:
            abs_cov = dict(timeout_s=acc_limit)
            mism.append(("raftabs-acceptor:timeout", "trace generation + acceptor did not finish within %d s (on the unchanged code: < 90 s)" % acc_limit,
                         "no verdict of the abstract protocol on this run"))
        except ImportError:
            notes.append("props/_raftabs.py not present: abstract-protocol acceptor not run")
        except RuntimeError as ex:
            signal.alarm(0)
            log("RAFTABS BUILD FAILED:\n" + str(ex)[-3000:])
            raise SystemExit(2)
        finally:
            signal.alarm(0)
            signal.signal(signal.SIGALRM, old_handler)

    if order and "ATOMS CHANGED" in order:
        mism.append(("driver-atoms:isMeNewLeader/waitApply", "node/raft.go processReady computes them as: " + order.split("ATOMS CHANGED:")[1].strip()[:600],
                     "the driver (raftdrv readyStage) implements: " + " ;; ".join(EXPECTED_ATOMS_NOTE)))
    if fails:
        sim_fails = [f for f in fails if f["case"].get("scenario")]
        if sim_fails:
            k = fails.index(sim_fails[0])
            fails[k] = shrink(prop, sim_fails[0], work)

    def search():
        # 1. every directed schedule of the three raft corpora (the own one was replayed above), judged for THIS property
        others = [f for f in sorted(glob.glob(os.path.join(vlib.VERIF, "corpus", "C0[123]", "*.json"))) if f not in scen_files]
        if others:
            rc, out, summ, _ = run_raftsim("-mode replay " + " ".join(others), os.path.join(work, "search-corpus"), timeout=left(120))
            fs = collect_failures(prop, summ) if summ else []
            if fs:
                return fs
        # 2. the generator profiles that reach the rarer schedule classes, then the general mix
        for extra in ("-profile lagsnap", "-profile conf", "-profile paging"):
            rc, out, summ, dt = run_raftsim("-mode sim -seed %d -n %d -events %d %s" % (ctx.seed + 1000003, 120 if quick else 400, 1200, extra),
                                            os.path.join(work, "search"), timeout=left(120))
            fs = collect_failures(prop, summ) if summ else []
            if fs:
                fs[0] = shrink(prop, fs[0], work)
                return fs
        dd = os.path.join(work, "search")
        rc, out, summ, dt = run_raftsim("-mode sim -seed %d -n %d -events %d" % (ctx.seed + 1000003, 400 if quick else 1500, 1500), dd, timeout=left(240))
        if not summ:
            return []
        fs = collect_failures(prop, summ)
        if fs:
            fs[0] = shrink(prop, fs[0], work)
        return fs

    vlib.standard_verdict(ctx, proofs_ok, [(m[0], m[1], m[2]) for m in mism], fails, search_fn=search,
                          corr_name="coq/Raft model vs raft.raftLog/unstable/MemoryStorage/RocksStorage (raftsim -mode log); "
                                    "coq/Raft/Core.v vs raft.Step/StepNode/Advance/HandleConfChanged case by case (raftsim -mode core); Go oracle vs Python oracle; "
                                    "coq/RaftAbs acceptor on traces of the real cluster")
    stats_keep = {k: v for k, v in stats_all.items()}
    ctx.finish(dict(
        traces_validated_against_impl=total_traces + nlogcases + core_cov["cases"],
        evaluations=total_records + nlogcases + core_cov["cases"],
        distinct_nontrivial=len(distinct),
        rule="schedules from one seeded PRNG (profiles steady/elect/crashy/conf/snap/stale/paging/lagsnap/uniform; groups of 1..5 voters + learners added by "
             "conf change; preVote/checkQuorum on and off; MaxSizePerMsg 0 and MaxUint64; MemoryStorage and RocksStorage). A schedule is "
             "non-trivial when a leader was elected and an entry beyond the bootstrap configuration was committed; distinct by a hash of the "
             "per-record (term, commit, last index, role) stream. Log-mode cases: random op sequences on the real raftLog/storages.",
        histogram=dict(events=hist, profiles=profiles, configs=configs, exercised=stats_keep, log_cases=nlogcases),
        mismatches=len(mism),
        process_ready_order=order,
        abstract_protocol_acceptor=abs_cov,
        handler_level_correspondence=core_cov,
        samples=samples[:6],
    ), assumptions=[
        "the driver executes node/raft.go processReady's operations in the order read from the source on every run (go/ast); the body of "
        "each operation is the driver's (storage object = what survives a crash; WAL/snapshot files are C05/C06's subject)",
        "hand-out is counted when the Ready's CommittedEntries reach the application (publish), as in production",
        "transport is the message multiset of the driver: loss, duplication, reordering, partitions; payloads are opaque 8-byte ids",
        "abstract protocol (coq/RaftAbs): fixed-membership theorems have no hypothesis; the _reconf_partial ones assume Overlap, "
        "which the acceptor tests on every trace but which is not proved for the fork's configuration-change handling",
    ])


def log_oracle(prop, d, impl):
    """direct checks on the implementation's log-mode outputs (no model): see raftsim/log.go for the line formats"""
    fails = []
    for cid, out in impl.items():
        if not cid.startswith("O"):
            continue
        # O-lines: "<prop> ok" or "<prop> FAIL <what>" produced by invariants evaluated on the real objects
        for part in out.split(";"):
            part = part.strip()
            if part.startswith(prop + " FAIL"):
                fails.append(dict(name="log-%s" % cid, case=dict(case_id=cid, impl=out), what=part, signature="%s log-mode invariant" % prop))
    return fails
