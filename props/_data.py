"""Shared code of the data-mapping checks (C08, C09): case/impl parsing, the C09 direct oracle
(counts = enumerations, evaluated on the implementation's outputs only), sequence shrinking,
running harness + model."""
import os
import re
import shutil

import vlib
from vlib import sh, log

BINNAME = "datasim"


# ---------------------------------------------------------------- parsing
def parse_cases(path):
    """-> (order list of ids, dict id -> fields[1:])"""
    cases = {}
    order = []
    for line in open(path, errors="replace"):
        p = line.rstrip("\n").split("\t")
        if len(p) < 2:
            continue
        cases[p[0]] = p[1:]
        order.append(p[0])
    return order, cases


def unh(s):
    return b"" if s in ("-", "") else bytes.fromhex(s)


def args_of(hexargs):
    return [unh(x) for x in hexargs.split(",")] if hexargs != "" else []


def cmd_text(fields):
    """human readable form of a W/R case line"""
    if fields[0] == "W":
        a = args_of(fields[4])
    elif fields[0] == "R":
        a = args_of(fields[1])
    else:
        return " ".join(fields)
    return " ".join(repr(x)[1:] for x in a)


def parse_obs(o):
    """'H len=:1 | ex=:1 | all=*2 $66 $31 ...' -> (type, dict name -> token list)"""
    typ = o[:1]
    d = {}
    for part in o[2:].split(" | "):
        i = part.find("=")
        if i < 0:
            continue
        v = part[i + 1:]
        d[part[:i]] = v.split(" ") if v != "" else []
    return typ, d


def arr(toks):
    """array reply tokens -> list of element tokens, or None when the reply is not an array"""
    if not toks or not toks[0].startswith("*"):
        return None
    try:
        n = int(toks[0][1:])
    except ValueError:
        return None
    el = toks[1:]
    if len(el) != n:
        return None
    return el


def integer(toks):
    if len(toks) == 1 and toks[0].startswith(":"):
        try:
            return int(toks[0][1:])
        except ValueError:
            return None
    return None


# ---------------------------------------------------------------- C09: the property itself
def c09_check_obs(o):
    """Evaluate C09 on one observation string. Returns list of violation texts (empty = holds)."""
    typ, d = parse_obs(o)
    bad = []

    def need(cond, text):
        if not cond:
            bad.append(text)

    if typ == "H":
        n = integer(d.get("len", []))
        ex = integer(d.get("ex", []))
        al, ks, vs = arr(d.get("all", [])), arr(d.get("keys", [])), arr(d.get("vals", []))
        get = d.get("get", [])
        if n is None or al is None or ks is None or vs is None or ex is None:
            return ["hash read command failed: " + o[:200]]
        need(len(al) % 2 == 0, "HGETALL odd length")
        fields, values = al[0::2], al[1::2]
        need(n == len(fields), "HLEN=%d but |HGETALL|=%d" % (n, len(fields)))
        need(n == len(ks), "HLEN=%d but |HKEYS|=%d" % (n, len(ks)))
        need(n == len(vs), "HLEN=%d but |HVALS|=%d" % (n, len(vs)))
        need(len(set(fields)) == len(fields), "HGETALL lists a field twice")
        need(ks == fields, "HKEYS differs from the fields of HGETALL")
        need(vs == values, "HVALS differs from the values of HGETALL")
        need(ex == (1 if n >= 1 else 0), "HKEYEXIST=%d with HLEN=%d" % (ex, n))
        need(ex == (1 if len(fields) >= 1 else 0), "HKEYEXIST=%d with %d enumerable fields" % (ex, len(fields)))
        need(get == values, "HGET of an enumerated field differs from HGETALL's value (or is nil)")
    elif typ == "S":
        n = integer(d.get("card", []))
        ex = integer(d.get("ex", []))
        mem = arr(d.get("mem", []))
        is_ = d.get("is", [])
        if n is None or mem is None or ex is None:
            return ["set read command failed: " + o[:200]]
        need(n == len(mem), "SCARD=%d but |SMEMBERS|=%d" % (n, len(mem)))
        need(len(set(mem)) == len(mem), "SMEMBERS lists a member twice")
        need(ex == (1 if n >= 1 else 0), "SKEYEXIST=%d with SCARD=%d" % (ex, n))
        need(ex == (1 if len(mem) >= 1 else 0), "SKEYEXIST=%d with %d enumerable members" % (ex, len(mem)))
        need(all(x == ":1" for x in is_) and len(is_) == len(mem), "SISMEMBER=0 for an enumerated member")
    elif typ == "L":
        n = integer(d.get("len", []))
        ex = integer(d.get("ex", []))
        rg = arr(d.get("range", []))
        idx = d.get("idx", [])
        if n is None or rg is None or ex is None:
            return ["list read command failed: " + o[:200]]
        need(n == len(rg), "LLEN=%d but |LRANGE 0 -1|=%d" % (n, len(rg)))
        need(ex == (1 if n >= 1 else 0), "LKEYEXIST=%d with LLEN=%d" % (ex, n))
        need(ex == (1 if len(rg) >= 1 else 0), "LKEYEXIST=%d with %d enumerable elements" % (ex, len(rg)))
        need(idx == rg, "LINDEX i differs from element i of LRANGE 0 -1")
    elif typ == "Z":
        n = integer(d.get("card", []))
        ex = integer(d.get("ex", []))
        rg, bs, bl = arr(d.get("range", [])), arr(d.get("byscore", [])), arr(d.get("bylex", []))
        sc = d.get("score", [])
        if n is None or rg is None or bs is None or bl is None or ex is None:
            return ["zset read command failed: " + o[:200]]
        need(len(rg) % 2 == 0 and len(bs) % 2 == 0, "WITHSCORES reply of odd length")
        mem, scores = rg[0::2], rg[1::2]
        need(n == len(mem), "ZCARD=%d but |ZRANGE 0 -1|=%d" % (n, len(mem)))
        need(n == len(bs) // 2, "ZCARD=%d but |ZRANGEBYSCORE -inf +inf|=%d" % (n, len(bs) // 2))
        need(n == len(bl), "ZCARD=%d but |ZRANGEBYLEX - +|=%d" % (n, len(bl)))
        need(len(set(mem)) == len(mem), "ZRANGE lists a member twice")
        need(len(set(bl)) == len(bl), "ZRANGEBYLEX lists a member twice")
        need(sorted(mem) == sorted(bl), "ZRANGE and ZRANGEBYLEX enumerate different members")
        need(rg == bs, "ZRANGE 0 -1 and ZRANGEBYSCORE -inf +inf differ")
        need(sc == scores, "ZSCORE of an enumerated member differs from the score ZRANGE reports (or is nil)")
        need(ex == (1 if n >= 1 else 0), "ZKEYEXIST=%d with ZCARD=%d" % (ex, n))
        need(ex == (1 if len(mem) >= 1 else 0), "ZKEYEXIST=%d with %d enumerable members" % (ex, len(mem)))
    elif typ == "K":
        g = d.get("get", [])
        sl = integer(d.get("strlen", []))
        exs = integer(d.get("exists", []))
        if sl is None or exs is None or len(g) != 1:
            return ["kv read command failed: " + o[:200]]
        if g[0] == "_":
            need(exs == 0 and sl == 0, "GET nil but EXISTS=%d STRLEN=%d" % (exs, sl))
        else:
            need(exs == 1, "GET returns a value but EXISTS=%d" % exs)
            need(sl == len(unh(g[0][1:])), "STRLEN differs from the length of GET's value")
    return bad


def has_dup_args(fields):
    """does the W line carry a member/field/key argument twice?"""
    a = args_of(fields[4])
    if not a:
        return False
    name = a[0].lower()
    if name in (b"sadd", b"srem", b"hdel", b"zrem"):
        m = a[2:]
    elif name == b"del":
        m = a[1:]
    elif name == b"hmset":
        m = a[2::2]
    elif name == b"zadd":
        m = a[3::2]
    else:
        return False
    return len(set(m)) != len(m)


TYPE_OF = {"h": "H", "z": "Z"}


def type_of_cmd(name):
    name = name.lower()
    if name.startswith("h"):
        return "H"
    if name in ("sadd", "srem", "spop", "sclear", "sexpire", "spersist"):
        return "S"
    if name.startswith("z"):
        return "Z"
    if name.startswith("l") or name in ("rpush", "rpop"):
        return "L"
    return "K"


def key_valid(key):
    """table:key with non-empty table and key (anything else is rejected by every command)"""
    i = key.find(b":")
    return i > 0 and len(key) > i + 1


def norm_zero(o):
    """-0 and +0 are the same score"""
    return o.replace("f8000000000000000", "f0000000000000000")


def c09_oracle(order, cases, impl):
    """Direct oracle over a whole run. Returns (failures, histogram, checked, nontrivial set)."""
    fails = []
    hist = {}
    checked = 0
    nontrivial = set()
    last_write = {}   # (seq, type, key) -> case id of the last write
    dup_cmds = {}     # (seq, type, key) -> set of command names that carried a repeated argument
    policy = {}       # seq -> expiry policy
    ttl_used = set()  # sequences that contain an expiry command
    dumped = {}       # seq -> {table: number of non-empty (type, key) parts of the last dump}
    sizes = {}        # seq -> {engine key class: number of keys the last dump accounts for}
    fresh = {}        # seq -> no write since the last dump
    for cid in order:
        c = cases[cid]
        seq = cid.split(".")[0]
        kind = c[0]
        if kind == "S":
            policy[seq] = c[1]
            continue
        if kind == "E":
            # engine keys per class = what the final dump enumerates (model-free). Under local_deletion nothing may be
            # left behind: size/meta keys = collections that exist, element keys = sum of their sizes (zset: member
            # keys and score index keys), kv keys = strings that exist
            out = impl.get(cid)
            if out is not None and policy.get(seq) == "local" and fresh.get(seq) and seq in sizes:
                checked += 1
                got = dict(x.split("=", 1) for x in out.split(" ") if "=" in x)
                for cls, want in sizes[seq].items():
                    if got.get(cls) != ":%d" % want:
                        fails.append(dict(name="c09-" + cid, cid=cid, key=cls,
                                          what="engine holds %s keys of class %s, the dump enumerates %d" % (got.get(cls), cls, want),
                                          last_write=None, signature="engine keys left behind or missing (class %s)" % cls, obs=out[:300]))
                        break
            continue
        if kind == "T":
            # table key counter = number of keys that exist in the table (direct, model-free): comparable with the
            # dump when no key can be expired-but-stored, i.e. under local_deletion or without expiry commands
            out = impl.get(cid)
            if out is not None and seq in dumped and (policy.get(seq) == "local" or seq not in ttl_used):
                checked += 1
                for part in out.split(" "):
                    if "=" not in part:
                        continue
                    th, val = part.split("=", 1)
                    want = ":%d" % dumped[seq].get(unh(th), 0)
                    if val != want:
                        fails.append(dict(name="c09-" + cid, cid=cid, key=repr(unh(th)),
                                          what="table key counter %s but %s keys exist in table %r" % (val, want, unh(th)),
                                          last_write=None, signature="table key counter differs from the number of existing keys",
                                          obs=out[:300]))
                        break
            continue
        if kind == "W":
            a = args_of(c[4])
            nm = a[0].decode("latin1").lower() if a else "?"
            hist[nm] = hist.get(nm, 0) + 1
            if nm.endswith("expire") or nm.endswith("persist") or nm == "setex" or \
                    (nm == "set" and any(x.lower() == b"ex" for x in a[3:])):
                ttl_used.add(seq)
            fresh[seq] = False
            keys = a[1:] if nm == "del" else a[1:2]
            for k in keys:
                tk = (seq, type_of_cmd(nm), k)
                last_write[tk] = cid
                if has_dup_args(c):
                    dup_cmds.setdefault(tk, set()).add(nm.upper())
            if has_dup_args(c):
                hist["(dup-arg)"] = hist.get("(dup-arg)", 0) + 1
            if c[1] != "0":
                hist["(grouped:%s)" % c[2]] = hist.get("(grouped:%s)" % c[2], 0) + 1
            if impl.get(cid) == "-err":
                hist["(error reply)"] = hist.get("(error reply)", 0) + 1
            continue
        out = impl.get(cid)
        if kind not in ("O", "D"):
            continue
        if out is None:
            fails.append(dict(name="missing-" + cid, cid=cid, what="no implementation output", signature=None))
            continue
        obs = []
        if kind == "O":
            obs.append((unh(c[2]), out))
        else:
            per_table = {}
            for part in out.split(" || "):
                if not part:
                    continue
                i = part.find(":")
                obs.append((unh(part[:i]), part[i + 1:]))
                k = unh(part[:i])
                if b":" in k:
                    t = k[:k.index(b":")]
                    per_table[t] = per_table.get(t, 0) + 1
            dumped[seq] = per_table
            sz = dict(kv=0, hsize=0, hash=0, ssize=0, set=0, zsize=0, zset=0, zscore=0, lmeta=0, list=0)
            for _, o in obs:
                m = re.match(r"([KHSLZ]) (?:len|card|get)=(\S+)", o)
                if not m:
                    continue
                ty, v = m.group(1), m.group(2)
                n = int(v[1:]) if v.startswith(":") and v[1:].lstrip("-").isdigit() else None
                if ty == "K":
                    sz["kv"] += 1
                elif n is not None:
                    for cls, unit in {"H": (("hsize", 0), ("hash", 1)), "S": (("ssize", 0), ("set", 1)),
                                      "Z": (("zsize", 0), ("zset", 1), ("zscore", 1)), "L": (("lmeta", 0), ("list", 1))}[ty]:
                        sz[cls] += n if unit else 1
            sizes[seq] = sz
            fresh[seq] = True
        for key, o in obs:
            if not key_valid(key):
                continue
            checked += 1
            if " len=:0 " not in o and " card=:0 " not in o:
                nontrivial.add(vlib.case_hash(seq + "/" + cid + "/" + repr(key) + o))
            bad = c09_check_obs(norm_zero(o))
            if bad:
                tk = (seq, o[:1], key)
                lw = last_write.get(tk)
                last = cases[lw] if lw else None
                lastname = args_of(last[4])[0].decode("latin1").upper() if last else "?"
                if dup_cmds.get(tk):
                    sig = "%s repeated argument in one %s" % (o[:1], "/".join(sorted(dup_cmds[tk])))
                else:
                    sig = "%s %s" % (o[:1], lastname)
                fails.append(dict(name="c09-" + cid, cid=cid, key=repr(key), what="; ".join(bad[:4]),
                                  last_write=cmd_text(last) if last else None, signature=sig, obs=o[:600]))
                break
    return fails, hist, checked, nontrivial


# ---------------------------------------------------------------- running
def build_harness():
    ok, out, _ = vlib.go_build(BINNAME)
    if not ok:
        log("BUILD FAILED (harness %s):\n%s" % (BINNAME, out[-3000:]))
        raise SystemExit(2)


def run_datasim(ctx, sub, args, timeout=1500):
    d = os.path.join(ctx.run_dir, sub)
    shutil.rmtree(d, ignore_errors=True)
    os.makedirs(d)
    cmd = "%s %s -out %s" % (os.path.join(vlib.BIN, BINNAME), args, d)
    if sub.startswith("sweep"):
        # the sweep runs beside the apply loop's write batch: a hang (e.g. two open write batches on an engine with a
        # writer lock) must end the run, and the missing outputs are then reported as failures of the check
        rc, out, dt = sh("timeout -k 5 90 " + cmd, cwd=d, timeout=120)
        if rc != 0:
            log("HARNESS DID NOT FINISH (%s): rc=%s; its missing outputs count as failures" % (sub, rc))
            if not os.path.exists(os.path.join(d, "impl.out")):
                open(os.path.join(d, "impl.out"), "w").close()
            if not os.path.exists(os.path.join(d, "cases.tsv")):
                raise SystemExit(2)
        return d
    rc, out, dt = sh(cmd, cwd=d, timeout=timeout)
    if rc != 0:
        log("HARNESS RUN FAILED (%s):\n%s" % (cmd, out[-3000:]))
        raise SystemExit(2)
    return d


def seq_lines(order, cases, seq, upto=None):
    """the case lines of one sequence (up to and including id upto)"""
    out = []
    for cid in order:
        if cid.split(".")[0] != seq:
            continue
        out.append("\t".join([cid] + cases[cid]))
        if upto is not None and cid == upto:
            break
    return out


def replay_fails(ctx, lines, engine, oracle):
    """run the given case lines on the implementation, return the oracle's failures"""
    d = os.path.join(ctx.run_dir, "shrink")
    os.makedirs(d, exist_ok=True)
    p = os.path.join(d, "in.tsv")
    with open(p, "w") as f:
        f.write("\n".join(lines) + "\n")
    rc, out, _ = sh("%s -replay %s -engine %s -out %s" % (os.path.join(vlib.BIN, BINNAME), p, engine, d), cwd=d, timeout=300)
    if rc != 0:
        return []
    order, cases = parse_cases(os.path.join(d, "cases.tsv"))
    impl, _ = vlib.read_out(os.path.join(d, "impl.out"))
    return oracle(order, cases, impl)


def shrink(ctx, lines, engine, oracle, budget=120):
    """greedy one-by-one removal of W/R/O lines (keeping S and the last line) while the oracle still fails"""
    if not replay_fails(ctx, lines, engine, oracle):
        return lines
    cur = list(lines)
    i = len(cur) - 2
    while i >= 1 and budget > 0:
        cand = cur[:i] + cur[i + 1:]
        budget -= 1
        if replay_fails(ctx, cand, engine, oracle):
            cur = cand
        i -= 1
    return cur


# ---------------------------------------------------------------- the shared check body (C08, C09)
def spec_of(model_line):
    """the driver prints the Map output, or 'SPECDIFF map=<..> spec=<..>' when the two models differ"""
    if model_line is not None and model_line.startswith("SPECDIFF map=<"):
        i = model_line.find("> spec=<")
        return model_line[14:i], model_line[i + 8:-1]
    return model_line, model_line


def run_pair(ctx, sub, args, engine="mem"):
    """harness + model on one generated (or replayed) case set -> dict(dir, order, cases, impl, model_map, model_spec)"""
    d = run_datasim(ctx, sub, args + " -engine " + engine)
    rc, out, _ = sh("%s < cases.tsv > model.out" % vlib.modelrun_path("Data"), cwd=d, timeout=1500)
    if rc != 0:
        log("MODEL RUN FAILED:\n" + out[-2000:])
        raise SystemExit(2)
    order, cases = parse_cases(os.path.join(d, "cases.tsv"))
    impl, _ = vlib.read_out(os.path.join(d, "impl.out"))
    mraw, _ = vlib.read_out(os.path.join(d, "model.out"))
    mmap, mspec = {}, {}
    for k, v in mraw.items():
        mmap[k], mspec[k] = spec_of(v)
    return dict(dir=d, order=order, cases=cases, impl=impl, map=mmap, spec=mspec, engine=engine)


def plan(ctx):
    """(sub, datasim args, engine) for the tier"""
    quick = ctx.tier == "quick"
    seed = ctx.seed
    runs = []
    if quick:
        runs.append(("rand-mem", "-seed %d -n 1300 -len 40 -types khszl -policy mix -counters" % seed, "mem"))
        runs.append(("rand-pebble", "-seed %d -n 250 -len 40 -types khszl -policy mix -counters" % (seed + 7919), "pebble"))
        runs.append(("exh2", "-exh 2 -types khszl -policy local -xcounters", "mem"))
        runs.append(("exh3-ttl", "-exh 3 -types HSZLK -policy compact -xcounters", "mem"))
        # one pass of the local_deletion expiry sweep, then at once a write to the swept key
        runs.append(("sweep", "-sweep -types hszlk", "mem"))
        runs.append(("sweep-pebble", "-sweep -types hszlk -seed 7", "pebble"))
        # third leg: the same kind of sequences over the redis protocol of a real single-replica server (proposer-side handlers)
        runs.append(("live", "-live -seed %d -n 400 -len 30 -types khszl" % (seed + 15485863), "mem"))
    else:
        runs.append(("rand-mem", "-seed %d -n 12000 -len 60 -types khszl -policy mix -counters" % seed, "mem"))
        runs.append(("rand-mem-long", "-seed %d -n 1500 -len 300 -types khszl -policy mix -counters" % (seed + 31), "mem"))
        runs.append(("rand-pebble", "-seed %d -n 5000 -len 60 -types khszl -policy mix -counters" % (seed + 7919), "pebble"))
        runs.append(("rand-rocksdb", "-seed %d -n 1500 -len 60 -types khszl -policy mix -counters" % (seed + 104729), "rocksdb"))
        runs.append(("exh3-local", "-exh 3 -types hszl -policy local -xcounters", "mem"))
        runs.append(("exh3-compact", "-exh 3 -types hsz -policy compact -xcounters", "mem"))
        runs.append(("exh4-ttl-compact", "-exh 4 -types HSZLK -policy compact -xcounters", "mem"))
        runs.append(("exh3-ttl-local", "-exh 3 -types HSZLK -policy local -xcounters", "mem"))
        runs.append(("sweep", "-sweep -types hszlk", "mem"))
        runs.append(("sweep-pebble", "-sweep -types hszlk -seed 7", "pebble"))
        runs.append(("sweep-rocksdb", "-sweep -types hszlk -seed 9", "rocksdb"))
        runs.append(("live", "-live -seed %d -n 3000 -len 40 -types khszl" % (seed + 15485863), "mem"))
        runs.append(("live-pebble", "-live -seed %d -n 300 -len 40 -types khszl" % (seed + 32452843), "pebble"))
    return runs


# ---------------------------------------------------------------- big collections (RangeDeleteNum boundary)
def big_plan(ctx):
    """(sub, datasim args) of the big-collection class. Every case set runs on mem, pebble AND rocksdb (two of the
    removal paths differ per engine: DeleteRange, IgnoreRangeDeletions); the model runs once per case set."""
    if ctx.tier == "quick":
        return [("biglist", "-biglist -policy mix"),
                ("big-hsl", "-big 4999,5000,5001 -types hsl -policy local"),
                ("big-z1", "-big 5001 -types z -policy local"),
                ("big-z0", "-big 4999,5000 -types z -policy local -bigfirst")]
    return [("biglist", "-biglist -policy mix"),
            ("big-h", "-big 4999,5000,5001 -types h -policy mix"),
            ("big-s", "-big 4999,5000,5001 -types s -policy mix"),
            ("big-l", "-big 4999,5000,5001,10001 -types l -policy mix"),
            ("big-z-local-a", "-big 4999,5000 -types z -policy local"),
            ("big-z-local-b", "-big 5001 -types z -policy local"),
            ("big-z-compact", "-big 5000,5001 -types z -policy compact")]


def big_start(ctx):
    """generate + run on mem, start the model in the background; returns handles for big_collect"""
    import subprocess
    hs = []
    for sub, args in big_plan(ctx):
        d = run_datasim(ctx, sub, args + " -engine mem")
        mo = open(os.path.join(d, "model.out"), "w")
        p = subprocess.Popen([vlib.modelrun_path("Data")], stdin=open(os.path.join(d, "cases.tsv")), stdout=mo, cwd=d)
        hs.append((sub, d, p, mo))
    return hs


def big_collect(ctx, hs):
    res = []
    for sub, d, p, mo in hs:
        # the other engines replay the same lines while the model is still running
        dirs = [("mem", d)]
        for eng in ("pebble", "rocksdb"):
            dirs.append((eng, run_datasim(ctx, sub + "-" + eng, "-replay %s -engine %s" % (os.path.join(d, "cases.tsv"), eng))))
        rc = p.wait(timeout=2400)
        mo.close()
        if rc != 0:
            log("MODEL RUN FAILED on %s" % sub)
            raise SystemExit(2)
        order, cases = parse_cases(os.path.join(d, "cases.tsv"))
        mraw, _ = vlib.read_out(os.path.join(d, "model.out"))
        mmap, mspec = {}, {}
        for k, v in mraw.items():
            mmap[k], mspec[k] = spec_of(v)
        for eng, dd in dirs:
            impl, _ = vlib.read_out(os.path.join(dd, "impl.out"))
            res.append(dict(dir=dd, order=order, cases=cases, impl=impl, map=mmap, spec=mspec, engine=eng))
    return res


def corpus_lines(prop_dirs):
    lines = []
    for pd in prop_dirs:
        d = os.path.join(vlib.VERIF, "corpus", pd)
        if not os.path.isdir(d):
            continue
        for fn in sorted(os.listdir(d)):
            if fn.endswith(".tsv"):
                lines += [l.rstrip("\n") for l in open(os.path.join(d, fn)) if l.strip()]
    return lines


def prepare(ctx, prop, targets):
    """build harness, regenerate constants, re-check proofs, build the extracted model"""
    build_harness()
    vlib.regen_consts("Data", BINNAME)
    proofs_ok, info = ctx.check_proofs(make_targets=targets + ["Properties/%s.vo" % prop],
                                       gate_paths=["Data", "Common", "Properties/%s" % prop])
    mok, mout, _ = vlib.model_build("Data")
    if not mok:
        log("MODEL BUILD FAILED:\n" + mout[-3000:])
        raise SystemExit(2)
    return proofs_ok


def all_runs(ctx, corpus_dirs):
    """corpus first, then the tier's plan (or only the replay)"""
    res = []
    if ctx.replay:
        import json
        rp = json.load(open(ctx.replay))
        lines = (rp.get("case") or {}).get("cases_tsv") or rp.get("cases_tsv") or []
        p = os.path.join(ctx.run_dir, "replay_in.tsv")
        with open(p, "w") as f:
            f.write("\n".join(lines) + "\n")
        eng = (rp.get("case") or {}).get("engine", "mem")
        res.append(run_pair(ctx, "replay", "-replay " + p, eng))
        return res
    big = big_start(ctx)
    cl = corpus_lines(corpus_dirs)
    if cl:
        p = os.path.join(ctx.run_dir, "corpus_in.tsv")
        with open(p, "w") as f:
            f.write("\n".join(cl) + "\n")
        res.append(run_pair(ctx, "corpus", "-replay " + p, "mem"))
    for sub, args, eng in plan(ctx):
        res.append(run_pair(ctx, sub, args, eng))
    res += big_collect(ctx, big)
    return res


def mismatches_of(r):
    """impl vs Map model"""
    mm = []
    for cid in r["order"]:
        if r["impl"].get(cid) != r["map"].get(cid):
            mm.append((r["dir"].split("/")[-1] + ":" + cid, r["impl"].get(cid), r["map"].get(cid)))
    return mm


def histogram(runs):
    h = {}
    for r in runs:
        for cid in r["order"]:
            c = r["cases"][cid]
            if c[0] == "W":
                a = args_of(c[4])
                nm = a[0].decode("latin1").lower() if a else "?"
                h[nm] = h.get(nm, 0) + 1
                if has_dup_args(c):
                    h["(repeated argument)"] = h.get("(repeated argument)", 0) + 1
                if c[1] != "0":
                    h["(grouped:%s)" % c[2]] = h.get("(grouped:%s)" % c[2], 0) + 1
                if r["impl"].get(cid) == "-err":
                    h["(error reply)"] = h.get("(error reply)", 0) + 1
            elif c[0] == "R":
                h["(reads)"] = h.get("(reads)", 0) + 1
            elif c[0] == "S":
                h["(sequences:%s:%s)" % (r["engine"], c[1])] = h.get("(sequences:%s:%s)" % (r["engine"], c[1]), 0) + 1
    return h


def shrunk_case(ctx, r, cid, oracle):
    """the sequence up to cid, shrunk while oracle still fails; returns the case lines"""
    seq = cid.split(".")[0]
    lines = seq_lines(r["order"], r["cases"], seq, upto=cid)
    if seq.startswith("b") or seq.startswith("s") or seq.startswith("l"):
        # big-collection sequences: a handful of lines, the commands carry thousands of members; keep them as they are
        return [l if len(l) < 4000 else l[:4000] + "...(%d characters)" % len(l) for l in lines]
    try:
        return shrink(ctx, lines, r["engine"], oracle, budget=80)
    except Exception:
        return lines
