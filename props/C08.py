"""C08 — commands behave like Redis on ZanRedisDB's per-type keyspaces (reference model Spec)."""
import os

import vlib
import _data
from vlib import log


def spec_failures(r, limit=40):
    """the property itself on the implementation's outputs: every reply and every observation / dump of the
    real state machine equals the reference model's (Spec leg of the extracted driver)"""
    fails = []
    seen = set()
    for cid in r["order"]:
        want = r["spec"].get(cid)
        got = r["impl"].get(cid)
        if want == got:
            continue
        c = r["cases"][cid]
        kind = c[0]
        if kind == "W":
            nm = _data.args_of(c[4])[0].decode("latin1").upper()
        elif kind == "R":
            nm = _data.args_of(c[1])[0].decode("latin1").upper()
        else:
            nm = "state after " + kind
        sig = "reply of %s differs from the reference model" % nm if kind in ("W", "R") else "data differs from the reference model (%s line)" % kind
        if sig in seen:
            continue
        seen.add(sig)
        fails.append(dict(name="c08-" + cid.replace(".", "_"), cid=cid, signature=sig,
                          what="%s: implementation %s, reference model %s" % (_data.cmd_text(c)[:120], (got or "")[:160], (want or "")[:160])))
        if len(fails) >= limit:
            break
    return fails


def oracle_fn_for(ctx):
    def fn(order, cases, impl):
        # re-run the model on the same lines (shrinking re-executes the harness only; the model is cheap)
        d = os.path.join(ctx.run_dir, "shrink")
        rc, out, _ = vlib.sh("%s < cases.tsv > model.out" % vlib.modelrun_path("Data"), cwd=d, timeout=120)
        if rc != 0:
            return []
        mraw, _ = vlib.read_out(os.path.join(d, "model.out"))
        r = dict(order=order, cases=cases, impl=impl, spec={k: _data.spec_of(v)[1] for k, v in mraw.items()})
        return spec_failures(r)
    return fn


def run(ctx):
    proofs_ok = _data.prepare(ctx, "C08", ["Data/C08Proofs.vo", "Data/Batch.vo"])
    runs = _data.all_runs(ctx, ["C08", "C09"])
    all_mism, all_fail, total, distinct, samples = [], [], 0, set(), []
    orc = oracle_fn_for(ctx)
    for r in runs:
        all_mism += _data.mismatches_of(r)
        total += len(r["order"])
        for cid in r["order"]:
            c = r["cases"][cid]
            if c[0] in ("W", "R") and r["impl"].get(cid) not in ("_", ":0", "*0", "-err", "$-"):
                distinct.add(vlib.case_hash(cid.split(".")[0] + "\t".join(c) + (r["impl"].get(cid) or "")))
        for f in spec_failures(r):
            lines = _data.shrunk_case(ctx, r, f["cid"], orc)
            f["case"] = dict(cases_tsv=lines, engine=r["engine"])
            all_fail.append(f)
        ids = [c for c in r["order"] if r["cases"][c][0] in ("W", "R")]
        for cid in ids[:1] + ids[-1:]:
            samples.append(dict(run=os.path.basename(r["dir"]), cmd=_data.cmd_text(r["cases"][cid])[:200], impl=(r["impl"].get(cid) or "")[:200]))

    def search():
        rr = _data.run_pair(ctx, "search", "-seed %d -n 6000 -len 60 -types khszl -policy mix" % (ctx.seed + 1000003), "mem")
        out = []
        for f in spec_failures(rr, limit=5):
            f["case"] = dict(cases_tsv=_data.shrunk_case(ctx, rr, f["cid"], orc), engine="mem")
            out.append(f)
        return out

    vlib.standard_verdict(ctx, proofs_ok, [(m[0], m[1], m[2]) for m in all_mism], all_fail, search_fn=search,
                          corr_name="Data/Map*.v (extracted, rockredis algorithm) vs node.StateMachine + rockredis; Data/Spec*.v is the oracle")
    ctx.finish(dict(
        traces_validated_against_impl=total,
        evaluations=total,
        distinct_nontrivial=len(distinct),
        rule="one evaluation = one line (reply of a write through ApplyRaftRequest, reply of a read through the production handler, "
             "observation of one collection, or the logical dump at the end of a sequence) compared between the real state machine, "
             "the extracted Map model and the extracted Spec model; non-trivial = a write/read whose reply is not nil/0/empty/error; "
             "distinct by hash of (sequence, command, reply). Inputs: corpus/C08+C09, random sequences over adversarial pools for "
             "strings, hashes, sets, sorted sets and lists mixed with their EXPIRE/PERSIST/SETEX/TTL commands (both expiry policies, three apply modes), "
             "exhaustive short sequences over a tiny alphabet per type (with and without expiry commands), big collections around RangeDeleteNum "
             "(built, removed, re-created on mem / pebble / rocksdb), LIMIT probes on the zset range reads; T / E lines = table key counter and engine keys per class",
        histogram=_data.histogram(runs),
        mismatches=len(all_mism),
        samples=samples[:6],
    ), assumptions=[
        "raft timestamps of successive entries strictly increasing and positive (needed under wait_compact only: generation = timestamp of the re-creation, open finding of C10)",
        "expiry: writes decide with the raft timestamp, reads with the wall clock of the harness (recorded in the case, TTL replies re-based to it); generated timestamps are in 2023 and durations are a few seconds, ~63 years or invalid, so no expiry second is within hours of the read clock; "
        "under local_deletion the background sweep is not started (property C10): expiry is invisible to commands there, as documented",
        "declared TTL reply conventions of ZanRedisDB in the reference model: TTL of a missing key is -1, PERSIST of a key without expiry replies 1, expiry seconds >= 2^32-2 are refused",
        "bitmap/HLL/JSON/geo commands, MSET/PLSET and the *MCLEAR internals are not generated (out of the documented KV-hash-list-set-zset core)",
        "keys well-formed table:key; scores integer-valued doubles or infinities, -0 printed as 0 (ZSCORE prints the sign the member key stores, ZRANGE does not); SETRANGE offsets >= 0",
        "commands enter at the state machine (after the node layer's arity / number-syntax validation); replies are the state machine's values (e.g. SET -> 1, HMSET -> nil), reads the handlers' RESP values",
    ])
