"""C15 — every key is served by exactly one partition, the one clients compute."""
import json
import os
import shutil

import vlib
from vlib import sh, log


def parse_cases(path):
    cases = {}
    for line in open(path):
        p = line.rstrip("\n").split("\t")
        cases[p[0]] = p[1:]
    return cases


def unh(s):
    return b"" if s in ("-", "") else bytes.fromhex(s)


def oracle(cases, impl):
    """The property itself evaluated on the implementation's outputs (no model involved)."""
    fails = []
    hist = {}
    for cid, c in cases.items():
        out = impl.get(cid)
        kind = c[0]
        hist[kind] = hist.get(kind, 0) + 1
        if out is None:
            fails.append(dict(name="missing-" + cid, case=c, what="no implementation output"))
            continue
        if kind == "H":
            n = int(c[2])
            toks = out.split(" ")
            if n == 0:
                continue  # partition count 0 is outside the property (Go division panic)
            if len(toks) != 2 or not toks[1].isdigit():
                fails.append(dict(name="hash-" + cid, case=dict(key=c[1], pnum=n, impl=out),
                                  what="server, redis front end (GetPKAndHashSum) and SDK disagree on the partition, or the mapping panicked: " + out))
            elif not (0 <= int(toks[1]) < n):
                fails.append(dict(name="range-" + cid, case=dict(key=c[1], pnum=n, impl=out),
                                  what="partition index out of range"))
        elif kind == "G":
            if out in ("owner-mismatch", "misplaced-key"):
                fails.append(dict(name="owner-" + cid, case=dict(keys=c[2], impl=out),
                                  what="a key is stored or dispatched outside the partition its hash selects: " + out))
        elif kind == "P":
            fl = c[2].split(",") if c[2] else []
            pairs = list(zip(fl[0::2], fl[1::2]))
            last = {}
            for k, v in pairs:
                last[k] = v
            want = "%d %s" % (len(pairs), ",".join("%s=%s" % (k, last[k]) for k in sorted(last, key=lambda h: unh(h))))
            if out != want:
                fails.append(dict(name="plset-" + cid, case=dict(pairs=c[2], impl=out, single_store=want),
                                  what="pipelined SETs merged into PLSET: replies or stored values differ from the single-store result, or a key is stored outside its partition"))
        elif kind == "L":
            if out.startswith("sdk-mismatch"):
                fails.append(dict(name="life-" + cid, case=dict(events=c[1], impl=out),
                                  what="after a namespace lifecycle history a key is served by a partition other than the one the client computes from the newest configured partition count: " + out))
        elif kind == "E":
            toks = out.split(" ")
            miss = int(toks[1].split("=")[1]) if len(toks) == 2 and toks[1].startswith("missing=") else -1
            nk = len(c[3].split(",")) if c[3] else 0
            if miss < 0 or (miss > 0 and toks[0] != "rejected") or (miss == 0 and toks[0] != str(nk)):
                fails.append(dict(name="partial-" + cid, case=dict(keys=c[3], impl=out),
                                  what="merged EXISTS over keys of which some belong to a partition not hosted here must be rejected as a whole (never a partial count); with all partitions hosted it must count every key: " + out))
        elif kind == "Q":
            if out != " ".join(["rejected/1/1 1/1"] * 5):
                fails.append(dict(name="leak-" + cid, case=dict(keys=c[3], impl=out),
                                  what="a merged command naming a key of a non-hosted partition must be rejected with no effect, and must not leak into the next merged command on the connection (want 5x 'rejected/1/1 1/1'): " + out))
        elif kind == "T":
            # direct oracle, independent of the model: an MGET is rejected or answers, for every key, the value SET
            # before (all keys of a case are private to it), never nil for a key that was set
            sets = c[2].split(",") if c[2] else []
            val = {sets[i]: sets[i + 1] for i in range(0, len(sets) - 1, 2)}
            if out != "rejected":
                want = ",".join((val[k] + ".") if k in val else "-" for k in c[3].split(","))
                if out != want:
                    fails.append(dict(name="mget-" + cid, case=dict(sets=c[2], keys=c[3], impl=out),
                                      what="MGET answered %s, one store holding all the data answers %s (a key owned by another partition must make the command fail, not read as missing)" % (out, want)))
        elif kind == "N":
            want = " ".join((bytes.fromhex(d.split("/")[0]) + b"-" + d.split("/")[1].encode()).hex() for d in c[1].split(","))
            if out != want:
                fails.append(dict(name="groupname-" + cid, case=dict(desc=c[1], impl=out),
                                  what="a key of namespace/partition %s must be held by exactly its own replica group (%s), got %s" % (c[1], want, out)))
        elif kind == "U":
            res, _, ow = out.partition(" owners=")
            owners = ow.split(",") if ow else []
            hosted = set(c[2].split(","))
            must_reject = len(set(owners)) != 1 or any(o not in hosted for o in owners)
            if (res == "served") == must_reject:
                fails.append(dict(name="mgetpartial-" + cid, case=dict(keys=c[3], hosted=c[2], impl=out),
                                  what="MGET on a node hosting partitions {%s}: the keys' owners (client SDK) are %s, the command was %s — it must be answered iff one hosted partition owns every key" % (c[2], ow, res)))
        elif kind == "B":
            nkeys = len(c[2].split(","))
            if out not in ("err err", "1 1") or (nkeys <= 5001 and out != "1 1") or (nkeys > 5001 and out != "err err"):
                fails.append(dict(name="limit-" + cid, case=dict(nkeys=nkeys, impl=out),
                                  what="merged EXISTS/DEL with one part of %d keys (+1 stored key of another partition): want the complete count below the limit and an error above it, never the other partition's count alone: %s" % (nkeys - 1, out)))
        elif kind == "S":
            if out != "ok":
                fails.append(dict(name="slowpart-" + cid, case=dict(tag=c[1], impl=out),
                                  what="merged DEL over two partitions while one is busy answered a partial count: " + out))
        elif kind == "R":
            if out not in ("ok", "rejected"):
                fails.append(dict(name="route-" + cid, case=dict(key=c[3], impl=out),
                                  what="a command for a partition not hosted here was executed elsewhere (or acknowledged without effect): " + out))
        elif kind == "D":
            st = set(c[2].split(",")) if c[2] else set()
            ks = c[3].split(",") if c[3] else []
            want_ex = sum(1 for k in ks if k in st)
            want_del = len(set(ks) & st)
            if out != "%d %d" % (want_ex, want_del):
                fails.append(dict(name="merge-" + cid, case=dict(store=c[2], keys=c[3], impl=out,
                                                                 single_store="%d %d" % (want_ex, want_del)),
                                  what="merged EXISTS/DEL reply differs from the single-store reply"))
    return fails, hist


def run_impl(ctx, seed, n, nmerge, sub):
    d = os.path.join(ctx.run_dir, sub)
    shutil.rmtree(d, ignore_errors=True)
    os.makedirs(d)
    port = 23000 + (os.getpid() % 500) * 10
    if ctx.replay and sub == "replay":
        cmd = "%s -replay %s -out %s -port %d" % (os.path.join(vlib.BIN, "part"), ctx.replay_cases, d, port)
    else:
        cmd = "%s -seed %d -n %d -nmerge %d -nlife %d -out %s -port %d" % (os.path.join(vlib.BIN, "part"), seed, n, nmerge, max(3, nmerge // 30), d, port)
    rc, out, dt = sh(cmd, cwd=d, timeout=1200)
    if rc == 3:
        # one retry: cluster start is time-dependent
        rc, out, dt = sh(cmd, cwd=d, timeout=1200)
    if rc != 0:
        return None, out
    rc2, out2, dt2 = sh("%s < cases.tsv > model.out" % vlib.modelrun_path("Part"), cwd=d, timeout=1200)
    if rc2 != 0:
        return None, out2
    return d, ""


def run(ctx):
    quick = ctx.tier == "quick"
    ok, out, _ = vlib.go_build("part")
    if not ok:
        log("BUILD FAILED (harness part):\n" + out[-3000:])
        raise SystemExit(2)
    vlib.regen_consts("Part", "part")
    proofs_ok, info = ctx.check_proofs(make_targets=["Part/Proofs.vo", "Part/NsMetaProofs.vo", "Properties/C15.vo"], gate_paths=["Part", "Common", "Properties/C15"])
    mok, mout, _ = vlib.model_build("Part")
    if not mok:
        log("MODEL BUILD FAILED:\n" + mout[-3000:])
        raise SystemExit(2)

    n, nmerge = (3000, 120) if quick else (60000, 1500)
    runs = []
    if ctx.replay:
        rp = json.load(open(ctx.replay))
        ctx.replay_cases = os.path.join(ctx.run_dir, "replay_cases.tsv")
        with open(ctx.replay_cases, "w") as f:
            for line in rp.get("cases_tsv", []):
                f.write(line + "\n")
        runs.append(("replay", 0, 0))
    else:
        runs.append(("fresh", n, nmerge))
    all_mism, all_fail, total, hist_all, samples, distinct = [], [], 0, {}, [], set()
    for sub, nn, nm in runs:
        d, err = run_impl(ctx, ctx.seed, nn, nm, sub)
        if d is None:
            if "INCONCLUSIVE" in err:
                ctx.notes.append("server start inconclusive twice; merge cases skipped")
                d, err = run_impl(ctx, ctx.seed, nn, 0, sub)
            if d is None:
                log("HARNESS RUN FAILED:\n" + err[-3000:])
                raise SystemExit(2)
        mism, cnt = vlib.diff_outputs(os.path.join(d, "impl.out"), os.path.join(d, "model.out"))
        cases = parse_cases(os.path.join(d, "cases.tsv"))
        impl, _ = vlib.read_out(os.path.join(d, "impl.out"))
        fails, hist = oracle(cases, impl)
        for f in fails:
            cid = f["name"].split("-", 1)[1]
            base = cid.split(".")[0]
            f["case"]["cases_tsv"] = ["\t".join([k] + v) for k, v in cases.items() if k.split(".")[0] == base]
        for m in mism:
            pass
        all_mism += [(m[0], m[1], m[2], "\t".join([m[0]] + cases.get(m[0], []))) for m in mism]
        all_fail += fails
        total += cnt
        for k, v in hist.items():
            hist_all[k] = hist_all.get(k, 0) + v
        for cid, c in cases.items():
            # non-trivial: non-empty key and pnum > 1 for hashes, key list with >= 2 keys for merges
            if (c[0] == "H" and c[1] != "-" and c[2] not in ("0", "1")) or (c[0] in ("G", "D", "P") and "," in c[-1]) or c[0] in ("X", "R", "L", "E", "Q", "S", "T", "B", "N", "U"):
                distinct.add(vlib.case_hash("\t".join(c)))
        ids = list(cases.keys())
        for cid in ids[:2] + ids[-2:]:
            samples.append(dict(case=cases[cid], impl=impl.get(cid)))

    def search():
        # larger generation with the direct oracle only
        d2, err = run_impl(ctx, ctx.seed + 1000003, 40000, 600, "search")
        if d2 is None:
            return []
        cases = parse_cases(os.path.join(d2, "cases.tsv"))
        impl, _ = vlib.read_out(os.path.join(d2, "impl.out"))
        fails, _ = oracle(cases, impl)
        for f in fails:
            cid = f["name"].split("-", 1)[1]
            base = cid.split(".")[0]
            f["case"]["cases_tsv"] = ["\t".join([k] + v) for k, v in cases.items() if k.split(".")[0] == base]
        return fails

    mm = [(m[0], m[1], m[2]) for m in all_mism]
    vlib.standard_verdict(ctx, proofs_ok, mm, all_fail, search_fn=search,
                          corr_name="Part/Model.v vs node.GetHashedPartitionID / go-zanredisdb / common.ExtractNamesapce / server merge dispatch")
    ctx.finish(dict(
        traces_validated_against_impl=total,
        evaluations=total,
        distinct_nontrivial=len(distinct),
        rule="cases from one seeded PRNG: H = (key, partition count) with keys of length 0..40 incl. all tail lengths and high bytes, "
             "counts 1..1024 (4 keys exhaustively over all counts); X = raw keys for namespace extraction (valid and malformed); "
             "G/D = merged DEL/EXISTS on a live 6-partition (even, not a power of two) in-process server with duplicate-laden key lists; P = pipelined SETs merged into PLSET across partitions; "
             "L = namespace lifecycle histories (partitions initialised/destroyed, namespace re-created with another partition count) with routing probed after every event; R = SET routed to a namespace whose partition 3 is not hosted (must be rejected, never executed elsewhere). "
             "Non-trivial = non-empty key with count > 1, any X, or a merge with >= 2 keys; distinct by hash of the case.",
        histogram=hist_all,
        mismatches=len(all_mism),
        samples=samples[:6],
    ), assumptions=[
        "int is 64 bits (so int(uint32) is non-negative), as on every platform ZanRedisDB builds for",
        "the live-server merge cases use the mem engine and one replica per partition",
    ])
