"""C01 — at most one raft leader per term; learners neither lead nor vote (raft; shared driver in props/_raft.py)."""
import _raft


def run(ctx):
    _raft.run(ctx, "C01")
