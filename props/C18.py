"""C18 — replica migration never drops a partition below a safe quorum."""
import json
import os
import re
import shutil

import vlib
from vlib import sh, log

COMPOSED = ("C", "CS", "M", "B", "P", "W")   # control flows that decide by themselves (raw D/R/F are the bare procedures)


def parse_info(s):
    """'n=1,2 i=1:3,2:4 r=2:4:1000 m=5 l=101' -> dict"""
    m = re.match(r"n=(\S+) i=(\S+) r=(\S+) m=(-?\d+) l=(\S+)", s)
    if not m:
        raise ValueError("bad info: " + s)
    lst = lambda x: [] if x == "-" else x.split(",")
    nodes = [int(x) for x in lst(m.group(1))]
    ids = [tuple(int(y) for y in x.split(":")) for x in lst(m.group(2))]
    rms = [tuple(int(y) for y in x.split(":")) for x in lst(m.group(3))]
    return dict(nodes=nodes, ids=ids, rm=rms, max=int(m.group(4)), lrn=[int(x) for x in lst(m.group(5))])


def parse_out(o):
    ret, w, st = o.split(" | ")
    atts = []
    for m in re.finditer(r"\{p=(\d+) ([^}]*) g=(\d+) (ok|fail)\}", w):
        a = parse_info(m.group(2))
        a["pid"] = int(m.group(1))
        a["gen"] = int(m.group(3))
        a["ok"] = m.group(4) == "ok"
        atts.append(a)
    sm = re.match(r"reg\[(.*)\] un=(\d) au=(\d) ne=(\d+) st=(\d+) dn=(\S+) rn=(\S+) fail=(\d+) ln=(\S+) ls=(\S+) rp=(\d+) up=(\d) md=(\d)", st)
    if not sm:
        raise ValueError("bad state: " + st)
    parts = {}
    for ps in sm.group(1).split(" ; "):
        pm = re.match(r"(\d+):(.*) e=(\d+) w=(\S+)$", ps)
        parts[int(pm.group(1))] = parse_info(pm.group(2))
    state = dict(parts=parts, unstable=sm.group(2) == "1",
                 dn=[] if sm.group(6) == "-" else [int(x) for x in sm.group(6).split(",")],
                 rn=sm.group(7), rp=int(sm.group(11)), up=sm.group(12) == "1")
    return ret, atts, state


def isr_of(w):
    rmk = [r[0] for r in w["rm"]]
    return [n for n in w["nodes"] if n not in rmk]


def quorum(w, replica):
    return len(isr_of(w)) > replica // 2


def inv_fail(w, replica, with_quorum=True):
    """the invariant of the property on one value passed to the register; returns None or the failed clause"""
    nodes, ids, rm = w["nodes"], w["ids"], w["rm"]
    if len(rm) > 1:
        return "more than one replica marked for removal"
    isr = isr_of(w)
    if with_quorum and not len(isr) > replica // 2:
        return "remaining replicas %d not a strict majority of replication factor %d" % (len(isr), replica)
    if len(set(nodes)) != len(nodes):
        return "a node holds two replicas"
    idv = [i[1] for i in ids]
    if len(set(idv)) != len(idv):
        return "two replicas share a raft id"
    if any(v > w["max"] for v in idv):
        return "a raft id exceeds MaxRaftID"
    if len(set(w["lrn"])) != len(w["lrn"]) or set(w["lrn"]) & set(nodes):
        return "learner list has duplicates or overlaps the voters"
    if sorted(i[0] for i in ids) != sorted(nodes + w["lrn"]):
        return "RaftIDs keys differ from RaftNodes + learners"
    idm = dict(ids)
    for (n, rid, _t) in rm:
        if n not in nodes:
            return "a removing entry for a non-member"
        if idm.get(n) != rid:
            return "removing entry carries the wrong replica id"
    return None


def oracle_sequence(sid, lines, outs):
    """lines: [(id, kind, fields)], outs: {id: out}. The property itself on the implementation's writes,
    per partition (every partition is its own raft group with its own ids)."""
    fails = []
    stats = dict(writes=0, ok_writes=0, adds=0, marks=0, finishes=0, swaps=0, panics=0, learner_changes=0,
                 factor_changes=0, below_raised_factor=0, rounds_touching_2plus=0)
    replica = None
    ans = {}       # (pid, node) -> (members, synced)
    stored = {}    # pid -> info
    dn = []
    ever = {}      # pid -> {raft id -> node}
    maxseen = {}

    def fail(cid, what, extra):
        fails.append(dict(name="%s-%s" % (what.split(":")[0].replace(" ", "_")[:40], cid), what=what,
                          case=dict(at=cid, **extra)))

    for (cid, kind, f) in lines:
        out = outs.get(cid)
        if out is None:
            fail(cid, "missing implementation output", {})
            break
        ret, atts, state = parse_out(out)
        if kind == "I":
            replica = int(f[0])
            stored = dict(state["parts"])
            for pid, info in stored.items():
                ever[pid] = {i: n for (n, i) in info["ids"]}
                maxseen[pid] = info["max"]
                bad = inv_fail(info, replica)
                if bad:
                    # the generator must start from a valid layout; not a finding about the code
                    fail(cid, "harness: initial layout invalid: " + bad, {})
            if fails:
                break
            continue
        if kind == "A":
            for fld in f:
                pid, rest = fld.split("@", 1)
                for p in rest.split(";"):
                    k, v = p.split("=", 1)
                    if v == "!":
                        ans.pop((int(pid), int(k)), None)
                    else:
                        ms, sy = v.split("/")
                        ans[(int(pid), int(k))] = (ms, sy == "1")
        if ret == "panic":
            stats["panics"] += 1
        before = dict(stored)
        per_part = {}
        for wi, w in enumerate(atts):
            pid = w["pid"]
            per_part[pid] = per_part.get(pid, 0) + 1
            b = before[pid]
            a = lambda n: ans.get((pid, n), ("x", False))
            stats["writes"] += 1
            # the factor may have been raised by ChangeNamespaceMetaParam: then the stored value itself need not be a
            # majority of it any more; what the code guarantees is (i) a majority is never lost by a write and
            # (ii) a write that shrinks the non-removing set leaves a majority of the factor in effect
            bad = inv_fail(w, replica, with_quorum=False)
            if not bad and quorum(b, replica) and not quorum(w, replica):
                bad = "a write lost the strict majority: %d remaining of replication factor %d" % (len(isr_of(w)), replica)
            if not bad and len(isr_of(w)) < len(isr_of(b)) and not quorum(w, replica):
                bad = "a write shrank the non-removing replicas to %d, not a strict majority of %d" % (len(isr_of(w)), replica)
            if not bad and not quorum(w, replica):
                stats["below_raised_factor"] += 1
            if bad:
                fail(cid, "invariant: " + bad, dict(kind=kind, before=b, written=w, replica=replica))
            if w["max"] < b["max"]:
                fail(cid, "MaxRaftID decreased", dict(kind=kind, before=b, written=w))
            added = [n for n in w["nodes"] if n not in b["nodes"]]
            bisr = isr_of(b)
            if len(added) > 1:
                fail(cid, "one-at-a-time: more than one node added in one write", dict(kind=kind, before=b, written=w))
            if added:
                stats["adds"] += 1
                # W: the first update is the concurrent bare add that makes the caller's snapshot stale; the add under
                # test is what addNodeToNamespaceAndWaitReady does afterwards
                if kind in COMPOSED and not (kind == "W" and wi == 0 and added == [int(f[1])]):
                    # "full ready": every current replica answers, reports synced, and lists every current replica
                    # (node, raft id) as a member
                    idm = dict(b["ids"])
                    want = ["%d:%d" % (n, idm.get(n, 0)) for n in bisr]
                    uns = [n for n in bisr if not a(n)[1] or a(n)[0] in ("x", "n")
                           or any(x not in (a(n)[0].split(",") if a(n)[0] not in ("-", "x", "n") else []) for x in want)]
                    if uns:
                        fail(cid, "add-when-unsynced: a node was added while replicas %s did not answer synced / full ready" % uns,
                             dict(kind=kind, before=b, written=w, answers={"%d/%d" % k: v for k, v in ans.items()}))
                if b["rm"]:
                    fail(cid, "add-while-removing: a node was added while a removal is pending", dict(kind=kind, before=b, written=w))
            newrm = [r[0] for r in w["rm"] if r[0] not in [x[0] for x in b["rm"]]]
            if newrm:
                stats["marks"] += 1
                # reachable = what the data node actually answers (the stub), for the check path also registered:
                # a registered node that hangs or answers not-synced is NOT alive
                answering = [n for n in b["nodes"] if a(n)[1]]
                reachable = [n for n in answering if n in dn]
                if kind in ("C", "CS", "M") and not len(reachable) > replica // 2:
                    fail(cid, "removal-marked-without-alive-majority: reachable (registered and answering synced) replicas %s of %s, replication %d" % (reachable, b["nodes"], replica),
                         dict(kind=kind, before=b, written=w, data_nodes=dn,
                              answers={str(n): list(a(n)) for n in b["nodes"]}))
                if kind in ("B", "P") and not len(answering) > replica // 2:
                    fail(cid, "removal-marked-with-majority-unreachable: replicas answering synced %s of %s, replication %d" % (answering, b["nodes"], replica),
                         dict(kind=kind, before=b, written=w, data_nodes=dn))
            gone = [n for n in b["nodes"] if n not in w["nodes"]]
            if len(added) + len(gone) > 1:
                fail(cid, "membership-step: the replica set changed by more than one member in one write", dict(kind=kind, before=b, written=w))
            if gone:
                stats["finishes"] += 1
                if any(n not in [r[0] for r in b["rm"]] for n in gone):
                    fail(cid, "replica dropped without having been marked removing", dict(kind=kind, before=b, written=w))
            if sorted(w["nodes"]) == sorted(b["nodes"]) and w["nodes"] != b["nodes"]:
                stats["swaps"] += 1
            if w["lrn"] != b["lrn"]:
                stats["learner_changes"] += 1
                if kind[0] != "L":
                    fail(cid, "learner list changed by the main placement driver", dict(kind=kind, before=b, written=w))
            elif kind[0] == "L" and (w["nodes"] != b["nodes"] or w["rm"] != b["rm"]):
                fail(cid, "the learner driver changed the voter set or the removal marks", dict(kind=kind, before=b, written=w))
            if w["ok"]:
                stats["ok_writes"] += 1
                bids = set(b["ids"])
                for (n, i) in w["ids"]:
                    if (n, i) in bids:
                        continue
                    # a newly assigned id: never seen before in the history of this partition, above every id ever used
                    if i in ever[pid] or i <= maxseen[pid]:
                        fail(cid, "raft-id-reuse: id %d assigned to node %d was used before (history max %d)" % (i, n, maxseen[pid]),
                             dict(kind=kind, before=b, written=w))
                for (n, i) in w["ids"]:
                    ever[pid][i] = n
                maxseen[pid] = max(maxseen[pid], w["max"])
                before[pid] = {k: v for k, v in w.items() if k in ("nodes", "ids", "rm", "max", "lrn")}
        # what one round may touch: a check at most two updates per partition (finish a removal + one migration step);
        # a balance round (stopped at its first update) and a node-removal round one partition, one update
        if kind in ("C", "CS") and any(c > 2 for c in per_part.values()):
            fail(cid, "round-limit: a check round made more than two updates to one partition", dict(kind=kind, per_partition=per_part))
        if kind in ("B", "P") and (len(per_part) > 1 or sum(per_part.values()) > 1):
            fail(cid, "round-limit: a balance / node-removal round touched more than one partition or made more than one update",
                 dict(kind=kind, per_partition=per_part))
        if len(per_part) > 1:
            stats["rounds_touching_2plus"] += 1
        stored = state["parts"]
        for pid in stored:
            if any(stored[pid][k] != before[pid][k] for k in ("nodes", "ids", "rm", "max", "lrn")):
                # the register content must be the last successful write (time stamps projected)
                fail(cid, "harness: register content is not the last successful write", dict(partition=pid, stored=stored[pid], last=before[pid]))
        dn = state["dn"]
        if state["rp"] != replica:
            stats["factor_changes"] += 1
            if kind != "G":
                fail(cid, "harness: replication factor changed by an event other than G", {})
            for pid in stored:
                if state["rp"] < replica and quorum(stored[pid], replica) and not quorum(stored[pid], state["rp"]):
                    fail(cid, "lowering the factor lost the majority", dict(stored=stored[pid]))
            replica = state["rp"]
    return fails, stats


def oracle_create(cid, f, out):
    """namespace creation: every layout the coordinator creates must be a valid start layout"""
    fails = []
    replica = int(f[0])
    ret, w = out.split(" | ")
    n = 0
    for m in re.finditer(r"\{p=(\d+) ([^}]*) g=(\d+) (ok|fail)\}", w):
        n += 1
        info = parse_info(m.group(2))
        bad = inv_fail(info, replica)
        if not bad and info["rm"]:
            bad = "a fresh layout has a removing entry"
        if not bad and sorted(i[1] for i in info["ids"]) != list(range(1, len(info["nodes"]) + 1)):
            bad = "fresh ids are not 1..n"
        if bad:
            fails.append(dict(name="create-%s" % cid, what="created layout invalid: " + bad,
                              case=dict(at=cid, partition=int(m.group(1)), written=info)))
    return fails, n


def load_run(d):
    lines_by_seq = {}
    order = []
    for line in open(os.path.join(d, "cases.tsv")):
        p = line.rstrip("\n").split("\t")
        sid = p[0].split(".")[0]
        if sid not in lines_by_seq:
            lines_by_seq[sid] = []
            order.append(sid)
        lines_by_seq[sid].append((p[0], p[1], p[2:]))
    impl, _ = vlib.read_out(os.path.join(d, "impl.out"))
    return lines_by_seq, order, impl


def oracle(d):
    lines_by_seq, order, impl = load_run(d)
    fails, hist, stats = [], {}, {}
    nontrivial = set()
    for sid in order:
        lines = lines_by_seq[sid]
        if lines[0][1] == "Z":
            cid, _k, f = lines[0]
            fs, n = oracle_create(cid, f, impl.get(cid, "missing | -"))
            for x in fs:
                x["case"]["cases_tsv"] = ["\t".join([cid, "Z"] + f)]
            fails += fs
            hist["Z"] = hist.get("Z", 0) + 1
            stats["created_layouts"] = stats.get("created_layouts", 0) + n
            if n:
                nontrivial.add(vlib.case_hash("\t".join(f)))
            continue
        fs, st = oracle_sequence(sid, lines, impl)
        for f in fs:
            at = f["case"].get("at", lines[-1][0])
            upto = int(at.split(".")[1]) if "." in at else len(lines)
            f["case"]["cases_tsv"] = ["\t".join([c[0], c[1]] + c[2]) for c in lines if int(c[0].split(".")[1]) <= upto]
        fails += fs
        for k, v in st.items():
            stats[k] = stats.get(k, 0) + v
        for (_cid, kind, _f) in lines:
            hist[kind] = hist.get(kind, 0) + 1
        if st["writes"] > 0:
            nontrivial.add(vlib.case_hash("\n".join("\t".join([c[1]] + c[2]) for c in lines)))
    return fails, hist, stats, nontrivial, lines_by_seq, order, impl


def run_impl(ctx, seed, n, sub, replay_file=None, ncreate=0):
    d = os.path.join(ctx.run_dir, sub)
    shutil.rmtree(d, ignore_errors=True)
    os.makedirs(d)
    port = 36000 + (os.getpid() % 1000)
    binp = os.path.join(vlib.BIN, "migrate")
    if replay_file:
        cmd = "%s -replay %s -out %s -port %d" % (binp, replay_file, d, port)
    else:
        cmd = "%s -seed %d -n %d -ncreate %d -out %s -port %d" % (binp, seed, n, ncreate, d, port)
    rc, out, dt = sh(cmd, cwd=d, timeout=1500)
    if rc == 3:
        port = 36000 + ((os.getpid() + 499) % 1000)
        cmd = re.sub(r"-port \d+", "-port %d" % port, cmd)
        rc, out, dt = sh(cmd, cwd=d, timeout=1500)
    if rc != 0:
        return None, out
    rc2, out2, _ = sh("%s < cases.tsv > model.out" % vlib.modelrun_path("Migrate"), cwd=d, timeout=1500)
    if rc2 != 0:
        return None, out2
    return d, out


def run(ctx):
    quick = ctx.tier == "quick"
    ok, out, _ = vlib.go_build("migrate")
    if not ok:
        log("BUILD FAILED (harness migrate):\n" + out[-3000:])
        raise SystemExit(2)
    vlib.regen_consts("Migrate", "migrate")
    proofs_ok, info = ctx.check_proofs(make_targets=["Migrate/Proofs.vo", "Migrate/MultiProofs.vo", "Properties/C18.vo"],
                                       gate_paths=["Migrate", "Properties/C18"])
    mok, mout, _ = vlib.model_build("Migrate")
    if not mok:
        log("MODEL BUILD FAILED:\n" + mout[-3000:])
        raise SystemExit(2)

    runs = []
    corpus = sorted(p for p in (os.listdir(os.path.join(vlib.VERIF, "corpus", "C18"))
                                if os.path.isdir(os.path.join(vlib.VERIF, "corpus", "C18")) else []) if p.endswith(".tsv"))
    if ctx.replay:
        rp = json.load(open(ctx.replay))
        rc = os.path.join(ctx.run_dir, "replay_cases.tsv")
        with open(rc, "w") as f:
            for line in (rp.get("case") or {}).get("cases_tsv", rp.get("cases_tsv", [])):
                f.write(line + "\n")
        runs.append(("replay", 0, rc))
    else:
        for c in corpus:
            runs.append(("corpus-" + c[:-4], 0, os.path.join(vlib.VERIF, "corpus", "C18", c)))
        runs.append(("fresh", 1200 if quick else 30000, None))

    all_mism, all_fail, total, hist_all, stats_all, distinct, samples = [], [], 0, {}, {}, set(), []
    for sub, n, rfile in runs:
        d, err = run_impl(ctx, ctx.seed, n, sub, rfile, ncreate=(60 if quick else 1500) if rfile is None else 0)
        if d is None:
            log("HARNESS RUN FAILED:\n" + err[-3000:])
            raise SystemExit(2)
        for l in err.splitlines():
            if l.startswith("NOTE"):
                ctx.notes.append(l)
        mism, cnt = vlib.diff_outputs(os.path.join(d, "impl.out"), os.path.join(d, "model.out"))
        fails, hist, stats, nontrivial, lines_by_seq, order, impl = oracle(d)
        if mism and rfile is None:
            # the data-node answers travel over loopback HTTP with the coordinator's own 3 s / 10 s timeouts: on an
            # overloaded machine a timed-out request looks like a different answer. A genuine disagreement is
            # deterministic, so the disagreeing sequences are re-run once and only what reproduces is kept.
            sids = []
            for m in mism:
                sid = m[0].split(".")[0]
                if sid not in sids:
                    sids.append(sid)
            rc = os.path.join(ctx.run_dir, "recheck_cases.tsv")
            with open(rc, "w") as f:
                for sid in sids[:200]:
                    for c in lines_by_seq.get(sid, []):
                        f.write("\t".join([c[0], c[1]] + c[2]) + "\n")
            d2, err2 = run_impl(ctx, ctx.seed, 0, sub + "-recheck", rc)
            if d2 is not None:
                mism2, _ = vlib.diff_outputs(os.path.join(d2, "impl.out"), os.path.join(d2, "model.out"))
                keep = set(m[0] for m in mism2)
                dropped = [m for m in mism if m[0] not in keep and m[0].split(".")[0] in sids[:200]]
                if dropped:
                    ctx.notes.append("%d disagreement(s) did not reproduce on re-run (timing): %s" % (len(dropped), dropped[0][0]))
                mism = [m for m in mism if m not in dropped]
        all_mism += mism
        all_fail += fails
        total += cnt
        distinct |= nontrivial
        for k, v in hist.items():
            hist_all[k] = hist_all.get(k, 0) + v
        for k, v in stats.items():
            stats_all[k] = stats_all.get(k, 0) + v
        for sid in order:
            if len(samples) >= 5:
                break
            for c in lines_by_seq[sid]:
                o = impl.get(c[0], "")
                if " | {" in o and len(samples) < 5:
                    samples.append(dict(event="\t".join([c[1]] + c[2]), impl=o))
                    break

    def search():
        d2, err = run_impl(ctx, ctx.seed + 1000003, 20000, "search")
        if d2 is None:
            return []
        return oracle(d2)[0]

    vlib.standard_verdict(ctx, proofs_ok, all_mism, all_fail, search_fn=search,
                          corr_name="Migrate/Model.v vs pdnode_coord.PDCoordinator (doCheckNamespaces, handleNamespaceMigrate, "
                                    "addNamespaceToNode, removeNamespaceFromNode, removeNamespaceFromRemovings, rebalanceNamespace, "
                                    "processRemovingNodes, handleDataNodes) over an in-memory register")
    hist_all.update({"register_" + k: v for k, v in stats_all.items()})
    ctx.finish(dict(
        traces_validated_against_impl=total,
        evaluations=total,
        distinct_nontrivial=len(distinct),
        rule="event sequences from one seeded PRNG on the real PDCoordinator: replication 1..5, random valid start layout "
             "(under/over-replicated, optional pending removal, id gaps), events N (registered node set), A (HTTP answers of data nodes), "
             "T (clock), C / CS (doCheckNamespaces over all partitions / one partition), M/D/R/F (bare handleNamespaceMigrate/addNamespaceToNode/"
             "removeNamespaceFromNode/removeNamespaceFromRemovings), X (register update failures), O (auto balance), "
             "B (rebalanceNamespace), K/P (MarkNodeAsRemoving/processRemovingNodes), W (addNodeToNamespaceAndWaitReady called with a "
             "snapshot made stale by a concurrent add), the learner placement driver on the same register: "
             "LC (doCheckNamespacesForLearner), LS (start/stop key), LA/LL/LR/LX (bare addNsLearnerToNode/updateNsLearnerLeader/"
             "removeNsLearnerFromNode/removeNsAllLearners), learner nodes joining/leaving in N; G (ChangeNamespaceMetaParam: replication "
             "factor 0..6), U (SetClusterUpgradeState), Y (register health: healthy / etcd unreachable with the cache serving / "
             "all reads and updates failing); Z = namespace creation on an empty register "
             "(1..6 partitions). evaluations = events compared with the model; "
             "non-trivial = sequence with at least one register update attempt, distinct by hash of its event lines.",
        histogram=hist_all,
        mismatches=len(all_mism),
        samples=samples,
    ), assumptions=[
        "one namespace with 1..3 partitions per coordinator instance (the iteration order of the rounds and the placement "
        "answer at each use are observed on the implementation and given to the model); at most one node being removed from the cluster at a time "
        "(with two, checkIfAnyPending's result follows Go map order); at most one learner node waiting to be added per learner "
        "check (with two, their ids follow Go map order); data nodes and learner nodes have disjoint identities",
        "the placement function's proposal is taken from the implementation and fed to the model as an oracle answer "
        "(C17 is about the placement itself); clock advances are multiples of 3 minutes, never equal to a wait interval",
        "MaxRaftID stays below 2^63 (the model's ids are unbounded naturals)",
    ])
