"""C13 — cursor scans return every element exactly once, in order."""
import glob as _glob
import json
import os
import shutil

import vlib
from vlib import sh, log

MAXB = 5000        # rockredis.MAX_BATCH_NUM (the oracle's own copy; Consts.v carries the code's value)
DEFC = 100         # rockredis defaultScanCount


def unh(s):
    return b"" if s in ("-", "") else bytes.fromhex(s)


def unhl(s):
    return [unh(x) for x in s.split(",")] if s else []


def _expand_braces(pat):
    """{a,b,c} alternatives (not nested) -> the list of patterns without braces"""
    i = pat.find(b"{")
    if i < 0:
        return [pat]
    j = pat.find(b"}", i)
    if j < 0:
        return [pat]
    out = []
    for alt in pat[i + 1:j].split(b","):
        out += _expand_braces(pat[:i] + alt + pat[j + 1:])
    return out


def _tokens(pat):
    """-> list of ('*',) | ('?',) | ('set', negated, chars/ranges) | ('lit', byte)"""
    toks, i = [], 0
    while i < len(pat):
        c = pat[i:i + 1]
        if c == b"*":
            while pat[i:i + 1] == b"*":
                i += 1
            toks.append(("*",))
            continue
        if c == b"?":
            toks.append(("?",))
        elif c == b"[" and pat.find(b"]", i + 1) > 0:
            j = pat.find(b"]", i + 1)
            body = pat[i + 1:j]
            neg = body[:1] in (b"!", b"^")
            if neg:
                body = body[1:]
            ranges, k = [], 0
            while k < len(body):
                if k + 2 < len(body) and body[k + 1:k + 2] == b"-":
                    ranges.append((body[k], body[k + 2]))
                    k += 3
                else:
                    ranges.append((body[k], body[k]))
                    k += 1
            toks.append(("set", neg, ranges))
            i = j
        else:
            toks.append(("lit", pat[i]))
        i += 1
    return toks


def glob_match(pat, s):
    """the syntax of the generated patterns: '*' / '**' any byte sequence, '?' one byte, [abc] [a-c] [!a] classes,
    {a,b} alternatives, everything else literal"""
    if b"{" in pat or b"[" in pat:
        for alt in _expand_braces(pat):
            toks = _tokens(alt)
            m = len(s)
            cur = [False] * (m + 1)
            cur[0] = True
            for t in toks:
                nxt = [False] * (m + 1)
                if t[0] == "*":
                    seen = False
                    for j in range(m + 1):
                        seen = seen or cur[j]
                        nxt[j] = seen
                else:
                    for j in range(m):
                        if not cur[j]:
                            continue
                        b_ = s[j]
                        if t[0] == "?":
                            ok = True
                        elif t[0] == "lit":
                            ok = b_ == t[1]
                        else:
                            inside = any(lo <= b_ <= hi for lo, hi in t[2])
                            ok = inside != t[1]
                        if ok:
                            nxt[j + 1] = True
                cur = nxt
            if cur[m]:
                return True
        return False
    return _glob_simple(pat.replace(b"**", b"*"), s)


def _glob_simple(pat, s):
    """'*' any byte sequence, '?' one byte, everything else literal (the generated pattern class)."""
    n, m = len(pat), len(s)
    # dp over pattern positions
    cur = [False] * (m + 1)
    cur[0] = True
    for i in range(n):
        c = pat[i:i + 1]
        nxt = [False] * (m + 1)
        if c == b"*":
            seen = False
            for j in range(m + 1):
                seen = seen or cur[j]
                nxt[j] = seen
        else:
            for j in range(m):
                if cur[j] and (c == b"?" or s[j:j + 1] == c):
                    nxt[j + 1] = True
        cur = nxt
    return cur[m]


def class_on_non_ascii(match, names):
    """gobwas/glob matches character classes rune-wise; on names that are not valid UTF-8 its result is the
    library's own business (not modelled, not judged): such a case is skipped"""
    return b"[" in match and any(any(b_ >= 0x80 for b_ in x) for x in names)


def eff_count(count):
    if count <= 0:
        return DEFC
    return min(count, MAXB)


def parse_cases(path):
    """-> (stores: sid -> dict(T, C, P, lines), cases: id -> fields)"""
    stores, cases = {}, {}
    for line in open(path):
        p = line.rstrip("\n").split("\t")
        if len(p) < 2:
            continue
        cid = p[0]
        sid = cid.split(".")[0]
        st = stores.setdefault(sid, dict(T={}, C={}, hdr=[], eng="", W=None))
        cases[cid] = p[1:]
        k = p[1]
        if k == "T":
            st["T"][p[2]] = unhl(p[3])
            st["hdr"].append(line.rstrip("\n"))
        elif k == "C":
            st["C"][(p[2], unh(p[5]))] = unhl(p[6])
            st["hdr"].append(line.rstrip("\n"))
        elif k == "P":
            st["eng"] = p[2]
            st["policy"] = p[3]
            st["hdr"].append(line.rstrip("\n"))
        elif k == "W":
            st["W"] = unhl(p[3])
            st["hdr"].append(line.rstrip("\n"))
    return stores, cases


def parse_pages(out):
    """'calls=N [flags] | next>items | ...' -> (calls, flags, pages[(next, items)] or None on err)"""
    parts = out.split(" | ")
    head = parts[0].split(" ")
    calls = int(head[0].split("=")[1])
    flags = head[1:]
    pages = []
    for pg in parts[1:]:
        if ">" not in pg:
            return calls, flags + [pg], pages
        nx, its = pg.split(">", 1)
        pages.append((unh(nx), unhl(its)))
    return calls, flags, pages


def expected_seq(names, cur, rev, match, keyf=lambda x: x):
    names = sorted(names)
    if rev:
        seq = [x for x in reversed(names) if x < cur]
    else:
        seq = [x for x in names if x > cur]
    if match:
        seq = [x for x in seq if glob_match(match, keyf(x))]
    return seq


def check_iteration(cid, c, out, exp, count, cursor_of):
    """The property on one chained iteration. exp: the expected element sequence."""
    fails = []

    def bad(sig, what):
        fails.append(dict(name="%s-%s" % (sig, cid), case=dict(case=c, impl=out[:2000], expected=[x.hex() for x in exp][:200]), what=what))
    calls, flags, pages = parse_pages(out)
    if "NONTERM" in flags:
        bad("nonterm", "the iteration does not reach the empty cursor within |P|+3 calls")
        return fails
    if flags:
        bad("error", "a scan call failed: " + " ".join(flags))
        return fails
    got = [x for _, its in pages for x in its]
    if got != exp:
        gs, es = set(got), set(exp)
        if len(got) != len(gs):
            bad("dup", "an element is returned more than once")
        elif es - gs:
            bad("omit", "an existing element (matching, inside the addressed table/collection) is never returned")
        elif gs - es:
            bad("foreign", "an element from outside the addressed table/type/collection or not matching is returned")
        else:
            bad("order", "elements are not returned in key order")
        return fails
    c_eff = eff_count(count)
    limit = len(exp) // c_eff + 1 + (1 if count <= 0 else 0)
    if calls > limit:
        bad("calls", "more calls than |P|/COUNT + 1 (%d > %d)" % (calls, limit))
    for i, (nx, its) in enumerate(pages):
        if len(its) > c_eff:
            bad("pagesize", "a page is larger than COUNT")
        last = i == len(pages) - 1
        if not last and (not its or nx != cursor_of(its[-1])):
            bad("cursor", "a non-final cursor is not the last returned element")
    return fails


def oracle(stores, cases, impl):
    """The property itself evaluated on the implementation's outputs (no model involved)."""
    fails, hist, nontrivial = [], {}, set()
    for cid, c in cases.items():
        kind = c[0]
        out = impl.get(cid)
        st = stores[cid.split(".")[0]]
        if out is None:
            fails.append(dict(name="missing-" + cid, case=dict(case=c), what="no implementation output"))
            continue
        if kind in ("T", "C"):
            if not out.startswith("missing=0"):
                fails.append(dict(name="store-" + cid, case=dict(case=c, impl=out), what="a written key is not in the engine under the key the encoders compute"))
            continue
        if kind == "P":
            if "sorted=1" not in out:
                fails.append(dict(name="store-" + cid, case=dict(impl=out), what="engine iteration is not in byte order"))
            continue
        if kind in ("K", "KX"):
            cmd, typ, rev, table, start, count, match = c[1], c[2], c[3] == "1", unh(c[4]), unh(c[5]), int(c[6]), unh(c[7])
            pre = table + b":"
            names = [x for x in st["T"].get(typ, []) if x.startswith(pre)]
            if class_on_non_ascii(match, names):
                hist["skipped: class pattern over non-UTF-8 names"] = hist.get("skipped: class pattern over non-UTF-8 names", 0) + 1
                continue
            exp = expected_seq(names, pre + start, rev, match)
            hk = "%s %s %s count=%s%s" % (cmd, typ, "rev" if rev else "fwd", "N" if count > 5 else count, (" match-ext" if kind == "KX" else " match") if match else "")
            hist[hk] = hist.get(hk, 0) + 1
            if len(exp) >= 2:
                nontrivial.add(vlib.case_hash("\t".join(c) + repr(sorted(names))))
            fails += check_iteration(cid, c, out, exp, count, lambda it: it[len(pre):])
        elif kind in ("E", "EX"):
            ct, rev, raw, start, count, match = c[1], c[2] == "1", unh(c[5]), unh(c[6]), int(c[7]), unh(c[8])
            elems = st["C"].get((ct, raw), [])
            if class_on_non_ascii(match, elems):
                hist["skipped: class pattern over non-UTF-8 names"] = hist.get("skipped: class pattern over non-UTF-8 names", 0) + 1
                continue
            exp = expected_seq(elems, start, rev, match)
            hk = "%sscan %s count=%s%s" % (ct, "rev" if rev else "fwd", "N" if count > 5 else count, (" match-ext" if kind == "EX" else " match") if match else "")
            hist[hk] = hist.get(hk, 0) + 1
            if len(exp) >= 2:
                nontrivial.add(vlib.case_hash("\t".join(c) + repr(sorted(elems))))
            fs = check_iteration(cid, c, out, exp, count, lambda it: it)
            if "VALBAD" in out.split(" | ")[0]:
                fs = [dict(name="value-" + cid, case=dict(case=c, impl=out[:2000]), what="an element is returned with another element's value/score")]
            fails += fs
        elif kind == "S":
            cmd, typ, rev, table, start, count, match, nparts = c[1], c[2], c[3] == "1", unh(c[4]), unh(c[5]), int(c[6]), unh(c[7]), int(c[8])
            pre = table + b":"
            names = [x[len(pre):] for x in (st["W"] or []) if x.startswith(pre)]
            exp = sorted(expected_seq(names, start, rev, match, keyf=lambda x: pre + x))
            hk = "srv%d %s %s %s count=%s%s" % (nparts, cmd, typ, "rev" if rev else "fwd", "N" if count > 5 else count, " match" if match else "")
            hist[hk] = hist.get(hk, 0) + 1
            if len(exp) >= 2:
                nontrivial.add(vlib.case_hash("\t".join(c) + repr(sorted(names))))
            toks = dict(t.split("=", 1) for t in out.split(" ") if "=" in t)
            got = unhl(toks.get("set", ""))

            def sbad(sig, what):
                fails.append(dict(name="%s-%s" % (sig, cid), case=dict(case=c, impl=out[:2000], expected=[x.hex() for x in exp][:200]), what=what))
            if out.startswith("NONTERM"):
                sbad("srv-nonterm", "live server: the iteration does not reach the empty cursor")
            elif out.startswith("err"):
                sbad("srv-error", "live server: a scan call failed")
            elif got != exp:
                if len(got) != len(set(got)):
                    sbad("srv-dup", "live server: an element is returned more than once")
                elif set(exp) - set(got):
                    sbad("srv-omit", "live server: an existing element of the table is never returned")
                else:
                    sbad("srv-foreign", "live server: an element from outside the table / not matching is returned")
            elif toks.get("perpart") != "ok":
                sbad("srv-order", "live server: elements of one partition are not in key order")
        elif kind in ("F", "G"):
            typ, table, count, match = c[1], unh(c[2]), int(c[3]), unh(c[4])
            pre = table + b":"
            raws = [x for x in st["T"].get(typ, []) if x.startswith(pre)]
            if class_on_non_ascii(match, raws):
                hist["skipped: class pattern over non-UTF-8 names"] = hist.get("skipped: class pattern over non-UTF-8 names", 0) + 1
                continue
            exp = []
            if typ == "kv":
                for raw in sorted(raws):
                    if not match or glob_match(match, raw):
                        exp.append((raw, b""))          # the value is checked by the harness (VALBAD)
            else:
                ct = {"hash": "h", "set": "s", "zset": "z"}.get(typ)
                # element keys carry a 2-byte length of the stored key; under the compact TTL policy the stored key
                # is the memcomparable (8-byte groups) encoding of key+version, so its length grows per group
                if st.get("policy") == "compact":
                    korder = lambda r: (len(r[len(pre):]) // 8, r)
                else:
                    korder = lambda r: (len(r), r)
                for raw in sorted(raws, key=korder):
                    k = raw[len(pre):]
                    if match and not glob_match(match, k):
                        continue
                    els = [b""] if typ == "list" else sorted(st["C"].get((ct, raw), []))
                    exp += [(k, e) for e in els]
            hk = "fullscan %s count=%s%s" % (typ, "N" if count > 5 else count, " match" if match else "")
            hist[hk] = hist.get(hk, 0) + 1
            if len(exp) >= 2:
                nontrivial.add(vlib.case_hash("\t".join(c) + repr(sorted(raws))))

            def fbad(sig, what):
                fails.append(dict(name="%s-%s" % (sig, cid), case=dict(case=c, impl=out[:2000], expected=["%s=%s" % (a.hex(), b_.hex()) for a, b_ in exp][:200]), what=what))
            parts = out.split(" | ")
            head = parts[0].split(" ")
            calls = int(head[0].split("=")[1])
            got, bad_page = [], None
            for pg in parts[1:]:
                if ">" not in pg:
                    bad_page = pg
                    break
                for grp in [g for g in pg.split(">", 1)[1].split(",") if g]:
                    k, es = grp.split("=", 1)
                    got += [(unh(k), unh(e)) for e in es.split("+")] if es else []
            if "VALBAD" in head:
                fbad("fullscan-value", "FULLSCAN: a key or list element is returned with a wrong value")
            elif "NONTERM" in head:
                fbad("fullscan-nonterm", "FULLSCAN: the iteration does not reach the empty cursor")
            elif bad_page:
                fbad("fullscan-error", "FULLSCAN: a call failed: " + bad_page)
            elif got != exp:
                if len(got) != len(set(got)):
                    fbad("fullscan-dup", "FULLSCAN: an element is returned more than once")
                elif set(exp) - set(got):
                    fbad("fullscan-omit", "FULLSCAN: an existing (matching) element of the table is never returned")
                elif set(got) - set(exp):
                    fbad("fullscan-foreign", "FULLSCAN: an element from another table/type or not matching is returned")
                else:
                    fbad("fullscan-order", "FULLSCAN: elements are not in engine key order")
            elif calls > len(exp) // eff_count(count) + 1:
                fbad("fullscan-calls", "FULLSCAN: more calls than |P|/COUNT + 1")
        elif kind == "Q":
            toks = dict(t.split("=", 1) for t in out.split(" ") if "=" in t and not t.startswith(("hscan", "sscan", "zscan", "hrevscan", "srevscan", "zrevscan")))
            hist["concurrent iterations (%s)" % c[1]] = int(toks.get("iterations", "0"))
            if toks.get("bad") != "0":
                fails.append(dict(name="concurrent-" + cid, case=dict(case=c[:2], impl=out[:3000]),
                                  what="while iterations with other MATCH patterns run concurrently, an iteration returns elements that do not match its pattern or misses matching ones"))
            elif int(toks.get("iterations", "0")) < 20:
                fails.append(dict(name="concurrent-" + cid, case=dict(case=c[:2], impl=out[:300]), what="the concurrent leg completed too few iterations to mean anything"))
        elif kind == "R":
            hist["range builder"] = hist.get("range builder", 0) + 1
    return fails, hist, nontrivial


def read_x(d):
    """observables judged by the direct oracle only (FULLSCAN is not modelled)"""
    px = os.path.join(d, "implx.out")
    return vlib.read_out(px)[0] if os.path.exists(px) else {}


def hx(b):
    return b.hex() if b else "-"


def hxl(l):
    return ",".join(hx(x) for x in l)


def _rerun_fails(ctx, lines, tag):
    """run the harness on the given case lines (replay mode) and return the oracle failures"""
    d = os.path.join(ctx.run_dir, "shrink")
    shutil.rmtree(d, ignore_errors=True)
    os.makedirs(d)
    src = os.path.join(d, "in.tsv")
    with open(src, "w") as f:
        f.write("\n".join(lines) + "\n")
    port = 38000 + (os.getpid() % 400) * 40 + 20
    rc, out, _ = sh("%s -replay %s -out %s -port %d" % (os.path.join(vlib.BIN, "scansim"), src, d, port), cwd=d, timeout=300)
    if rc != 0:
        return None
    stores, cases = parse_cases(os.path.join(d, "cases.tsv"))
    impl, _ = vlib.read_out(os.path.join(d, "impl.out"))
    impl.update(read_x(d))
    fails, _, _ = oracle(stores, cases, impl)
    return [x for x in fails if x["name"].rsplit("-", 1)[0] == tag]


def shrink_failure(ctx, f, budget=60):
    """Delta-debug the population of a failing case: drop keys / elements while the same kind of failure remains.
    Returns the reduced case lines (header + case) or None."""
    lines = f["case"].get("cases_tsv")
    if not lines:
        return None
    tag = f["name"].rsplit("-", 1)[0]
    rows = [l.split("\t") for l in lines]
    case_row = rows[-1]
    sid = case_row[0].split(".")[0]

    def build(rs):
        # the engine key dump of the P line is recomputed by the replay
        return ["\t".join(r[:4] + ["-"] if r[1] == "P" else r) for r in rs]

    base = _rerun_fails(ctx, lines, tag)
    if not base:
        return None          # does not reproduce in isolation: keep the original
    runs = [1]

    def still_fails(rs):
        if runs[0] >= budget or any(r[1] == "W" and not r[3] for r in rs):
            return False
        runs[0] += 1
        r = _rerun_fails(ctx, build(rs), tag)
        return bool(r)

    # atoms: (row index, field index, position in the comma list)
    def atoms(rs):
        out = []
        for i, r in enumerate(rs[:-1]):
            if r[1] == "T" and r[3]:
                out += [(i, 3, k) for k in range(len(r[3].split(",")))]
            elif r[1] == "C" and r[6]:
                out += [(i, 6, k) for k in range(len(r[6].split(",")))]
            elif r[1] == "W" and r[3]:
                out += [(i, 3, k) for k in range(len(r[3].split(",")))]
        return out

    def remove(rs, drop):
        drop = set(drop)
        new = []
        gone_keys = set()
        for i, r in enumerate(rs):
            r = list(r)
            for fi in (3, 6):
                if (r[1], fi) in (("T", 3), ("C", 6), ("W", 3)):
                    items = r[fi].split(",") if r[fi] else []
                    kept = [x for k, x in enumerate(items) if (i, fi, k) not in drop]
                    if r[1] == "T":
                        gone_keys |= {x for x in items if x not in kept}
                    r[fi] = ",".join(kept)
            new.append(r)
        # a collection without elements or whose key was dropped disappears together with its key
        out = []
        dead = set()
        for r in new:
            if r[1] == "C" and (not r[6] or r[5] in gone_keys):
                dead.add(r[5])
                continue
            out.append(r)
        for r in out:
            if r[1] == "T" and r[2] in ("hash", "set", "zset") and r[3]:
                r[3] = ",".join(x for x in r[3].split(",") if x not in dead)
        for r in out:            # the W line carries one partition id per key: let the harness recompute
            if r[1] == "W":
                kv = r[7:8]
                del r[4:]
                r += ["", "", ""] + kv
        return out

    cur = rows
    chunk = max(1, len(atoms(cur)) // 2)
    while chunk >= 1 and runs[0] < budget:
        at = atoms(cur)
        i = 0
        progressed = False
        while i < len(at) and runs[0] < budget:
            cand = remove(cur, at[i:i + chunk])
            if still_fails(cand):
                cur = cand
                at = atoms(cur)
                progressed = True
            else:
                i += chunk
        if chunk == 1 and not progressed:
            break
        chunk = chunk // 2 if chunk > 1 else (1 if progressed else 0)
    return build(cur) if cur is not rows else None


def run_impl(ctx, sub, args):
    d = os.path.join(ctx.run_dir, sub)
    shutil.rmtree(d, ignore_errors=True)
    os.makedirs(d)
    port = 38000 + (os.getpid() % 400) * 40
    cmd = "%s %s -out %s -port %d" % (os.path.join(vlib.BIN, "scansim"), args, d, port)
    rc, out, dt = sh(cmd, cwd=d, timeout=1500)
    if rc != 0:
        return None, out
    rc2, out2, dt2 = sh("%s < cases.tsv > model.out" % vlib.modelrun_path("Scan"), cwd=d, timeout=1500)
    if rc2 != 0:
        return None, out2
    return d, ""


def attach_replay(fails, stores, cases):
    for f in fails:
        cid = f["name"].split("-")[-1]
        sid = cid.split(".")[0]
        st = stores.get(sid)
        if st and cid in cases:
            f["case"]["cases_tsv"] = st["hdr"] + ["\t".join([cid] + cases[cid])]


def run(ctx):
    quick = ctx.tier == "quick"
    ok, out, _ = vlib.go_build("scansim")
    if not ok:
        log("BUILD FAILED (harness scansim):\n" + out[-3000:])
        raise SystemExit(2)
    vlib.regen_consts("Scan", "scansim")
    proofs_ok, info = ctx.check_proofs(make_targets=["Scan/Proofs.vo", "Scan/ProofsFullCodec.vo", "Properties/C13.vo"],
                                       gate_paths=["Scan", "Common", "Properties/C13"])
    mok, mout, _ = vlib.model_build("Scan")
    if not mok:
        log("MODEL BUILD FAILED:\n" + mout[-3000:])
        raise SystemExit(2)

    runs = []
    if ctx.replay:
        rp = json.load(open(ctx.replay))
        rc = os.path.join(ctx.run_dir, "replay_cases.tsv")
        with open(rc, "w") as f:
            for line in (rp.get("case") or {}).get("cases_tsv", []) or rp.get("cases_tsv", []):
                f.write(line + "\n")
        runs.append(("replay", "-replay %s" % rc))
    else:
        corpus = sorted(_glob.glob(os.path.join(vlib.VERIF, "corpus", "C13", "*.tsv")))
        for i, cp in enumerate(corpus):
            runs.append(("corpus%d" % i, "-replay %s" % cp))
        if quick:
            runs.append(("fresh", "-seed %d -stores 14 -cases 70 -engines mem,pebble -srv 1 -srvbig 5600 -big 5003 -longrun 6500 -exh 7 -conc 2000" % ctx.seed))
        else:
            runs.append(("fresh", "-seed %d -stores 1200 -cases 140 -engines mem,pebble,rocksdb -srv 20 -srvbig 5600 -big 5003 -longrun 6500 -longrunall -exh 10 -conc 8000" % ctx.seed))

    all_mism, all_fail, total, hist_all, samples, distinct = [], [], 0, {}, [], set()
    engines = {}
    for sub, args in runs:
        d, err = run_impl(ctx, sub, args)
        if d is None:
            log("HARNESS RUN FAILED (%s):\n%s" % (sub, err[-3000:]))
            raise SystemExit(2)
        mism, cnt = vlib.diff_outputs(os.path.join(d, "impl.out"), os.path.join(d, "model.out"))
        stores, cases = parse_cases(os.path.join(d, "cases.tsv"))
        impl, _ = vlib.read_out(os.path.join(d, "impl.out"))
        impl.update(read_x(d))
        fails, hist, nontriv = oracle(stores, cases, impl)
        attach_replay(fails, stores, cases)
        all_mism += mism
        all_fail += fails
        total += cnt
        distinct |= nontriv
        for k, v in hist.items():
            hist_all[k] = hist_all.get(k, 0) + v
        for st in stores.values():
            if st["eng"]:
                engines[st["eng"]] = engines.get(st["eng"], 0) + 1
        ids = [k for k in cases if cases[k][0] in ("K", "E", "S", "F", "G", "KX", "EX")]
        for cid in ids[:2] + ids[-1:]:
            samples.append(dict(case=cases[cid], impl=(impl.get(cid) or "")[:400]))

    def search():
        d2, err = run_impl(ctx, "search", "-seed %d -stores 120 -cases 120 -engines mem,pebble -srv 3" % (ctx.seed + 1000003))
        if d2 is None:
            return []
        stores, cases = parse_cases(os.path.join(d2, "cases.tsv"))
        impl, _ = vlib.read_out(os.path.join(d2, "impl.out"))
        impl.update(read_x(d2))
        fails, _, _ = oracle(stores, cases, impl)
        attach_replay(fails, stores, cases)
        return fails

    for f in all_fail[:3]:
        try:
            small = shrink_failure(ctx, f)
        except Exception as ex:          # shrinking is best effort
            small = None
            ctx.notes.append("shrink failed: %r" % (ex,))
        if small:
            f["case"]["cases_tsv_unshrunk_lines"] = len(f["case"]["cases_tsv"])
            f["case"]["cases_tsv"] = small
            f["case"]["shrunk"] = True
    mm = [(m[0], (m[1] or "")[:600], (m[2] or "")[:600]) for m in all_mism]
    vlib.standard_verdict(ctx, proofs_ok, mm, all_fail, search_fn=search,
                          corr_name="Scan/Model.v vs rockredis scan range builders + node scan handlers chained by cursor (smx state machine)")
    hist_all["stores per engine"] = engines
    ctx.finish(dict(
        traces_validated_against_impl=total,
        evaluations=total,
        distinct_nontrivial=len(distinct),
        rule="one seeded PRNG. A store = keys of 5 types in a main table and up to 8 decoy tables (names sorting just before/after the table "
             "boundary bytes ':'-1, ':'+1, 0xff, prefixes), every hash/set/zset key a collection with 1..14 elements; names from an adversarial pool "
             "(prefix-related, ':', ';', '9', 0x00, 0xff, 7/8/9/17 bytes, 'meta:') written through a real node.StateMachine. Cases: K = SCAN/ADVSCAN(+REV) per type, "
             "E = H/S/ZSCAN(+REV), each iterated by feeding the cursor back until empty (bound |P|+3), COUNT in {1,2,3,5,|P|,|P|+1,absent,random}, start cursor "
             "empty / an element / element+0x00 / element minus last byte / above all, MATCH from {*,?,literal} patterns in 35%; R = range builders; "
             "S = the same iteration over the redis protocol against a live 1..4-partition in-process server (model: per-partition stores, merged cursor, COUNT split); "
             "KX/EX/G = the same with MATCH patterns from the rest of the glob syntax ({a,b} alternatives, [ab] [a-k] [!a] classes, **), direct oracle only; "
             "xpt = a store scanned by every command with 11 patterns of that syntax incl. wildcard-free alternatives (user_{1,3,5}, k{1,2}); "
             "xlr = a 6500-key table in which only 4 keys match the pattern (runs of > MAX_BATCH_NUM non-matching keys; mem in quick, every engine in thorough); "
             "xsp = a store with runs of 29 non-matching names between matching ones (COUNT 1..5); "
             "q.* = concurrent leg: 8 goroutines iterate the same hash/set/zset (forward and reverse) at the same time, each with its own MATCH pattern and COUNT, "
             "6 more iterate three DIFFERENT sets/hashes/zsets of 1100 recognisable members with COUNT 1024/1500/2000/5000, and pages returned by RockDB.S/H/ZScan are held across a scan of another collection and compared with their copy, "
             "2 s (thorough 8 s) per engine (mem, pebble); every completed iteration must be exactly its matching subset, once, in order; "
             "vbig = one live 2-partition server with a 5600-key table (pipelined SETs), SCAN/ADVSCAN(+REV) with COUNT 4999, 5000, 5001, 5200, 6000, 10000, 10001, 12000 and none; "
             "F = FULLSCAN per type (direct oracle only); one store with 5003 keys and COUNT around MAX_BATCH_NUM; "
             "xs* = a store whose table and collections hold every sentinel-like name (\"0\", \"-\", \"+\", \"(\", \"[\", \"-1\", \"00\", base64-looking, table-like), every COUNT 0..|P|+1, both directions; "
             "x* = exhaustive small scope: every subset of a pool of 7 (thorough: 10) prefix/boundary/sentinel names (incl. \"0\") as the keys of a table and as the fields of a hash, "
             "COUNT 1..3, both directions, every start cursor from the pool. "
             "Non-trivial = the expected result has >= 2 elements; distinct by hash of (case, population).",
        histogram=hist_all,
        mismatches=len(all_mism),
        samples=samples[:6],
    ), assumptions=[
        "no key carries a TTL (expiry is C10's subject); names are non-empty (the property's quantifier)",
        "rocksdb (thorough tier) is not run for reverse KV scans: Debian's librocksdb asserts on the 1-byte lower bound [KVType]",
        "MATCH patterns are drawn from literals, '*' and '?' over ASCII; gobwas/glob itself is not modelled (abstract predicate in the theorems)",
    ])
