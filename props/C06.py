"""C06 — a data node restarted after a crash serves exactly the acknowledged state."""
import itertools
import json
import os
import re
import shutil

import vlib
from vlib import sh, log

# ----------------------------------------------------------------------------------------------
# reference semantics of the write commands the harness issues (Redis semantics, per-type keys)
# ----------------------------------------------------------------------------------------------


class Ref:
    def __init__(self):
        self.kv, self.li, self.ha, self.se, self.pf, self.zs = {}, {}, {}, {}, {}, {}

    def copy(self):
        r = Ref()
        r.kv = dict(self.kv)
        r.li = {k: list(v) for k, v in self.li.items()}
        r.ha = {k: dict(v) for k, v in self.ha.items()}
        r.se = {k: set(v) for k, v in self.se.items()}
        r.pf = {k: set(v) for k, v in self.pf.items()}
        r.zs = {k: dict(v) for k, v in self.zs.items()}
        return r

    def apply(self, cmd):
        """returns the reply Redis gives"""
        c, k = cmd[0], cmd[1].split(":", 2)[2]
        if k.startswith("e"):
            # the family of keys written with a short expire time (SETEX, then INCR / INCRBY): the harness starts the next
            # life only after the expire time, so no dump ever shows them; their replies depend on the clock and are not compared
            return None
        if c == "set":
            self.kv[k] = cmd[2]
            return "+OK"
        if c == "setex":
            # only refused forms are generated (expire time 0 or not a number): no effect
            return "-ERR"
        if c == "incr":
            v = int(self.kv.get(k, "0")) + 1
            self.kv[k] = str(v)
            return ":%d" % v
        if c == "append":
            self.kv[k] = self.kv.get(k, "") + cmd[2]
            return ":%d" % len(self.kv[k])
        if c == "lpush":
            self.li.setdefault(k, []).insert(0, cmd[2])
            return ":%d" % len(self.li[k])
        if c == "hincrby":
            h = self.ha.setdefault(k, {})
            h[cmd[2]] = h.get(cmd[2], 0) + int(cmd[3])
            return ":%d" % h[cmd[2]]
        if c == "sadd":
            s = self.se.setdefault(k, set())
            new = cmd[2] not in s
            s.add(cmd[2])
            return ":%d" % (1 if new else 0)
        if c == "pfadd":
            # elements come from a fixed universe of 16 strings: in the sparse HLL++ representation the count is exact
            s = self.pf.setdefault(k, set())
            new = cmd[2] not in s
            s.add(cmd[2])
            return ":%d" % (1 if new else 0)
        if c == "zadd":
            z = self.zs.setdefault(k, {})
            new = cmd[3] not in z
            z[cmd[3]] = int(cmd[2])
            return ":%d" % (1 if new else 0)
        if c == "del":
            if k in self.kv:
                del self.kv[k]
                return ":1"
            return ":0"
        if c == "lpop":
            l = self.li.get(k)
            if not l:
                return "nil"
            v = l.pop(0)
            if not l:
                del self.li[k]
            return "$" + v
        if c == "hdel":
            h = self.ha.get(k)
            if h is None or cmd[2] not in h:
                return ":0"
            del h[cmd[2]]
            if not h:
                del self.ha[k]
            return ":1"
        if c == "srem":
            s = self.se.get(k)
            if s is None or cmd[2] not in s:
                return ":0"
            s.discard(cmd[2])
            if not s:
                del self.se[k]
            return ":1"
        if c == "zrem":
            z = self.zs.get(k)
            if z is None or cmd[2] not in z:
                return ":0"
            del z[cmd[2]]
            if not z:
                del self.zs[k]
            return ":1"
        raise ValueError("unknown command %r" % (cmd,))

    def dump(self):
        out = []
        for k, v in self.kv.items():
            out.append("K %s $%s" % (k, v))
        for k, v in self.li.items():
            out.append("L %s [%s]" % (k, ",".join("$" + x for x in v)))
        for k, v in self.ha.items():
            out.append("H %s [%s]" % (k, ",".join(sorted("$%s=$%d" % (f, n) for f, n in v.items()))))
        for k, v in self.se.items():
            out.append("S %s [%s]" % (k, ",".join(sorted("$" + x for x in v))))
        for k, v in self.pf.items():
            out.append("P %s :%d" % (k, len(v)))
        for k, v in self.zs.items():
            out.append("Z %s [%s]" % (k, ",".join(sorted("$%s=$%d" % (m, sc) for m, sc in v.items()))))
        return sorted(out)


def explain_diff(want, got):
    w, g = set(want), set(got)
    return dict(missing_or_different=sorted(w - g)[:8], unexpected=sorted(g - w)[:8])


def oracle_dir(runs):
    """The property itself on one directory's kill/restart history (no model involved).
    runs: RunRec dicts in order. Returns (failures, stats)."""
    fails = []
    stats = dict(restarts_verified=0, acked=0, lost_applied=0, lost_dropped=0, indoubt_err=0, reply_checked=0)
    base = Ref()
    pending = []   # ops issued since the last verified dump: (cmd, status, reply)
    history = []   # crash specs so far (for the replay)
    for r in runs:
        history.append(r["spec"])
        ident = dict(dir=r["dir"], run=r["run"], engine=r["engine"], optfsync=r["optfsync"], specs=list(history))
        if r["start"] == "env-failure":
            stats["env_failures"] = stats.get("env_failures", 0) + 1
            continue
        if r["start"] == "slow-start":
            stats["slow_starts"] = stats.get("slow_starts", 0) + 1
            continue
        if r["start"] == "inconclusive-slow":
            # alive, no error in its log, not serving within the generous budget, twice: a slow machine; nothing is concluded
            stats["inconclusive_slow"] = stats.get("inconclusive_slow", 0) + 1
            return fails, stats
        if r["start"] not in ("ready", "died-at-startup-point"):
            fails.append(dict(name="norestart-d%d-r%d" % (r["dir"], r["run"]), case=dict(ident, start=r["start"], start_ms=r.get("start_ms"),
                                                                                       log=(r.get("log") or "(the child logged nothing)")[-4000:],
                                                                                       events_tail=(r.get("events") or [])[-12:],
                                                                                       listing=r.get("listing")),
                              what="the node did not come back on its own directory after the crash (%s): %s" % (history[-2] if len(history) > 1 else "-", r["start"]),
                              sig_hint=sig_of_log(r.get("log") or "", r["start"])))
            return fails, stats
        if r["start"] == "died-at-startup-point":
            continue
        mk = r.get("marker")
        if mk is None or mk["status"] != "ack":
            if mk is not None and mk["status"] == "lost":
                # died while answering the first write after the restart: nothing to verify in this run
                pending.append((mk["cmd"], "lost", None))
                if r.get("death") == "unexpected-exit" or r["spec"] in ("final",):
                    fails.append(dict(name="diedafterstart-d%d-r%d" % (r["dir"], r["run"]), case=dict(ident, log_head=(r.get("log") or "")[:3000], log=(r.get("log") or "")[-2000:]),
                                      what="the restarted node died on the first write without a crash being injected"))
                    return fails, stats
                for o in r["ops"] or []:
                    pending.append((o["cmd"], o["status"], o.get("reply")))
                continue
            fails.append(dict(name="nowrite-d%d-r%d" % (r["dir"], r["run"]), case=dict(ident, marker=mk),
                              what="the restarted node never accepted a write"))
            return fails, stats
        dumpv = r.get("dump") or []
        if dumpv and dumpv[0].startswith("DUMP-ERROR") and r["spec"].startswith("S:") and r.get("death") == "crashpoint":
            # the crash point armed through the environment fired while the dump was being read: nothing verified in this run
            pending.append((mk["cmd"], "ack", mk["reply"]))
            continue
        if dumpv and dumpv[0].startswith("DUMP-INCONCLUSIVE"):
            # the child was alive and did not answer a read within 10 s and then 90 s: nothing is concluded
            stats["inconclusive_slow"] = stats.get("inconclusive_slow", 0) + 1
            return fails, stats
        if dumpv and dumpv[0].startswith("DUMP-ERROR"):
            fails.append(dict(name="dumperr-d%d-r%d" % (r["dir"], r["run"]), case=dict(ident, dump=dumpv, log=(r.get("log") or "")[-3000:]),
                              what="reading the restarted node failed: " + dumpv[0]))
            return fails, stats
        # every acknowledged op is in; each unanswered / error-answered op is in or out
        # (a refused SETEX has no effect whether it was proposed or not: it is not a choice)
        doubt = [i for i, p in enumerate(pending) if p[1] != "ack" and p[0][0] != "setex" and not p[0][1].split(":", 2)[2].startswith("e")]
        ok = None
        if len(doubt) <= 10:
            for choice in itertools.product([False, True], repeat=len(doubt)):
                inc = dict(zip(doubt, choice))
                st = base.copy()
                good = True
                for i, (cmd, status, reply) in enumerate(pending):
                    if status != "ack" and not inc.get(i, True):
                        continue
                    rep = st.apply(cmd)
                    # PFADD's reply ("a register changed") depends on the HLL representation in memory, not only on
                    # the set of elements: it is not part of the state and is not compared
                    if status == "ack" and rep is not None and rep != reply and cmd[0] != "pfadd":
                        good = False
                        break
                if not good:
                    continue
                st.apply(mk["cmd"])
                if st.dump() == dumpv:
                    ok = (st, inc)
                    break
        if ok is None:
            # diagnose against the "all acknowledged, nothing else" state
            st = base.copy()
            badreply = None
            for cmd, status, reply in pending:
                if status == "ack":
                    rep = st.apply(cmd)
                    if rep is not None and rep != reply and badreply is None and cmd[0] != "pfadd":
                        badreply = dict(cmd=cmd, reply=reply, reference=rep)
            st.apply(mk["cmd"])
            fails.append(dict(name="state-d%d-r%d" % (r["dir"], r["run"]),
                              case=dict(ident, crash=history[-2] if len(history) > 1 else None,
                                        acked=sum(1 for p in pending if p[1] == "ack"), unanswered=len(doubt),
                                        diff_vs_all_acked=explain_diff(st.dump(), dumpv), first_bad_reply=badreply,
                                        last_events=prev_events_tail(runs, r)),
                              what="after the restart the served data is not the result of applying, in order, the acknowledged writes plus a subset of the unanswered ones"))
            return fails, stats
        st, inc = ok
        stats["restarts_verified"] += 1
        for i, (cmd, status, reply) in enumerate(pending):
            if status == "ack":
                stats["acked"] += 1
                stats["reply_checked"] += 1
            elif status == "lost":
                stats["lost_applied" if inc.get(i, True) else "lost_dropped"] += 1
            else:
                stats["indoubt_err"] += 1
        base = st
        pending = [(o["cmd"], o["status"], o.get("reply")) for o in (r["ops"] or [])]
        if r.get("death") == "unexpected-exit":
            fails.append(dict(name="exit-d%d-r%d" % (r["dir"], r["run"]), case=dict(ident, log=(r.get("log") or "")[-3000:]),
                              what="the node exited on its own while serving writes"))
            return fails, stats
    return fails, stats


def prev_events_tail(runs, r):
    for p in runs:
        if p["dir"] == r["dir"] and p["run"] == r["run"] - 1:
            return (p.get("events") or [])[-25:]
    return []


SIG_SNAP_WITH_ENTRIES = ("node/raft.go persistRaftState: Ready with incoming snapshot S AND entries above S in one wal.Save, death between the entry "
                         "records and the hard state record: marker S not valid, ReadAll from the older snapshot meets the gap (index out of range)")


def snap_with_entries_signature(runs, r):
    """the open finding about a Ready that carries an incoming snapshot and entries: the life before the failed start
    processed such a Ready and the start failed with ReadAll's 'index out of range'"""
    if "index out of range" not in ((r.get("log") or "") + " " + (r.get("start") or "")):
        return None
    for p in runs:
        if p["dir"] == r["dir"] and p["run"] == r["run"] - 1:
            for e in p.get("events") or []:
                f = e.split()
                if f and f[0] == "rd.begin" and len(f) == 12 and f[1] != "0" and f[11] != "0":
                    return SIG_SNAP_WITH_ENTRIES
    return None


def sig_of_log(logtxt, start):
    m = re.search(r"(wal: [a-z ]+|snap: [a-z ]+|no backup[a-z ]*|index out of range[a-z ,:]*|file not found|crc mismatch)", logtxt + " " + start)
    return m.group(1) if m else start.split(" ")[0]


def load_trace(path):
    dirs = {}
    for line in open(path):
        try:
            r = json.loads(line)
        except ValueError:
            continue          # the torn last line of a trace whose writer died
        dirs.setdefault(r["dir"], []).append(r)
    for d in dirs.values():
        d.sort(key=lambda r: r["run"])
    return dirs



# ----------------------------------------------------------------------------------------------
# generation of the crash schedules (pure function of the seed)
# ----------------------------------------------------------------------------------------------

OPS_MAX = 70
START_ONLY = ["rc.snap.chosen", "rs.remove.after", "rs.copy.after", "rc.restore.after", "rc.replay.after",
              "pg.remove.before", "pg.remove.after"]
START_ALSO = ["rd.begin", "rd.walsave.before", "rd.walsave.after", "ap.apply.before", "ps.snapfile.after",
              "sn.savesnap.after", "ck.save.before"]
FOLLOWER_ONLY = ["rd.savesnap.before", "rd.savesnap.after", "rd.applysnap.before", "rd.applysnap.after", "rd.release.after", "rc.snap.none",
                 "fs.local.ok", "fs.mark.after", "fs.copy.after", "fs.complete.after", "as.prepare.after", "as.raftdone.after", "as.restore.after"]
# the sub-steps of an incoming snapshot's installation, in the follower's raft loop, apply loop and fetch; some
# are also passed by a local snapshot / a restart: the k-th hit counts from the moment the follower is healed
INSTALL_POINTS = ["fs.mark.after", "fs.copy.after", "fs.complete.after", "fs.local.ok", "as.prepare.after", "rd.savesnap.before",
                  "ps.snapfile.after", "rd.savesnap.after", "rd.walsave.before", "rd.walsave.after", "rd.applysnap.before",
                  "rd.applysnap.after", "as.raftdone.after", "rd.release.after", "rs.remove.after", "rs.copy.after", "as.restore.after",
                  "ap.apply.after"]
FOLLOWER_START = ["rc.snap.chosen", "fs.local.ok", "rs.remove.after", "rs.copy.after", "rc.restore.after", "rc.replay.after"]


def run_points(known):
    return [p for p in known if p not in START_ONLY and p not in FOLLOWER_ONLY]


def spec_for(rnd, p, kclass, stall=None, sure=False):
    if p in START_ONLY:
        return "S:%s:1" % p
    if p.startswith(("sn.", "ck.", "ps.")):
        k = {"first": 1, "random": rnd.randint(1, 3), "last": 3}[kclass]
        if sure:
            k = min(k, 2)     # the third snapshot of a life of 70 writes may not get through all its sub-steps
    elif p.startswith("wl."):
        k = 1
    else:
        k = {"first": rnd.randint(1, 3), "random": rnd.randint(1, OPS_MAX), "last": OPS_MAX - rnd.randint(0, 19)}[kclass]
        if sure and kclass != "first":
            # quick tier: every point must fire in its one life (some points are hit less than once per write)
            k = rnd.randint(4, 30) if kclass == "random" else rnd.randint(35, 48)
    if stall is None:
        stall = rnd.choice([0, 0, 0, 5, 30, 120])
    return "P:%s:%d:%d" % (p, k, stall)


def gen_jobs(seed, ndirs, cycles, engines, known, cover_once=False):
    rnd = __import__("random").Random(seed)
    if cover_once:
        # quick tier: every named point once per run, its k class (first / random / last) rotating with the seed
        kcs = ("first", "random", "last")
        pool = [(p, kcs[(i + seed) % 3]) for i, p in enumerate(run_points(known))]
        pool += [(p, "first") for p in START_ONLY if not p.startswith("pg.")]
    else:
        pool = [(p, kc) for p in run_points(known) for kc in ("first", "random", "last")]
        pool += [(p, "first") for p in START_ONLY] * 2
    rnd.shuffle(pool)
    jobs = []
    pi = 0
    for d in range(ndirs):
        specs = ["X:%d:%d" % (rnd.randint(45, OPS_MAX - 1), rnd.randint(0, 7))]
        while len(specs) < cycles:
            c = 1.0 if cover_once else rnd.random()
            if c < 0.12:
                specs.append("X:%d:%d" % (rnd.randint(1, OPS_MAX - 1), rnd.randint(0, 7)))
            elif c < 0.2:
                specs.append("S:%s:1" % rnd.choice(START_ALSO))
            else:
                p, kc = pool[pi % len(pool)]
                pi += 1
                specs.append(spec_for(rnd, p, kc, sure=cover_once))
        if cover_once and d < 2:
            # the purge loops act at the start of a node that finds more than KeepBackup snap files / KeepWAL segments
            # (two lives of writes first: three snapshots and three WAL segments at least)
            specs.insert(1, "X:%d:%d" % (rnd.randint(30, OPS_MAX - 1), rnd.randint(0, 7)))
            specs.insert(2, "S:pg.remove.%s:1" % ("before", "after")[d])
        if cover_once and d < len(START_ALSO):
            # a death during the restart itself at a point that is also hit by a running node
            specs.append("S:%s:1" % START_ALSO[(d + seed) % len(START_ALSO)])
        jobs.append(dict(seed=rnd.randrange(1 << 40), engine=engines[d % len(engines)], optfsync=(d % 3 != 2), ops_max=OPS_MAX, specs=specs))
    return jobs


SNAP_WINDOW = ["sn.ckpt.done", "sn.create.after", "ps.snapfile.after"]


def gen_consecutive(seed, njobs, engines):
    """consecutive deaths in the window between 'checkpoint of a snapshot complete' and 'snapshot recorded in the WAL'
    (KeepBackup = 2): life 0 dies there at its 2nd snapshot (one snapshot recorded, one checkpoint orphaned), life 1
    restores, replays, takes a snapshot at once and dies there again (armed from its start), the following lives must
    come back on the one recorded snapshot while orphaned checkpoints and snap files pile up around it"""
    rnd = __import__("random").Random(seed + 71)
    jobs = []
    for d in range(njobs):
        p1 = SNAP_WINDOW[(d + seed) % len(SNAP_WINDOW)]
        p2 = SNAP_WINDOW[(d // len(SNAP_WINDOW) + seed) % len(SNAP_WINDOW)] if njobs > len(SNAP_WINDOW) else p1
        specs = ["P:%s:2:0" % p1, "S:%s:1" % p2, "S:%s:1" % rnd.choice(SNAP_WINDOW), "X:%d:0" % rnd.randint(1, 12), "X:%d:0" % rnd.randint(20, 40)]
        jobs.append(dict(seed=rnd.randrange(1 << 40), engine=engines[d % len(engines)], optfsync=(d % 2 == 0), ops_max=OPS_MAX, specs=specs))
    return jobs


def gen_special(seed, njobs, engines):
    """directories with one special ingredient each (dirJob.mode): 'big' a value above 1 MiB shortly before every kill
    (the wal encoder's 1 MiB buffer), 'tear' a torn record behind the WAL's tail after every kill (wal.Repair on a WAL that
    has rolled over to further segments), 'ttl' SETEX + INCR + INCRBY shortly before the kill and the restart after the
    expire time (a replay judges expiry by the entry's timestamp), 'purge' entries of a few KiB and the WAL purger ticking
    every 50 ms while the node serves (segments released by wal.ReleaseLockTo are removed during the life, not only at the next start)"""
    rnd = __import__("random").Random(seed + 83)
    modes = ["big", "tear", "ttl", "purge"]
    jobs = []
    for d in range(njobs):
        specs = ["X:%d:%d" % (rnd.randint(25, 60), rnd.randint(0, 7)), "X:%d:%d" % (rnd.randint(14, 40), rnd.randint(0, 7)),
                 "X:%d:%d" % (rnd.randint(9, 30), rnd.randint(0, 7))]
        jobs.append(dict(seed=rnd.randrange(1 << 40), engine=engines[d % len(engines)], optfsync=(d % 2 == 0), ops_max=OPS_MAX, specs=specs,
                         mode=modes[d % 4]))
    return jobs


def gen_sparse_snapshots(seed, njobs, engines):
    """few snapshots per WAL segment (SnapCount 60, segments of about 65 entries, KeepWAL 2): after the purge at a start
    the oldest remaining segment holds the marker of the only snapshot the node can restart from; then restarts that
    are not separated by a new snapshot (a restart must leave a directory the next restart can start from)"""
    rnd = __import__("random").Random(seed + 57)
    jobs = []
    for d in range(njobs):
        specs = ["X:%d:%d" % (rnd.randint(66, OPS_MAX - 1), rnd.randint(0, 7)), "X:%d:%d" % (rnd.randint(66, OPS_MAX - 1), rnd.randint(0, 7)),
                 rnd.choice(["X:1:0", "X:2:3", "S:rc.replay.after:1", "S:rc.snap.chosen:1"]),
                 rnd.choice(["X:1:0", "S:rc.restore.after:1", "X:3:1"]),
                 # (the purge of the WAL directory acts at the start that finds a third segment; restarts follow it)
                 "X:1:0", rnd.choice(["X:2:0", "S:rc.snap.chosen:1"]), "X:1:0"]
        jobs.append(dict(seed=rnd.randrange(1 << 40), engine=engines[d % len(engines)], optfsync=(d % 2 == 0), ops_max=OPS_MAX, specs=specs, snap_count=60))
    return jobs


def gen_follower(seed, njobs, engines, cover_once=False, lives=3):
    """three-replica jobs: a follower is down while the leader snapshots and compacts; it is restarted, gets the
    snapshot (MsgSnap) and is killed at a sub-step of its installation, then restarted and healed again"""
    rnd = __import__("random").Random(seed + 31)
    pool = [("P", p) for p in INSTALL_POINTS]
    if not cover_once:
        pool = pool * 2 + [("S", p) for p in FOLLOWER_START] + [("X", "")] * 4
    rnd.shuffle(pool)
    jobs = []
    pi = 0
    for d in range(njobs):
        specs = []
        while len(specs) < lives:
            kind, p = pool[pi % len(pool)]
            pi += 1
            if kind == "P":
                k = 1 if (cover_once or rnd.random() < 0.75) else 2
                specs.append("P:%s:%d:%d" % (p, k, rnd.choice([0, 0, 5, 30])))
            elif kind == "S":
                specs.append("S:%s:1" % p)
            else:
                specs.append("X:%d:%d" % (rnd.randint(0, 9), rnd.randint(0, 7)))
        jobs.append(dict(seed=rnd.randrange(1 << 40), engine=engines[d % len(engines)], optfsync=(d % 3 != 2),
                         pre_ops=rnd.randint(6, 18), gap_ops=rnd.randint(46, 64), during_ops=rnd.randint(6, 14), specs=specs, follower=True))
    return jobs


def _advance(states, o):
    nxt = []
    for st in states:
        if o["status"] != "ack":
            nxt.append(st.copy())
        st.apply(o["cmd"])
        nxt.append(st)
    seen, out = set(), []
    for st in nxt:
        key = "\n".join(st.dump())
        if key not in seen and len(out) < 64:
            seen.add(key)
            out.append(st)
    return out


def oracle_follower(runs):
    """three-replica directory: what the killed follower serves from its own directory after every restart is the
    state after a PREFIX of the group's write history (safety), and once healed it serves what the leader serves,
    which is the whole history (convergence)"""
    fails = []
    stats = dict(follower_restarts_verified=0, follower_converged=0, follower_installs=0, follower_prefix_behind=0)
    history = []
    for r in runs:
        history.append(r["spec"])
        ident = dict(dir=r["dir"], run=r["run"], engine=r["engine"], optfsync=r["optfsync"], specs=list(history), follower=True)
        stats["follower_installs"] += sum(1 for e in (r.get("events") or []) if e.startswith("as.restore.after"))
        if r["start"].startswith("env-failure"):
            stats["env_failures"] = stats.get("env_failures", 0) + 1
            return fails, stats
        if r["start"] == "died-at-startup-point":
            continue
        if r["start"] == "inconclusive-slow":
            stats["inconclusive_slow"] = stats.get("inconclusive_slow", 0) + 1
            return fails, stats
        if r["start"] != "ready":
            fails.append(dict(name="follower-norestart-d%d-r%d" % (r["dir"], r["run"]),
                              case=dict(ident, start=r["start"], start_ms=r.get("start_ms"), log=(r.get("log") or "(the child logged nothing)")[-4000:],
                                        events_tail=(r.get("events") or [])[-12:], listing=r.get("listing")),
                              what="the follower did not come back on its own directory after the crash (%s): %s" % (history[-2] if len(history) > 1 else "-", r["start"]),
                              sig_hint=sig_of_log(r.get("log") or "", r["start"]), signature=snap_with_entries_signature(runs, r)))
            return fails, stats
        if r["run"] == 0:
            continue
        dumpv = r.get("dump") or []
        died = r.get("death") in ("crashpoint", "startup-crashpoint")
        if (not dumpv or dumpv[0].startswith("DUMP-ERROR")) and died:
            continue          # the armed point fired before the isolated follower could be read
        if dumpv and dumpv[0].startswith("DUMP-ERROR"):
            fails.append(dict(name="follower-dumperr-d%d-r%d" % (r["dir"], r["run"]), case=dict(ident, dump=dumpv, log=(r.get("log") or "")[-2000:]),
                              what="reading the restarted (isolated) follower failed: " + dumpv[0]))
            return fails, stats
        # ---- safety: a prefix-state ----
        hist = r.get("history") or []
        states = [Ref()]
        found = 0 if states[0].dump() == dumpv else None
        for j, o in enumerate(hist):
            states = _advance(states, o)
            if any(st.dump() == dumpv for st in states):
                found = j + 1      # the longest prefix that explains the dump
        if found is None:
            full = Ref()
            for o in hist:
                if o["status"] == "ack":
                    full.apply(o["cmd"])
            fails.append(dict(name="follower-state-d%d-r%d" % (r["dir"], r["run"]),
                              case=dict(ident, crash=history[-2] if len(history) > 1 else None, applied=r.get("applied"), writes=len(hist),
                                        diff_vs_all_acked=explain_diff(full.dump(), dumpv), last_events=prev_events_tail(runs, r)),
                              what="after the restart the isolated follower serves data that is not the result of applying a prefix of the group's writes"))
            return fails, stats
        stats["follower_restarts_verified"] += 1
        stats["follower_prefix_behind"] += len(hist) - found
        # ---- convergence ----
        conv = r.get("converged")
        if conv == "yes":
            cd, ld = r.get("conv_dump") or [], r.get("lead_dump") or []
            full = [Ref()]
            for o in (r.get("ops") or []):
                full = _advance(full, o)
            if cd != ld or not any(st.dump() == ld for st in full):
                fails.append(dict(name="follower-converge-d%d-r%d" % (r["dir"], r["run"]),
                                  case=dict(ident, crash=history[-2] if len(history) > 1 else None,
                                            follower_vs_leader=explain_diff(ld, cd), leader_vs_reference=explain_diff(full[-1].dump(), ld),
                                            last_events=(r.get("events") or [])[-25:]),
                                  what="after catching up the follower does not serve what the leader serves (or the leader does not serve the acknowledged writes)"))
                return fails, stats
            stats["follower_converged"] += 1
        elif conv == "timeout":
            fails.append(dict(name="follower-noconverge-d%d-r%d" % (r["dir"], r["run"]),
                              case=dict(ident, crash=history[-2] if len(history) > 1 else None, last_events=(r.get("events") or [])[-25:]),
                              what="the restarted follower (alive, healed) did not catch up with the leader within 90 s"))
            return fails, stats
    return fails, stats


def gen_systematic(seed, engines, known, ks):
    """thorough: every named point at every k of ks (and with a stall), two crashes per directory"""
    rnd = __import__("random").Random(seed + 7)
    jobs = []
    d = 0
    for p in run_points(known):
        kk = [1, 2, 3] if p.startswith(("sn.", "ck.", "ps.")) else ([1] if p.startswith("wl.") else ks)
        for k in kk:
            specs = ["X:%d:%d" % (rnd.randint(25, 60), rnd.randint(0, 7)), "P:%s:%d:0" % (p, k), "P:%s:%d:%d" % (p, k, rnd.choice([5, 30, 120]))]
            jobs.append(dict(seed=rnd.randrange(1 << 40), engine=engines[d % len(engines)], optfsync=(d % 3 != 2), ops_max=OPS_MAX, specs=specs))
            d += 1
    for p in START_ONLY + START_ALSO:
        for rep in range(3):
            specs = ["X:%d:%d" % (rnd.randint(45, 69), rnd.randint(0, 7)), "S:%s:1" % p, "S:%s:1" % p, "X:%d:0" % rnd.randint(1, 30)]
            jobs.append(dict(seed=rnd.randrange(1 << 40), engine=engines[d % len(engines)], optfsync=(d % 3 != 2), ops_max=OPS_MAX, specs=specs))
            d += 1
    return jobs


# ----------------------------------------------------------------------------------------------
# driver
# ----------------------------------------------------------------------------------------------

def port_base():
    # the task's range is 32000-33999, but everything from 32768 up is the kernel's ephemeral range
    # (other processes' outgoing connections land there): stay below it
    return 32000 + (os.getpid() % 6) * 125


def run_harness(ctx, sub, jobs, workers, follower=False):
    d = os.path.join(ctx.run_dir, sub)
    shutil.rmtree(d, ignore_errors=True)
    os.makedirs(d)
    rp = os.path.join(d, "jobs.json")
    json.dump(dict(jobs=jobs), open(rp, "w"))
    cmd = "%s %s-replay %s -out %s -workers %d -port %d" % (os.path.join(vlib.BIN, "crashnode"), "-follower " if follower else "", rp, d, workers, port_base())
    rc, out, dt = sh(cmd, cwd=d, timeout=3000)
    if rc != 0:
        return None, "the harness (crashnode) did not finish (rc=%s after %.0f s): %s" % (rc, dt, out[-2500:])
    rc2, out2, dt2 = sh("%s < cases.tsv > model.out" % vlib.modelrun_path("Recover"), cwd=d, timeout=1200)
    if rc2 != 0:
        return None, "the acceptor (extracted path model) did not finish (rc=%s after %.0f s): %s" % (rc2, dt2, out2[-2500:])
    return d, ""


def gen_powerloss(seed, engines):
    """thorough: simulated power loss (tail WAL segment zeroed from its last fdatasync on) — outside C06's crash model,
    run to show on the real code what C06_powerloss_refuted shows on the model (W1)"""
    rnd = __import__("random").Random(seed + 13)
    jobs = []
    for d in range(18):
        specs = ["X:%d:0" % rnd.randint(30, 60), "W:%d:%d" % (rnd.randint(5, 50), rnd.randint(0, 7)), "W:%d:%d" % (rnd.randint(5, 50), rnd.randint(0, 7)), "X:3:0"]
        jobs.append(dict(seed=rnd.randrange(1 << 40), engine=engines[d % len(engines)], optfsync=(d % 2 == 0), ops_max=OPS_MAX, specs=specs))
    return jobs


def evaluate_powerloss(d):
    """power-loss directories: count, per WAL mode, the restarts after which an acknowledged write was missing"""
    dirs = load_trace(os.path.join(d, "trace.jsonl"))
    out = dict(dirs=0, simulated=0, optfsync_acked_lost=0, fsync_acked_lost=0, optfsync_ok=0, fsync_ok=0, other=[])
    for di, runs in sorted(dirs.items()):
        out["dirs"] += 1
        out["simulated"] += sum(1 for r in runs if (r.get("power_loss") or "").startswith("zeroed"))
        f, st = oracle_dir(runs)
        key = "optfsync" if runs[0]["optfsync"] else "fsync"
        if not f:
            out[key + "_ok"] += 1
        elif f[0]["name"].startswith("state-"):
            out[key + "_acked_lost"] += 1
        else:
            out["other"].append(dict(dir=di, what=f[0]["what"][:160], start=f[0]["case"].get("start")))
    return out


def evaluate(d, jobs):
    """oracle + bookkeeping over one harness output directory"""
    dirs = load_trace(os.path.join(d, "trace.jsonl"))
    fails, stats, hist = [], {}, {}
    lives = 0
    events = 0
    samples = []
    for di, runs in sorted(dirs.items()):
        f, st = oracle_follower(runs) if runs and runs[0].get("role") == "follower" else oracle_dir(runs)
        for x in f:
            x["case"]["job"] = jobs[di] if di < len(jobs) else None
        fails += f
        for k, v in st.items():
            stats[k] = stats.get(k, 0) + v
        for r in runs:
            lives += 1
            events += len(r.get("events") or [])
            sp = r["spec"].split(":")
            key = sp[0] + ":" + (sp[1] if sp[0] in ("P", "S") else "")
            hist[key] = hist.get(key, 0) + 1
            hist["death=" + r["death"]] = hist.get("death=" + r["death"], 0) + 1
            hist["max_life_ms"] = max(hist.get("max_life_ms", 0), int(r.get("life_ms") or 0))
            if r["start"] == "ready" and r.get("start_ms"):
                hist.setdefault("_start_ms", []).append(int(r["start_ms"]))
            ev = r.get("events") or []
            if r["death"] in ("crashpoint", "startup-crashpoint") and ev and ev[-1].startswith("KILL "):
                kp = "killed_at:" + ev[-1].split()[1]
                hist[kp] = hist.get(kp, 0) + 1
            hist["engine=" + r["engine"]] = hist.get("engine=" + r["engine"], 0) + 1
        if len(samples) < 4 and runs:
            r = runs[min(1, len(runs) - 1)]
            samples.append(dict(dir=di, engine=r["engine"], optfsync=r["optfsync"], specs=[x["spec"] for x in runs],
                                run=r["run"], start=r["start"], death=r["death"], writes=len(r.get("ops") or []),
                                dump_head=(r.get("dump") or [])[:3], last_events=(r.get("events") or [])[-4:], listing=r.get("listing")))
    return fails, stats, hist, lives, events, samples, dirs


def signature_of(f):
    return None


def run(ctx):
    quick = ctx.tier == "quick"
    ok, out, _ = vlib.go_build("crashnode")
    if not ok:
        log("BUILD FAILED (harness crashnode):\n" + out[-3000:])
        raise SystemExit(2)
    vlib.regen_consts("Recover", "crashnode")
    proofs_ok, info = ctx.check_proofs(make_targets=["Recover/ProofsMain.vo", "Recover/Proofs.vo", "Properties/C06.vo"], gate_paths=["Recover", "Properties/C06"])
    mok, mout, _ = vlib.model_build("Recover")
    if not mok:
        log("MODEL BUILD FAILED:\n" + mout[-3000:])
        raise SystemExit(2)
    # the crash points of the source tree must all be known to the acceptor (a new point = an unmodelled sub-step)
    rc, pts, _ = sh("%s -points" % os.path.join(vlib.BIN, "crashnode"), cwd=vlib.BUILD, timeout=60)
    src_pts = sorted(set(l.split()[1] for l in pts.splitlines() if l.startswith("POINT ")))
    known = sorted(set(l.split()[1] for l in pts.splitlines() if l.startswith("KNOWN ")))
    drv = open(os.path.join(vlib.COQ, "Recover", "extract", "driver.ml")).read()
    unknown_pts = [p for p in src_pts if ('"%s"' % p) not in drv and p not in FOLLOWER_ONLY]
    missing_pts = [p for p in known if p not in src_pts]

    engines = ["pebble"] if quick else ["pebble", "mem", "rocksdb"]
    workers = 8
    batches = []   # (name, jobs)
    if ctx.replay:
        rp = json.load(open(ctx.replay))
        job = (rp.get("case") or {}).get("job") or rp.get("job")
        if job is None and rp.get("jobs"):
            batches.append(("replay", rp["jobs"]))
        elif job is not None:
            batches.append(("replay", [job]))
        else:
            log("replay file has no job: " + ctx.replay)
            raise SystemExit(2)
    else:
        corpus = []
        for fp in sorted(__import__("glob").glob(os.path.join(vlib.VERIF, "corpus", "C06", "*.json"))):
            corpus += json.load(open(fp))["jobs"]
        batches.append(("corpus", corpus))
        if quick:
            batches.append(("follower", gen_follower(ctx.seed, 6, ["pebble", "rocksdb", "mem"], cover_once=True)))
            batches.append(("sparse", gen_sparse_snapshots(ctx.seed, 3, ["pebble", "rocksdb", "mem"])
                            + gen_consecutive(ctx.seed, 3, ["rocksdb", "pebble", "mem"])
                            + gen_special(ctx.seed, 4, ["pebble", "rocksdb", "mem"])))
            batches.append(("fresh", gen_jobs(ctx.seed, 12, 4, ["pebble", "rocksdb", "mem"], known, cover_once=True)))
        else:
            batches.append(("fresh", gen_jobs(ctx.seed, 320, 9, engines, known)))
            batches.append(("systematic", gen_systematic(ctx.seed, engines, known, [1, 2, 3, 4, 5, 8, 13, 21, 34, 47, 55, 69])))
            batches.append(("follower", gen_follower(ctx.seed, 160, engines, lives=4)))
            batches.append(("sparse", gen_sparse_snapshots(ctx.seed, 45, engines) + gen_consecutive(ctx.seed, 27, engines)
                            + gen_special(ctx.seed, 36, engines)))

    all_fail, all_mism, stats_all, hist_all, samples = [], [], {}, {}, []
    not_followed = []
    start_ms_all = []
    model_stats = {}
    lives_total = events_total = cmp_total = 0
    distinct = set()
    inconclusive = 0
    bi = 0
    while bi < len(batches):
        name, jobs = batches[bi]
        bi += 1
        if quick and not ctx.replay and bi == len(batches) and name != "topup":
            # every named crash point fires at least once per run: one more directory for each point the schedule missed
            # (a point can be missed when the machine is loaded: the k-th hit did not come before the writes ended)
            pending_topup = True
        else:
            pending_topup = False
        if not jobs:
            continue
        d, err = run_harness(ctx, name, jobs, workers, follower=bool(jobs and jobs[0].get("follower")))
        if d is None:
            # a harness or an acceptor that dies is never a bare exit: the lives recorded so far go to the oracle (a node
            # that does not come back is a failing input), and the batch counts as a broken correspondence
            log("HARNESS RUN FAILED (%s): %s" % (name, err[-1500:]))
            dd = os.path.join(ctx.run_dir, name)
            if os.path.exists(os.path.join(dd, "trace.jsonl")):
                try:
                    fails, stats, hist, lives, events, smp, dirs = evaluate(dd, jobs)
                    all_fail += fails
                    lives_total += lives
                except Exception as e:      # a torn last line of the trace
                    log("partial trace not evaluated: %r" % (e,))
            all_mism.append(("harness:" + name, "(the batch did not finish)", err[-1500:], None))
            continue
        fails, stats, hist, lives, events, smp, dirs = evaluate(d, jobs)
        mism, cnt = vlib.diff_outputs(os.path.join(d, "impl.out"), os.path.join(d, "model.out"))
        # the last life of a directory has no later start to predict: its "rec=?" is not compared
        real_mism = []
        for (cid, a, b) in mism:
            la = (a or "").split(" | ")
            lb = (b or "").split(" | ")
            if len(la) == len(lb) and all(x == y or (x.endswith("rec=?") and y.startswith(x[:-1])) for x, y in zip(la, lb)):
                continue
            bad = [(i, x, y) for i, (x, y) in enumerate(zip(la, lb)) if not (x == y or (x.endswith("rec=?") and y.startswith(x[:-1])))]
            if any(":107:" in x for x in lb):
                # a step the model does not follow (Path.R_OUT): the directory is outside the model, its event logs are
                # not compared (the oracle on its dumps still applies); counted in the evidence
                not_followed.append(name + ":" + cid + " " + next(x for x in lb if ":107:" in x))
                continue
            di = int(cid[1:])
            real_mism.append((name + ":" + cid, "life %d: %s" % (bad[0][0], bad[0][1]) if bad else a, "life %d: %s" % (bad[0][0], bad[0][2]) if bad else b,
                              jobs[di] if di < len(jobs) else None))
        all_mism += real_mism
        all_fail += fails
        try:
            for ln in open(os.path.join(d, "model.stats")):
                k, v = ln.split()
                model_stats[k] = max(model_stats.get(k, -1), int(v)) if k.startswith("max_window") else model_stats.get(k, 0) + int(v)
        except OSError:
            pass
        cmp_total += cnt
        lives_total += lives
        events_total += events
        inconclusive += stats.get("env_failures", 0)
        for k, v in stats.items():
            stats_all[k] = stats_all.get(k, 0) + v
        for k, v in hist.items():
            if k == "_start_ms":
                start_ms_all.extend(v)
                continue
            hist_all[k] = max(hist_all.get(k, 0), v) if k.startswith("max_") else hist_all.get(k, 0) + v
        if pending_topup:
            got = set(k.split(":", 1)[1] for k in hist_all if k.startswith("killed_at:"))
            miss = [p for p in known if p not in FOLLOWER_ONLY and p not in got]   # (the follower points have their own batch)
            if miss:
                rnd = __import__("random").Random(ctx.seed + 99)
                tj = []
                for i, p in enumerate(miss):
                    sp = ["X:%d:0" % rnd.randint(50, OPS_MAX - 1), "X:%d:0" % rnd.randint(30, OPS_MAX - 1), spec_for(rnd, p, "first", stall=0)]
                    tj.append(dict(seed=rnd.randrange(1 << 40), engine=["pebble", "rocksdb", "mem"][i % 3], optfsync=True, ops_max=OPS_MAX, specs=sp))
                batches.append(("topup", tj))
        samples += smp
        for di, runs in dirs.items():
            for r in runs:
                # non-trivial: a life that was verified after a crash and had writes in flight or acknowledged
                if r["start"] == "ready" and (r.get("ops") or r["run"] > 0):
                    distinct.add(vlib.case_hash(json.dumps([r["engine"], r["spec"], [o["cmd"] for o in (r.get("ops") or [])], r["death"]])))
    powerloss = None
    if not quick and not ctx.replay:
        pj = gen_powerloss(ctx.seed, engines)
        dpl, err = run_harness(ctx, "powerloss", pj, workers)
        if dpl is not None:
            powerloss = evaluate_powerloss(dpl)
            ctx.notes.append("simulated power loss (outside C06's crash model; W1): %s" % json.dumps(powerloss))
    # the schedule hypothesis of the theorems (ProofsMain.sched_ok), evaluated by the acceptor (Path.sched_holds) before
    # every event: an event log on which it is false is rejected (reason 106) and fails the correspondence
    if model_stats.get("sched_hypothesis_false", 0) > 0 and not any("rej:" in (m[2] or "") and ":106:" in (m[2] or "") for m in all_mism):
        ctx.notes.append("the schedule hypothesis was false on %d explored event-log branches; the accepted branches satisfy it" % model_stats["sched_hypothesis_false"])
    consts_txt = open(os.path.join(vlib.COQ, "Recover", "Consts.v")).read()
    mm_iv = re.search(r"snap_purge_interval_min : nat := (\d+)", consts_txt)
    purge_interval_s = 60 * int(mm_iv.group(1)) if mm_iv else None
    max_life_s = hist_all.get("max_life_ms", 0) / 1000.0
    killed_at = sorted(k.split(":", 1)[1] for k in hist_all if k.startswith("killed_at:"))
    never_killed_at = [p for p in known if p != "rc.snap.none" and p not in killed_at]
    if never_killed_at and not ctx.replay:
        ctx.notes.append("named crash points at which no kill fired in this run: " + ",".join(never_killed_at))
    if unknown_pts or missing_pts:
        all_mism.append(("points", "source: " + ",".join(unknown_pts), "harness/model: " + ",".join(missing_pts), None))
    if inconclusive:
        ctx.notes.append("%d process starts failed for environmental reasons (port in use) and were retried; not judged" % inconclusive)

    def search():
        jobs = gen_jobs(ctx.seed + 1000003, 48, 8, ["pebble", "mem", "rocksdb"], known)
        # aim at the diverging schedules as well
        for m in all_mism[:6]:
            if m[3]:
                for rep in range(3):
                    j = dict(m[3])
                    j["seed"] = j["seed"] + rep + 1
                    jobs.append(j)
        d2, err = run_harness(ctx, "search", jobs, workers)
        if d2 is None:
            return []
        fails, _, _, _, _, _, _ = evaluate(d2, jobs)
        return fails

    mm = [(m[0], m[1], m[2]) for m in all_mism]
    vlib.standard_verdict(ctx, proofs_ok, mm, all_fail, search_fn=search,
                          corr_name="Recover/Path.v as acceptor of the crash-point event logs of real kill/restart cycles "
                                    "(every logged point an enabled sub-step; directory listing after each death; snapshot chosen and "
                                    "log replayed by each restart)")
    hist_all.update({"oracle." + k: v for k, v in stats_all.items()})
    ctx.finish(dict(
        traces_validated_against_impl=lives_total,
        evaluations=stats_all.get("restarts_verified", 0),
        distinct_nontrivial=len(distinct),
        rule="a case is one life of a real single-replica data node (server.NewServer + InitKVNamespace, SnapCount 20, 8 KiB WAL segments, "
             "KeepWAL = KeepBackup = 2) between a start and a death (named crash point at its k-th hit, with or without a stall; kill -9 from outside "
             "while a write is in flight; crash point during the restart itself). traces_validated = lives whose event log the path model accepted and whose "
             "directory listing and next restart it predicted; evaluations = restarts after which the full dump was compared with the acknowledged history. "
             "Non-trivial = a life that served writes or recovered from a crash; distinct by hash of (engine, crash spec, write sequence, death).",
        histogram=hist_all,
        crash_point_events_accepted=events_total,
        crash_points_in_source=len(src_pts),
        powerloss_simulation=powerloss,
        crash_points_killed_at=len(killed_at),
        crash_points_never_killed_at=never_killed_at,
        purge_schedule=dict(interval_s=purge_interval_s, first_pass_at_start=True, max_life_s=max_life_s,
                            note="constants read from node/raft.go and pkg/fileutil/purge.go by crashnode -consts; every life of the run is shorter "
                                 "than the interval, so every purge decision observed belongs to the pass at the start of a life"
                                 if (purge_interval_s and max_life_s < purge_interval_s) else "a life lasted longer than the purge interval: timer passes may have been observed"),
        schedule_hypothesis=dict(evaluated_by="Path.sched_holds (extracted) before every accepted event; a log on which it is false is rejected (reason 106)",
                                 snap_purge_decisions=model_stats.get("snap_purge_decisions", 0),
                                 max_window_at_snap_purge=model_stats.get("max_window_at_snap_purge", -1),
                                 keep_backup=2, holds=not any(":106:" in (m[2] or "") for m in all_mism)),
        acceptor=dict(model_stats, note="max_window_at_snap_purge = most snapshot goroutines between 'snap file written' and 'WAL marker written' at a "
                                        "decision of the snap directory purge (the schedule hypothesis of the theorems needs fewer than KeepBackup = 2 there; "
                                        "-1 = no such decision seen); max_window = the same over all states; log_order_races = events accepted after "
                                        "completing another goroutine's in-flight sub-step (the events passed through candidate crash images count too)"),
        mismatches=len(all_mism),
        child_startup_ms=(lambda v: dict(n=len(v), p50=v[len(v) // 2], p95=v[(len(v) * 95) // 100], max=v[-1]) if v else dict(n=0))(sorted(start_ms_all)),
        slow_environment=dict(slow_starts_retried=stats_all.get("slow_starts", 0), inconclusive_slow=stats_all.get("inconclusive_slow", 0),
                              env_failures=stats_all.get("env_failures", 0),
                              note="a start is a failure of the property only with positive evidence (the child exited or reported an error of its "
                                   "start, or its log holds a recovery error, or it was alive past its restart and refused to serve twice under budgets of "
                                   "90 s + 60 s); a child that is merely slow is retried once on fresh ports and then reported here as inconclusive"),
        not_followed=dict(directories=len(not_followed), first=not_followed[:3],
                          note="directories in which the code took a step the path model does not follow (reject reason 107: "
                               "a checkpoint fetched under the index the backup loop is writing, a local snapshot at the index of an "
                               "incoming snapshot whose record a crash left invalid; neither seen so far): their event logs are not compared, their dumps are checked"),
        samples=samples[:5],
    ), assumptions=[
        "crash model of the theorems: process death (SIGKILL): everything handed to write(2) survives, buffered WAL records may be lost; "
        "power loss is refuted separately for optimizedFsync (C06_powerloss_refuted)",
        "one replica is modelled: its peers appear as the source of the Readys, of an incoming snapshot's index and of its checkpoint, which is assumed to "
        "hold the state at that index (C14, C15); a Ready carries an incoming snapshot alone (open finding otherwise: known_findings.d/recover.jsonl)",
        "schedule hypotheses (evaluated on every run): snap directory purge with fewer snapshots in the window than files kept; no checkpoint purge "
        "between an incoming snapshot's snap file and the hard state that makes its record valid",
        "a checkpoint named i holds the engine content of the moment the apply loop asked for it (C14's concern; pebble releases the apply loop by a timer)",
        "raft hands out entries without gaps and never lowers the commit index (checked on every observed Ready by the acceptor)",
    ])


if __name__ == "__main__":
    import sys
    dirs = load_trace(sys.argv[1])
    for d, runs in sorted(dirs.items()):
        f, st = oracle_dir(runs)
        print(d, st, json.dumps(f, indent=1)[:3000] if f else "OK")
