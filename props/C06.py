"""C06 — a data node restarted after a crash serves exactly the acknowledged state."""
import itertools
import json
import os
import re
import shutil

import vlib
from vlib import sh, log

# ----------------------------------------------------------------------------------------------
# reference semantics of the write commands the harness issues (Redis semantics, per-type keys)
# ----------------------------------------------------------------------------------------------


class Ref:
    def __init__(self):
        self.kv, self.li, self.ha, self.se = {}, {}, {}, {}

    def copy(self):
        r = Ref()
        r.kv = dict(self.kv)
        r.li = {k: list(v) for k, v in self.li.items()}
        r.ha = {k: dict(v) for k, v in self.ha.items()}
        r.se = {k: set(v) for k, v in self.se.items()}
        return r

    def apply(self, cmd):
        """returns the reply Redis gives"""
        c, k = cmd[0], cmd[1].split(":", 2)[2]
        if c == "set":
            self.kv[k] = cmd[2]
            return "+OK"
        if c == "incr":
            v = int(self.kv.get(k, "0")) + 1
            self.kv[k] = str(v)
            return ":%d" % v
        if c == "append":
            self.kv[k] = self.kv.get(k, "") + cmd[2]
            return ":%d" % len(self.kv[k])
        if c == "lpush":
            self.li.setdefault(k, []).insert(0, cmd[2])
            return ":%d" % len(self.li[k])
        if c == "hincrby":
            h = self.ha.setdefault(k, {})
            h[cmd[2]] = h.get(cmd[2], 0) + int(cmd[3])
            return ":%d" % h[cmd[2]]
        if c == "sadd":
            s = self.se.setdefault(k, set())
            new = cmd[2] not in s
            s.add(cmd[2])
            return ":%d" % (1 if new else 0)
        raise ValueError("unknown command %r" % (cmd,))

    def dump(self):
        out = []
        for k, v in self.kv.items():
            out.append("K %s $%s" % (k, v))
        for k, v in self.li.items():
            out.append("L %s [%s]" % (k, ",".join("$" + x for x in v)))
        for k, v in self.ha.items():
            out.append("H %s [%s]" % (k, ",".join(sorted("$%s=$%d" % (f, n) for f, n in v.items()))))
        for k, v in self.se.items():
            out.append("S %s [%s]" % (k, ",".join(sorted("$" + x for x in v))))
        return sorted(out)


def explain_diff(want, got):
    w, g = set(want), set(got)
    return dict(missing_or_different=sorted(w - g)[:8], unexpected=sorted(g - w)[:8])


def oracle_dir(runs):
    """The property itself on one directory's kill/restart history (no model involved).
    runs: RunRec dicts in order. Returns (failures, stats)."""
    fails = []
    stats = dict(restarts_verified=0, acked=0, lost_applied=0, lost_dropped=0, indoubt_err=0, reply_checked=0)
    base = Ref()
    pending = []   # ops issued since the last verified dump: (cmd, status, reply)
    history = []   # crash specs so far (for the replay)
    for r in runs:
        history.append(r["spec"])
        ident = dict(dir=r["dir"], run=r["run"], engine=r["engine"], optfsync=r["optfsync"], specs=list(history))
        if r["start"] not in ("ready", "died-at-startup-point"):
            fails.append(dict(name="norestart-d%d-r%d" % (r["dir"], r["run"]), case=dict(ident, start=r["start"], log=(r.get("log") or "")[-3000:],
                                                                                       listing=r.get("listing")),
                              what="the node did not come back on its own directory after the crash (%s): %s" % (history[-2] if len(history) > 1 else "-", r["start"]),
                              sig_hint=sig_of_log(r.get("log") or "", r["start"])))
            return fails, stats
        if r["start"] == "died-at-startup-point":
            continue
        mk = r.get("marker")
        if mk is None or mk["status"] != "ack":
            if mk is not None and mk["status"] == "lost":
                # died while answering the first write after the restart: nothing to verify in this run
                pending.append((mk["cmd"], "lost", None))
                if r.get("death") == "unexpected-exit" or r["spec"] in ("final",):
                    fails.append(dict(name="diedafterstart-d%d-r%d" % (r["dir"], r["run"]), case=dict(ident, log=(r.get("log") or "")[-3000:]),
                                      what="the restarted node died on the first write without a crash being injected"))
                    return fails, stats
                for o in r["ops"] or []:
                    pending.append((o["cmd"], o["status"], o.get("reply")))
                continue
            fails.append(dict(name="nowrite-d%d-r%d" % (r["dir"], r["run"]), case=dict(ident, marker=mk),
                              what="the restarted node never accepted a write"))
            return fails, stats
        dumpv = r.get("dump") or []
        if dumpv and dumpv[0].startswith("DUMP-ERROR") and r["spec"].startswith("S:") and r.get("death") == "crashpoint":
            # the crash point armed through the environment fired while the dump was being read: nothing verified in this run
            pending.append((mk["cmd"], "ack", mk["reply"]))
            continue
        if dumpv and dumpv[0].startswith("DUMP-ERROR"):
            fails.append(dict(name="dumperr-d%d-r%d" % (r["dir"], r["run"]), case=dict(ident, dump=dumpv), what="reading the restarted node failed: " + dumpv[0]))
            return fails, stats
        # every acknowledged op is in; each unanswered / error-answered op is in or out
        doubt = [i for i, p in enumerate(pending) if p[1] != "ack"]
        ok = None
        if len(doubt) <= 10:
            for choice in itertools.product([False, True], repeat=len(doubt)):
                inc = dict(zip(doubt, choice))
                st = base.copy()
                good = True
                for i, (cmd, status, reply) in enumerate(pending):
                    if status != "ack" and not inc[i]:
                        continue
                    rep = st.apply(cmd)
                    if status == "ack" and rep != reply:
                        good = False
                        break
                if not good:
                    continue
                st.apply(mk["cmd"])
                if st.dump() == dumpv:
                    ok = (st, inc)
                    break
        if ok is None:
            # diagnose against the "all acknowledged, nothing else" state
            st = base.copy()
            badreply = None
            for cmd, status, reply in pending:
                if status == "ack":
                    rep = st.apply(cmd)
                    if rep != reply and badreply is None:
                        badreply = dict(cmd=cmd, reply=reply, reference=rep)
            st.apply(mk["cmd"])
            fails.append(dict(name="state-d%d-r%d" % (r["dir"], r["run"]),
                              case=dict(ident, crash=history[-2] if len(history) > 1 else None,
                                        acked=sum(1 for p in pending if p[1] == "ack"), unanswered=len(doubt),
                                        diff_vs_all_acked=explain_diff(st.dump(), dumpv), first_bad_reply=badreply,
                                        last_events=prev_events_tail(runs, r)),
                              what="after the restart the served data is not the result of applying, in order, the acknowledged writes plus a subset of the unanswered ones"))
            return fails, stats
        st, inc = ok
        stats["restarts_verified"] += 1
        for i, (cmd, status, reply) in enumerate(pending):
            if status == "ack":
                stats["acked"] += 1
                stats["reply_checked"] += 1
            elif status == "lost":
                stats["lost_applied" if inc[i] else "lost_dropped"] += 1
            else:
                stats["indoubt_err"] += 1
        base = st
        pending = [(o["cmd"], o["status"], o.get("reply")) for o in (r["ops"] or [])]
        if r.get("death") == "unexpected-exit":
            fails.append(dict(name="exit-d%d-r%d" % (r["dir"], r["run"]), case=dict(ident, log=(r.get("log") or "")[-3000:]),
                              what="the node exited on its own while serving writes"))
            return fails, stats
    return fails, stats


def prev_events_tail(runs, r):
    for p in runs:
        if p["dir"] == r["dir"] and p["run"] == r["run"] - 1:
            return (p.get("events") or [])[-25:]
    return []


def sig_of_log(logtxt, start):
    m = re.search(r"(wal: [a-z ]+|snap: [a-z ]+|no backup[a-z ]*|index out of range[a-z ,:]*|file not found|crc mismatch)", logtxt + " " + start)
    return m.group(1) if m else start.split(" ")[0]


def load_trace(path):
    dirs = {}
    for line in open(path):
        r = json.loads(line)
        dirs.setdefault(r["dir"], []).append(r)
    for d in dirs.values():
        d.sort(key=lambda r: r["run"])
    return dirs


if __name__ == "__main__":
    import sys
    dirs = load_trace(sys.argv[1])
    for d, runs in sorted(dirs.items()):
        f, s = oracle_dir(runs)
        print(d, s, json.dumps(f, indent=1)[:3000] if f else "OK")
