"""C11 — no client input can crash a replica or leave a partial write behind."""
import collections
import glob
import json
import os
import re
import shutil
import subprocess
import time

import vlib
from vlib import sh, log

GROUP = "Valid"
BIN = "nodesim"
# input classes of OPEN known findings that would take the harness down (harness flag -avoid);
# maps the harness' class name to the known-finding signature
DANGER = {
    "json-huge-index": "rockredis jSetPath: sjson pads an array with nulls up to a numeric path part; JSON.SET / JSON.ARRAPPEND with a huge array index",
    "scan-negative-count": "node scan handlers index ay[len(ay)-1] with COUNT < 0 and an empty page",
}


def rd(path):
    o = collections.OrderedDict()
    if not os.path.exists(path):
        return o
    for line in open(path, errors="replace"):
        line = line.rstrip("\n")
        i = line.find("\t")
        if i > 0:
            o[line[:i]] = line[i + 1:]
    return o


def unb(x):
    """one argument: hex, or <hexprefix>~<n>~<bb> (prefix followed by n times the byte bb)"""
    if x == "-":
        return b""
    if "~" in x:
        p, n, bb = x.split("~")
        return (bytes.fromhex(p) if p else b"") + bytes([int(bb, 16)]) * int(n)
    return bytes.fromhex(x)


def unh(h):
    if h == "":
        return []
    return [unb(x) for x in h.split(",")]


def show(args, lim=48):
    out = []
    for a in args[:16]:
        s = a.decode("latin1")
        s = "".join(c if 32 <= ord(c) < 127 and c != '"' else "\\x%02x" % ord(c) for c in s)
        if len(s) > lim:
            s = s[:20] + "...(%d bytes)" % len(a)
        out.append(s)
    if len(args) > 16:
        out.append("...(%d args)" % len(args))
    return " ".join('"%s"' % s if (" " in s or s == "") else s for s in out)


def kv(s):
    d = {}
    for t in s.split(" "):
        if "=" in t:
            k, v = t.split("=", 1)
            d[k] = v
    return d


# ---------------- projections compared with the model ----------------
def proj_impl(k, v):
    t = v.split(" ")
    if k[0] == "U":
        return v
    if k[0] == "L":
        kind, verd, rep = t[0], t[1], t[2]
        if verd == "skipped":
            return None
        if kind == "r":
            return "read"
        if kind == "m":
            return "mread"
        if rep == "timeout":
            return "noreply"
        if rep == "closed":
            return "closed"
        if verd == "prop":
            return "prop"
        return "noprop-" + ("ok" if rep in ("ok", "mixed") else "err")
    return t[0]


def correspondence(d):
    """model vs implementation. Returns (mismatches, compared)."""
    impl = rd(os.path.join(d, "impl.out"))
    model = rd(os.path.join(d, "model.out"))
    cases = rd(os.path.join(d, "cases.tsv"))
    mm = []
    n = 0
    for k, v in impl.items():
        a = proj_impl(k, v)
        if a is None:
            continue
        n += 1
        m = model.get(k)
        b = m.split(" ")[0] if m else None
        if b in ("local-ok", "local-err"):
            # answered from the local store without a proposal; the shortcut is taken only behind the
            # read-index barrier (node.isLocalStoreCurrent), otherwise the command is proposed
            if a not in ("noprop-" + b[6:], "prop"):
                mm.append((k, v, m))
            continue
        if a != b:
            mm.append((k, v, m))
            continue
        if k[0] == "A" and a == "nopanic":
            # the model knows only the argument shape: "perr" (handler returns an error before the
            # store is called) must be an error reply; a store-level error is state dependent
            mt, vt = m.split(" "), v.split(" ")
            if mt[1] == "perr" and vt[1] == "ok":
                mm.append((k, v, m))
            elif mt[1] == "perr" and len(mt) > 2 and len(vt) > 2:
                # ... and its text must start with the fixed prefix the model gives for that error (strconv
                # prefixes, texts of the error variables read through the hook, the PLSET arity text)
                want, got = unh(mt[2])[0] if mt[2] != "-" else b"", unh(vt[2])[0] if vt[2] != "-" else b""
                if not got.startswith(want[:len(got)]) or (len(got) < len(want) and len(got) < 48):
                    mm.append((k, v, m))
        if k[0] == "L" and a == "prop":
            # what the leader put into the log: the model's proposed command must be the one the
            # harness fed to the replicas (same argument count and bytes, except GEOADD's scores)
            ak = "A" + k[1:] + ".1"
            if ak in cases and unh(cases[k].split("\t")[1])[0].lower() != b"geoadd":
                want = cases[ak].split("\t")[2]
                got = m.split(" ")[1] if " " in m else ""
                if unh(want)[1:] != unh(got)[1:]:
                    mm.append((k, "proposed " + want[:200], "proposed " + got[:200]))
    for k in model:
        if k not in impl and k in cases:
            pass
    return mm, n


# ---------------- the direct oracle (no model) ----------------
def oracle(d, rc):
    """The property evaluated on the implementation's observables."""
    fails = []
    hist = collections.Counter()
    orc = rd(os.path.join(d, "oracle.tsv"))
    vec = {}
    order = []
    vp = os.path.join(d, "vectors.tsv")
    if os.path.exists(vp):
        for line in open(vp, errors="replace"):
            p = line.rstrip("\n").split("\t")
            if len(p) >= 2:
                vec[p[0]] = p
                order.append(p[0])
    notes = collections.Counter()

    def mk(name, ids, what, sig=None, extra=None):
        ids = [i for i in ids if i in vec]
        # replay = the failing vector(s) alone first; the harness adds the initial state
        cfg = kv(orc.get("CFG", ""))
        c = dict(policy=cfg.get("policy", ""), engine=cfg.get("engine", ""), v2=cfg.get("v2", "false"),
                 vectors=["%s\t%s" % (vec[i][0], vec[i][1]) for i in ids],
                 commands=[show(unh(vec[i][1])) for i in ids][:8], dir=os.path.basename(d))
        if ids:
            # history up to the failing vector (bounded), for state dependent failures
            pos = order.index(ids[-1])
            c["history"] = ["%s\t%s" % (vec[i][0], vec[i][1]) for i in order[max(0, pos - 300):pos + 1]
                            if len(vec[i][1]) < 4000]
        if extra:
            c.update(extra)
        f = dict(name=name, case=c, what=what)
        if sig:
            f["signature"] = sig
        fails.append(f)

    model = rd(os.path.join(d, "model.out"))

    def name_of(vid):
        return unh(vec[vid][1])[0].decode("latin1").lower() if vid in vec else "?"

    verdict_of = {}
    for k, v in orc.items():
        f = kv(v)
        if k[0] == "L":
            vid = k[1:]
            verdict_of[vid] = f.get("verdict")
            name = unh(vec[vid][1])[0].decode("latin1").lower() if vid in vec else "?"
            hist["reply:" + f.get("reply", "?")] += 1
            hist["verdict:" + f.get("verdict", "?")] += 1
            if f.get("verdict") == "avoided":
                sig = DANGER.get(f.get("sig"), f.get("sig"))
                mk("avoided-" + vid, [vid], "input of an open known finding (not executed): " + f.get("sig", ""), sig=sig)
                continue
            if f.get("reply") == "err" and f.get("changed", "0") != "0":
                mk("error-changed-" + vid, [vid],
                   "the command answered with an error but changed %s engine keys" % f.get("changed"))
            pr = f.get("probe", "skip")
            if pr not in ("ok", "skip"):
                mk("probe-" + vid, [vid], "after this command a fixed probe write misbehaved (%s): buffered writes leaked or the node is stuck" % pr)
            if f.get("reply") == "closed":
                notes["connection closed (recovered handler panic): " + name] += 1
            if f.get("reply") == "timeout":
                notes["no reply: " + name] += 1
        elif k[0] == "A":
            vid = k[1:].split(".")[0]
            # acceptable = the live leader proposed it, or the model's leader accepts its shape (the live
            # node may have answered from a state dependent shortcut without proposing)
            acceptable = f.get("verdict") == "prop" or (model.get("L" + vid, "").split(" ")[0] in ("prop", "local-ok", "local-err"))
            sb = f.get("sandbox")
            if sb in ("panic", "hung") and acceptable:
                mk("apply-%s-%s" % (sb, vid), [vid],
                   "a vector the leader accepts makes ApplyRaftRequest %s: %s" % (sb, bytes.fromhex(f.get("msg", "") if f.get("msg", "-") != "-" else "").decode("latin1")))
            if sb == "precheck-passed-but-error":
                et = bytes.fromhex(f.get("err", "") if f.get("err", "-") != "-" else "").decode("latin1")
                mk("precheck-%s" % vid, [vid],
                   "node.isValidBatchableWrite lets this command join the shared write batch of the apply loop, but its handler refuses it (%s): "
                   "inside a batch that error aborts the batch and the other clients' writes collected so far are dropped and answered with this error" % et)
            if sb in ("error-changed", "leak"):
                et = bytes.fromhex(f.get("err", "") if f.get("err", "-") != "-" else "").decode("latin1")
                if acceptable:
                    mk("apply-%s-%s" % (sb, vid), [vid],
                       "applied directly, a vector the leader accepts answered an error (%s) but %s (engine key %s)" % (
                           et, "changed the committed state" if sb == "error-changed" else "left writes in the shared batch that the next command committed", f.get("key")))
                else:
                    notes["direct apply of a leader-REJECTED vector: error (%s) with %s: %s" % (et, sb, name_of(vid))] += 1
            hist["sandbox:" + (sb or "?")] += 1
        elif k[0] == "G":
            hist["pipeline:" + ("closed" if f.get("closed") == "true" else "timeout" if f.get("timeout") == "true" else "ok")] += 1
            if f.get("closed") != "true" and f.get("timeout") != "true" and f.get("pipeline") != f.get("replies"):
                notes["pipelined SET group answered with a different number of replies than commands"] += 1
        elif k[0] == "P":
            hist["pair:" + f.get("pair", "?")] += 1
            if f.get("pair") != "eq":
                ids = [i for i in f.get("ids", "").split(",") if not i.startswith("N")]
                mk("pair-%s-%s" % (f.get("pair"), k), ids,
                   "replicas A (accepted commands batched as the apply loop batches them, half of them between two valid batchable neighbour writes N..), B (the same without the requests that answered an error) and C (every request alone) disagree, a valid neighbour lost its reply, or A failed: %s %s" % (f.get("pair"), f.get("detail", "")),
                   extra=dict(rsp=f.get("rsp")))
    # the process must stay alive: the journal names the vector in flight
    jl = []
    jp = os.path.join(d, "journal.txt")
    if os.path.exists(jp):
        jl = [l.rstrip("\n") for l in open(jp, errors="replace") if l.strip()]
    ended = bool(jl) and jl[-1].startswith("END")
    if not ended and rc in (-9, 137):
        notes["run truncated by the wall-clock guard of the check (%d vectors evaluated)" % len(verdict_of)] += 1
    elif not ended and rc not in (0, 3):
        if jl and jl[-1].startswith("WATCHDOG"):
            ph = jl[-1].split("\t")[1] if "\t" in jl[-1] else "?"
            vid = ph.split(":")[-1]
            tail = ""
            lp = os.path.join(d, "server.log")
            if os.path.exists(lp):
                txt = open(lp, errors="replace").read()
                i = txt.find("WATCHDOG")
                j = txt.find("goroutine 1 ", i)
                tail = txt[j:j + 2500] if j >= 0 else txt[i:i + 1500]
            mk("harness-blocked-" + vid, [vid] if vid in vec else [],
               "the run made no progress for 90 s in phase %s: an engine lock / write batch left open by an earlier command blocks every later write (see the erroring commands in the history)" % ph,
               extra=dict(trace=tail))
        elif jl and jl[-1].startswith("STUCK"):
            vid = jl[-1].split("\t")[1][1:]
            tail = ""
            lp = os.path.join(d, "server.log")
            if os.path.exists(lp):
                txt = open(lp, errors="replace").read()
                i = txt.find("APPLY LOOP STUCK")
                j = txt.find("ApplyRaftRequest", i)
                tail = txt[max(i, j - 1500):j + 1200] if i >= 0 else ""
            mk("apply-loop-stuck-" + vid, [vid], "the live node stopped applying committed entries (a probe write was not applied within 45 s); goroutine dump in the harness log", extra=dict(trace=tail))
        elif jl and jl[-1].startswith("HUNG"):
            where = jl[-1].split("\t")[1]
            vid = where[1:].split(".")[0]
            if where[0] == "X":
                mk("expiry-sweep-hung-" + vid, [], "one pass of the local_deletion expiry sweep on the live node's store does not return (15 s): the apply loop hangs behind it", extra=dict(note="replay the history of this run; the sweep needs expired keys of several data types"))
            elif where[0] == "P" or verdict_of.get(vid) == "prop":
                mk("apply-hung-" + vid, [vid] if where[0] != "P" else [], "ApplyRaftRequest does not return (15 s) on a vector the leader accepted")
            else:
                mk("sandbox-hung-" + vid, [vid], "ApplyRaftRequest does not return (15 s) on a vector fed directly to apply (the leader rejected it)")
        elif jl:
            vid = jl[-1].split("\t")[0]
            grp = None
            if vid not in vec and "\t" in jl[-1] and ";" in jl[-1].split("\t")[1]:
                grp = jl[-1].split("\t")[1]   # a pipelined group (several commands in one TCP write)
            tail = ""
            lp = os.path.join(d, "server.log")
            if os.path.exists(lp):
                txt = open(lp, errors="replace").read()
                i = txt.find("panic:")
                if i < 0:
                    i = txt.find("fatal error")
                tail = txt[i:i + 1500] if i >= 0 else txt[-600:]
            if grp:
                mk("process-died-" + vid, [], "the server process died (exit %s) while this pipelined group (one TCP write) was being handled" % rc,
                   extra=dict(trace=tail, vectors=["%s\t%s" % (vid, grp)], history=["%s\t%s" % (vid, grp)],
                              commands=[show(unh(c)) for c in grp.split(";")]))
            else:
                mk("process-died-" + vid, [vid], "the server process died (exit %s) while this vector was being handled" % rc, extra=dict(trace=tail))
    end = kv(orc.get("END", ""))
    if end.get("stalls", "0") != "0":
        notes["apply loop answered a probe later than 2 s (load), recovered: %s times" % end["stalls"]] += 1
    if end.get("untemplated"):
        notes["registered commands without a hand-written template (generic templates used): " + end["untemplated"]] += 1
    return fails, hist, notes, vec


def nlines(p):
    try:
        with open(p, "rb") as f:
            return sum(1 for _ in f)
    except OSError:
        return -1


def model_bin(ctx, fresh=False):
    """A private copy of the extracted model: the shared binary may be relinked by another ./check in the same tree."""
    dst = os.path.join(ctx.run_dir, "modelrun")
    if fresh or not os.path.exists(dst):
        tmp = dst + ".%d" % time.time_ns()
        shutil.copy2(vlib.modelrun_path(GROUP), tmp)
        os.replace(tmp, dst)
    return dst


def run_epochs(ctx, jobs, avoid, budget=600):
    """jobs: list of (subdir, args string). Runs the harness processes in parallel, then the model."""
    procs = []
    for sub, args in jobs:
        d = os.path.join(ctx.run_dir, sub)
        shutil.rmtree(d, ignore_errors=True)
        os.makedirs(d)
        cmd = "%s %s -out %s%s" % (os.path.join(vlib.BIN, BIN), args, d, (" -avoid " + avoid) if avoid else "")
        env = dict(os.environ)
        env.update(vlib.GOENV)
        procs.append((sub, d, cmd, subprocess.Popen(cmd, shell=True, cwd=d, env=env, stdout=subprocess.PIPE, stderr=subprocess.STDOUT)))
    res = []
    t_end = time.time() + budget
    mprocs = []

    def start_model(d):
        # the sized values of the length sweep are long lists in the extracted model: no stack limit
        mprocs.append((d, subprocess.Popen("ulimit -s unlimited 2>/dev/null; %s < cases.tsv > model.out" % model_bin(ctx),
                                           shell=True, cwd=d, executable="/bin/bash")))

    pending = list(procs)
    while pending:
        progressed = False
        for item in list(pending):
            sub, d, cmd, p = item
            if p.poll() is None and time.time() < t_end:
                continue
            progressed = True
            pending.remove(item)
            if p.poll() is None:
                # hard cap of the whole batch of jobs: what was written so far is still evaluated
                p.kill()
            out, _ = p.communicate()
            out = out.decode("utf-8", "replace")
            rc = p.returncode
            jp = os.path.join(d, "journal.txt")
            if rc in (1, 2, 3) and (not os.path.exists(jp) or os.path.getsize(jp) == 0):
                # nothing was sent yet: server start problem (a port taken by an unrelated outgoing
                # connection, slow election): retries on other ports
                for attempt in (1, 2, 3):
                    time.sleep(1)
                    m = re.search(r"-port (\d+)", cmd)
                    if m:   # another port triple (the range overlaps the kernel's ephemeral ports)
                        cmd = cmd.replace("-port " + m.group(1), "-port %d" % (34000 + (int(m.group(1)) - 34000 + 211 * attempt) % 990))
                    rc, out, _ = sh(cmd, cwd=d, timeout=max(30, t_end - time.time()))
                    if rc not in (1, 2, 3) or (os.path.exists(jp) and os.path.getsize(jp) > 0):
                        break
            res.append((sub, d, rc, out))
            start_model(d)     # the model of a finished job runs while the other jobs are still going
        if not progressed:
            time.sleep(0.3)
    for d, p in mprocs:
        p.wait()
        # a model run that did not answer every case (its binary replaced under it by a concurrent build in the same
        # tree) is repeated once from a fresh copy
        if nlines(os.path.join(d, "model.out")) != nlines(os.path.join(d, "cases.tsv")):
            time.sleep(2)
            sh("ulimit -s unlimited 2>/dev/null; %s < cases.tsv > model.out" % model_bin(ctx, fresh=True), cwd=d, timeout=600)
    order = {sub: i for i, (sub, _) in enumerate(jobs)}
    res.sort(key=lambda r: order.get(r[0], 0))
    return res


def run(ctx):
    quick = ctx.tier == "quick"
    ok, out, _ = vlib.go_build(BIN)
    if not ok:
        log("BUILD FAILED (harness nodesim):\n" + out[-3000:])
        raise SystemExit(2)
    vlib.regen_consts(GROUP, BIN)
    proofs_ok, info = ctx.check_proofs(make_targets=["Valid/Proofs.vo", "Valid/BatchProofs.vo", "Properties/C11.vo"],
                                       gate_paths=["Valid", "Common", "Properties/C11"])
    mok, mout, _ = vlib.model_build(GROUP)
    if not mok:
        log("MODEL BUILD FAILED:\n" + mout[-3000:])
        raise SystemExit(2)

    # stale sub-directories of earlier runs (other tier / seed) are not evidence of this run; a run that is still alive
    # in the same tree (another builder's ./check C11) keeps its own directory p<pid>
    base_rd = ctx.run_dir
    for old_d in glob.glob(os.path.join(base_rd, "*")):
        m = re.match(r"p(\d+)$", os.path.basename(old_d))
        if os.path.isdir(old_d) and not (m and os.path.exists("/proc/%s" % m.group(1))):
            shutil.rmtree(old_d, ignore_errors=True)
    ctx.run_dir = os.path.join(base_rd, "p%d" % os.getpid())
    os.makedirs(ctx.run_dir, exist_ok=True)
    avoid = ",".join(sorted(k for k, sig in DANGER.items()
                            if any(kf.get("status") == "open" and kf.get("property") == "C11" and kf.get("signature") == sig
                                   for kf in vlib.load_known_findings())))
    pbase = 34000 + (os.getpid() % 30) * 30
    jobs = []
    if ctx.replay:
        rp = json.load(open(ctx.replay))
        c = rp.get("case") or {}
        for nm, key in (("replay", "vectors"), ("replay-history", "history")):
            if c.get(key):
                p = os.path.join(ctx.run_dir, nm + ".tsv")
                with open(p, "w") as f:
                    for line in c[key]:
                        f.write(line + "\n")
                jobs.append((nm, "-replay %s -port %d%s" % (p, pbase + 3 * len(jobs), ((" -policy " + c["policy"]) if c.get("policy") else "") + ((" -engine " + c["engine"]) if c.get("engine") else "") + (" -v2" if c.get("v2") == "true" else ""))))
    else:
        for i, p in enumerate(sorted(glob.glob(os.path.join(vlib.VERIF, "corpus", "C11", "*.tsv")))):
            pol = " -policy wait_compact" if os.path.basename(p).startswith("wc-") else ""
            jobs.append(("corpus-" + os.path.basename(p)[:-4], "-replay %s -port %d%s" % (p, pbase + 3 * len(jobs), pol)))
        nproc, n = (4, 2500) if quick else (12, 20000)
        for i in range(nproc):
            eng = "mem" if (quick or i % 3 != 2) else "pebble"
            pol = "wait_compact" if i % 2 == 1 else "local_deletion"
            jobs.append(("fresh-%d" % i, "-seed %d -n %d -engine %s -policy %s -port %d%s" % (ctx.seed * 1000 + i, n, eng, pol, pbase + 3 * len(jobs), " -v2" if i % 4 == 3 else "")))
        # the deterministic blocks (one valid run of every template, dictionary of matched texts, MAX_BATCH_NUM classes on
        # live collections, > 100 large collections, big-list trim and regrow, pipelined groups) in a job of their own
        jobs.append(("big-a", "-seed %d -n 1 -big -bigpart a -engine mem -policy local_deletion -port %d" % (ctx.seed, pbase + 3 * len(jobs))))
        jobs.append(("big-b", "-seed %d -n 1 -big -bigpart b -engine mem -policy local_deletion -port %d" % (ctx.seed, pbase + 3 * len(jobs))))
        if not quick:
            jobs.append(("big-c", "-seed %d -n 1 -big -engine pebble -policy wait_compact -port %d" % (ctx.seed, pbase + 3 * len(jobs))))
    if not ctx.replay:
        # length sweep: values / members / keys of the size constants of the write path +-32 bytes, for every
        # write command; quick: constants up to 1 MiB in 4 slices, thorough: all of them, all positions
        nsl, mx = (6, 1 << 20) if quick else (8, 9 << 20)
        for k in range(nsl):
            pol = "wait_compact" if k % 2 == 0 else "local_deletion"
            # the size sweep is sliced over all jobs, the state sequences over the jobs of one policy: both
            # expiration policies (different stored value layouts) see every sequence
            jobs.append(("sweep-%d" % k, "-seed %d -sweep %d -sweeppart %d/%d -statepart %d/%d -policy %s -port %d%s" % (
                ctx.seed, mx, k, nsl, k // 2, nsl // 2, pol, pbase + 3 * len(jobs), "" if quick else " -sweepfull")))
    res = run_epochs(ctx, jobs, avoid, budget=(420 if quick else 2400))

    all_mism, all_fail, total = [], [], 0
    hist_all, notes_all = collections.Counter(), collections.Counter()
    distinct = set()
    samples = []
    for sub, d, rc, out in res:
        if rc not in (0, 1, 4, 5, 6, -9, 137) and not os.path.exists(os.path.join(d, "journal.txt")):
            log("HARNESS RUN FAILED (%s rc=%s):\n%s" % (sub, rc, out[-2000:]))
            raise SystemExit(2)
        if rc == 3 or (rc in (1, 2) and os.path.getsize(os.path.join(d, "journal.txt")) == 0):
            ctx.notes.append("%s: server start inconclusive (rc=%s): %s" % (sub, rc, out[-300:]))
            if "INCONCLUSIVE" not in out and "already in use" not in open(os.path.join(d, "server.log"), errors="replace").read():
                log("HARNESS RUN FAILED (%s rc=%s):\n%s" % (sub, rc, out[-2000:]))
                raise SystemExit(2)
            continue
        mism, cnt = correspondence(d)
        fails, hist, notes, vec = oracle(d, rc)
        cases = rd(os.path.join(d, "cases.tsv"))
        for m in mism:
            vid = m[0][1:].split(".")[0]
            all_mism.append((sub + ":" + m[0], m[1], m[2], show(unh(vec[vid][1])) if vid in vec else ""))
        all_fail += fails
        total += cnt
        hist_all.update(hist)
        notes_all.update(notes)
        for vid, p in vec.items():
            hist_all["mut:" + p[3].split("+")[0]] += 1
            a = unh(p[1])
            hist_all["nargs:%s" % (len(a) if len(a) < 8 else "8+")] += 1
            # non-trivial: a registered command name and at least a key argument
            if len(a) >= 2:
                distinct.add(vlib.case_hash(p[1]))
        ids = list(vec.keys())
        impl = rd(os.path.join(d, "impl.out"))
        for vid in ids[5:6] + ids[len(ids) // 2: len(ids) // 2 + 1]:
            samples.append(dict(command=show(unh(vec[vid][1])), mutation=vec[vid][3], live=impl.get("L" + vid),
                                apply_v1=impl.get("A" + vid + ".1"), apply_v2=impl.get("A" + vid + ".2")))

    def search():
        r2 = run_epochs(ctx, [("search-%d" % i, "-seed %d -n 12000 -port %d" % (ctx.seed * 1000 + 500 + i, pbase + 300 + 3 * i)) for i in range(4)], avoid, budget=420)
        out = []
        for sub, d, rc, o in r2:
            f, _, _, _ = oracle(d, rc)
            out += f
        return out

    for n_, c_ in notes_all.most_common(12):
        ctx.notes.append("%s (x%d)" % (n_, c_))
    mm = [(m[0], m[1], (m[2] or "") + " | " + m[3]) for m in all_mism]
    vlib.standard_verdict(ctx, proofs_ok, mm, all_fail, search_fn=search,
                          corr_name="Valid/Model.v (leader verdict, proposed command, apply shape) vs live single-replica server and ApplyRaftRequest of real state machines")
    ctx.finish(dict(
        traces_validated_against_impl=total,
        evaluations=total,
        distinct_nontrivial=len(distinct),
        rule="vectors derived by 0-2 mutations (drop/truncate/duplicate/insert/replace by adversarial values/keys/swap/append/name case) from valid "
             "templates of EVERY command registered at run time (read, write, merge, internal); each vector is (L) sent over the redis protocol to a live "
             "single-replica server (reply class, proposed or not by the raft commit index, engine dump before/after, probe write after every error) and "
             "(A) fed twice (RedisReq / RedisV2Req encoding) to ApplyRaftRequest of a sandbox state machine under recover(); leader-accepted vectors also go "
             "to a replica pair A/B (B skips the requests that answered an error; dumps must stay equal). Non-trivial = at least a command name and one "
             "more argument; distinct by hash of the argument vector.",
        histogram=dict(hist_all),
        mismatches=len(all_mism),
        samples=samples[:6],
    ), assumptions=[
        "strconv.ParseFloat is not modelled: its verdict per argument is supplied by the harness (Section variable pf in the theorems)",
        "one namespace with one partition and one replica on the live server; engine mem (thorough: also pebble); expiration policies local_deletion and wait_compact (value header v1) on alternating runs; UseRedisV2=false on three of four live servers and true on the fourth, both encodings on the state machines",
        "a connection closed by the recover() of server/redis_api.go serverRedis counts as handled (the process stays up); such commands are listed in the notes",
    ])
