"""C12 — keys never interfere; the order-preserving codec round-trips.

Correspondence: extracted coq/Codec model vs the real rockredis encoders/decoders (byte for byte).
Direct oracle (implementation outputs only): round-trips, pairwise distinctness of engine keys of
distinct tuples, order of encodings = order of values, every element key inside its collection's /
table's range and outside every other one, stop keys = start keys with the last byte + 1 (no overflow)."""
import bisect
import glob
import json
import os
import shutil
import struct

import vlib
from vlib import sh, log

KV, HASH, HSIZE, LIST, LMETA, ZSET, ZSIZE, ZSCORE, SET, SSIZE, JSON, BITMAP, BITMETA = 21, 22, 23, 24, 25, 26, 27, 28, 29, 30, 31, 32, 33
LIST_MIN, LIST_MAX = 1000, (1 << 62) - 1000


def unh(s):
    return b"" if s in ("-", "") else bytes.fromhex(s)


def pz(s):
    return -int(s[1:], 16) if s.startswith("-") else int(s, 16)


def is_nan(bits):
    return (bits & 0x7FFFFFFFFFFFFFFF) > 0x7FF0000000000000


def fkey(bits):
    """total order key of a non-NaN float64 bit pattern (-0 == +0)"""
    return bits if bits < (1 << 63) else -(bits - (1 << 63))


def fnorm(bits):
    return 0 if bits == (1 << 63) else bits


def parse_cases(path):
    cases = {}
    for line in open(path):
        p = line.rstrip("\n").split("\t")
        cases[p[0]] = p[1:]
    return cases


def parse_vals(s):
    """tuple of comparable items; None if it contains a NaN"""
    if s == "~":
        return ()
    out = []
    for it in s.split(","):
        c, r = it[0], it[1:]
        if c == "n":
            out.append((0,))
        elif c == "b":
            out.append((1, unh(r)))
        elif c == "i":
            out.append((3, pz(r)))
        elif c == "f":
            b = int(r, 16)
            if is_nan(b):
                return None
            out.append((5, fkey(b)))
    return tuple(out)


class Oracle:
    def __init__(self):
        self.fails = []
        self.hist = {}
        self.nan_cases = 0
        self.evals = 0
        self.nontrivial = set()

    def fail(self, name, ids, what, **kw):
        if len(self.fails) < 50:
            self.fails.append(dict(name=name, ids=list(ids), what=what, case=kw))

    def chk(self, cond, name, ids, what, **kw):
        self.evals += 1
        if not cond:
            self.fail(name, ids, what, **kw)

    # ---------- order helper: items = [(value_key, enc, id)], enc must be strictly monotone in value ----------
    def order(self, items, label, desc=False):
        items = sorted(items, key=lambda x: x[0])
        for (va, ea, ia), (vb, eb, ib) in zip(items, items[1:]):
            self.evals += 1
            if va == vb:
                ok = ea == eb
            else:
                ok = (ea > eb) if desc else (ea < eb)
            if not ok:
                self.fail("order-%s-%s" % (label, ia), [ia, ib],
                          "%s: order/equality of encodings differs from order/equality of values" % label,
                          a=repr(va), b=repr(vb), enc_a=ea.hex(), enc_b=eb.hex())
                return

    def run(self, cases, impl):
        per = {}
        worlds = {}
        for cid, c in cases.items():
            kind = c[0]
            self.hist[kind] = self.hist.get(kind, 0) + 1
            out = impl.get(cid)
            if out is None:
                self.fail("missing-" + cid, [cid], "no implementation output")
                continue
            if "!INPUT-MODIFIED" in out:
                # lent memory: the function wrote into (or behind) one of its inputs — the functional model
                # cannot show this, the sentinel buffers of the harness do
                i = out.index(" !INPUT-MODIFIED")
                self.fail("lent-memory-" + cid, [cid], "an encoder / decoder / range builder modified memory lent by its caller: "
                          + out[i + 18:][:300], kind=kind)
                out = out[:i]
            self.evals += 1
            per.setdefault(kind, []).append((cid, c[1:], out))
            if cid.startswith("w") or cid.startswith("c"):
                worlds.setdefault(cid.split(".")[0], []).append((cid, kind, c[1:], out))
        self.codec(per)
        self.single(per)
        for w, entries in sorted(worlds.items()):
            self.world(w, entries)

    # ---------- memcomparable codec ----------
    def codec(self, per):
        items_a, items_d = [], []
        for cid, f, out in per.get("EB", []):
            d = unh(f[0])
            parts = out.split(" | ")
            a, ds = parts[0].split(" ")
            self.chk(parts[1] == "ok - " + f[0] and parts[2] == "ok - " + f[0], "rt-bytes-" + cid, [cid],
                     "DecodeBytes(EncodeBytes(x)) != x (or the Desc pair)", impl=out)
            items_a.append((d, unh(a), cid))
            items_d.append((d, unh(ds), cid))
            if len(d) > 0:
                self.nontrivial.add(("EB", f[0]))
        self.order(items_a, "EncodeBytes")
        self.order(items_d, "EncodeBytesDesc", desc=True)
        for kind, conv, lab in (("EI", pz, "Int"), ("EU", lambda s: int(s, 16), "Uint")):
            ia, idd = [], []
            for cid, f, out in per.get(kind, []):
                v = conv(f[0])
                a, d, va, vd = out.split(" ")
                self.chk(conv(va) == v and conv(vd) == v, "rt-%s-%s" % (lab, cid), [cid],
                         "Decode%s(Encode%s(x)) != x (or the Desc pair)" % (lab, lab), impl=out)
                ia.append((v, unh(a), cid))
                idd.append((v, unh(d), cid))
                self.nontrivial.add((kind, f[0]))
            self.order(ia, "Encode" + lab)
            self.order(idd, "Encode%sDesc" % lab, desc=True)
        ia, idd = [], []
        for cid, f, out in per.get("EF", []):
            b = int(f[0], 16)
            a, d, va, vd = out.split(" ")
            if is_nan(b):
                self.nan_cases += 1     # NaN is outside the codec's contract (see level_note); only must not crash
                continue
            self.chk(int(va, 16) == fnorm(b) and int(vd, 16) == fnorm(b), "rt-Float-" + cid, [cid],
                     "DecodeFloat(EncodeFloat(x)) != x as a float value", impl=out, bits=f[0])
            ia.append((fkey(b), unh(a), cid))
            idd.append((fkey(b), unh(d), cid))
            self.nontrivial.add(("EF", f[0]))
        self.order(ia, "EncodeFloat")
        self.order(idd, "EncodeFloatDesc", desc=True)
        im = []
        for cid, f, out in per.get("MC", []):
            t = parse_vals(f[0])
            if t is None:
                self.nan_cases += 1
                continue
            enc, dec = out.split(" | ")
            if len(t) == 0:
                self.chk(enc == "-" and dec == "err", "mc-empty-" + cid, [cid], "empty tuple", impl=out)
                continue
            self.chk(dec.startswith("ok ") and parse_vals(dec[3:]) == t, "rt-tuple-" + cid, [cid],
                     "Decode(EncodeMemCmpKey(vals)) != vals", impl=out, vals=f[0])
            im.append((t, unh(enc), cid))
            if len(t) > 1:
                self.nontrivial.add(("MC", f[0]))
        self.order(im, "EncodeMemCmpKey")

    # ---------- per-case round trips of the key encoders ----------
    def single(self, per):
        for cid, f, out in per.get("TP", []):
            dt, tb = int(f[0]), unh(f[1])
            se, dec = out.split(" | ")
            s, e = [unh(x) for x in se.split(" ")]
            self.chk(e[:-1] == s[:-1] and s[-1] == 0x3A and e[-1] == 0x3B, "tstop-" + cid, [cid],
                     "table end key is not the start key with the separator + 1", impl=out)
            if dt != KV and len(tb) < 65536:
                self.chk(dec == "ok %s %d" % (f[1], len(s)), "rt-tprefix-" + cid, [cid],
                         "decodeDataTablePrefixFromBuf(encodeDataTableStart) != table", impl=out)
        for cid, f, out in per.get("CS", []):
            dt = int(f[0])
            if dt not in (HASH, SET, ZSET):
                self.chk(out == "panic", "cs-type-" + cid, [cid], "encodeCollSubKey accepted a non-collection type", impl=out)
                continue
            encs, dec = out.split(" | ")
            _, enc, typed, start, stop = encs.split(" ")
            benc, bstart, bstop = unh(enc), unh(start), unh(stop)
            self.chk(enc == typed, "cs-typed-" + cid, [cid], "typed member-key encoder differs from encodeCollSubKey", impl=out)
            self.chk(bstop[:-1] == bstart[:-1] and bstart[-1] == 0x3A and bstop[-1] == 0x3B, "cstop-" + cid, [cid],
                     "collection stop key is not the start key with the separator + 1", impl=out)
            self.chk(bstart <= benc < bstop, "cs-inrange-" + cid, [cid], "member key outside [start, stop) of its own collection", impl=out)
            if len(unh(f[1])) < 65536 and len(unh(f[2])) < 65536:
                self.chk(dec == "ok %d %s %s %s" % (dt, f[1], f[2], f[3]), "rt-coll-" + cid, [cid],
                         "decodeCollSubKey(encodeCollSubKey(x)) != x", impl=out)
        for cid, f, out in per.get("LK", []):
            encs, dec = out.split(" | ")
            enc, lo, hi = [unh(x) for x in encs.split(" ")]
            seq = pz(f[2])
            if len(unh(f[0])) < 65536 and len(unh(f[1])) < 65536:
                self.chk(dec == "ok %s %s %s" % (f[0], f[1], f[2]), "rt-list-" + cid, [cid], "lDecodeListKey(lEncodeListKey(x)) != x", impl=out)
            if LIST_MIN <= seq <= LIST_MAX:
                self.chk(lo <= enc <= hi, "list-inrange-" + cid, [cid], "list element key outside [minSeq key, maxSeq key]", impl=out)
        for cid, f, out in per.get("ZS", []):
            b = int(f[4], 16)
            if is_nan(b):
                self.nan_cases += 1
                continue
            if len(unh(f[1])) >= 65536:
                continue
            enc, dec = out.split(" | ")
            self.chk(dec == "ok %s %s %s %x" % (f[1], f[2], f[3], fnorm(b)), "rt-zscore-" + cid, [cid],
                     "zDecodeScoreKey(zEncodeScoreKey(x)) != x", impl=out)
        for cid, f, out in per.get("BK", []):
            if len(unh(f[0])) >= 65536:
                continue
            encs, dec = out.split(" | ")
            enc, st, sp = [unh(x) for x in encs.split(" ")]
            self.chk(dec == "ok %s %s %s" % (f[0], f[1], f[2]), "rt-bitmap-" + cid, [cid], "decodeBitmapKey(encodeBitmapKey(x)) != x", impl=out)
            if pz(f[2]) >= 0:
                self.chk(st <= enc < sp, "bitmap-inrange-" + cid, [cid], "bitmap segment key outside [start, stop)", impl=out)
        for cid, f, out in per.get("VK", []):
            enc, dec = out.split(" | ")
            self.chk(dec == "ok %s %s" % (f[1], f[0]), "rt-verkey-" + cid, [cid], "decodeVerKey(encodeVerKey(x)) != x", impl=out)
        for cid, f, out in per.get("JK", []):
            if len(unh(f[0])) >= 65536:
                continue
            encs, dec = out.split(" | ")
            enc, st, sp = [unh(x) for x in encs.split(" ")]
            self.chk(dec == "ok %s %s" % (f[0], f[1]) and st <= enc < sp, "rt-json-" + cid, [cid],
                     "decodeJSONKey(encodeJSONKey(x)) != x or key outside the table's json range", impl=out)
        for cid, f, out in per.get("HK", []):
            if f[5] != "0" or len(unh(f[0])) >= 65536 or len(unh(f[1])) >= 65536:
                continue
            keys, a, b = out.split(" | ")
            nk, sk, st, sp = [unh(x) for x in keys.split(" ")]
            self.chk(a == "ok %s %s %s %s" % (f[0], f[1], f[2], f[4]) and b == "ok %s %s %s %s" % (f[0], f[1], f[3], f[4]),
                     "rt-hindex-" + cid, [cid], "decodeHsetIndex*Key(encodeHsetIndex*Key(x)) != x", impl=out)
            self.chk(st <= nk < sp and st <= sk < sp and sp[:-1] == st[:-1] and st[-1] == 0x3A and sp[-1] == 0x3B,
                     "hindex-inrange-" + cid, [cid], "index key outside the [start, stop) range of its (table, index)", impl=out)
        for cid, f, out in per.get("XK", []):
            keys, a, b = out.split(" | ")
            self.chk(a == "ok %s %s %s" % (f[0], f[1], f[2]) and b == "ok %s %s" % (f[0], f[1]), "rt-exp-" + cid, [cid],
                     "expDecode*(expEncode*(x)) != x", impl=out)
        for cid, f, out in per.get("XT", []):
            raw = unh(f[0])
            a, b, pk = out.split(" | ")
            i = raw.find(b":")
            if i < 0:
                self.chk(a == "err" and b == "err", "xt-nosep-" + cid, [cid], "key without ':' accepted", impl=out)
                continue
            tb, rk = raw[:i], raw[i + 1:]
            self.chk(a == "ok %s %s" % (hx(tb), hx(rk)) and pk == f[0], "xt-split-" + cid, [cid],
                     "extractTableFromRedisKey does not split at the first ':' or packRedisKey does not invert it", impl=out)
            want = "ok %s %s" % (hx(tb), hx(bytes([KV]) + raw)) if (len(tb) > 0 and 0 < len(raw) <= 10240) else "err"
            self.chk(b == want, "xt-kv-" + cid, [cid], "convertRedisKeyToDBKVKey: wrong key or guard", impl=out, want=want)

    # ---------- a world: distinctness, ranges, order ----------
    def world(self, w, entries):
        keys = []      # (engine key, identity, case id)
        colls = {}     # range descriptors
        ranges = []    # (label, lo, hi, closed, predicate on identity, case id)
        for cid, kind, f, out in entries:
            if kind == "CS":
                dt = int(f[0])
                if dt not in (HASH, SET, ZSET):
                    continue
                _, enc, typed, start, stop = out.split(" | ")[0].split(" ")
                ident = ("coll", dt, f[1], f[2], f[3])
                keys.append((unh(enc), ident, cid))
                ck = ("coll", dt, f[1], f[2])
                if ck not in colls:
                    colls[ck] = 1
                    ranges.append(("collection %r" % (ck,), unh(start), unh(stop), False,
                                   (lambda i, ck=ck: i[:4] == ck), cid, (dt, f[1])))
            elif kind == "LK":
                enc, lo, hi = out.split(" | ")[0].split(" ")
                ident = ("list", LIST, f[0], f[1], pz(f[2]))
                keys.append((unh(enc), ident, cid))
                ck = ("list", LIST, f[0], f[1])
                if ck not in colls:
                    colls[ck] = 1
                    ranges.append(("list %r" % (ck,), unh(lo), unh(hi), True,
                                   (lambda i, ck=ck: i[:4] == ck and LIST_MIN <= i[4] <= LIST_MAX), cid, (LIST, f[0])))
            elif kind == "ZS":
                b = int(f[4], 16)
                if f[0] != "00" or is_nan(b):
                    continue
                enc = out.split(" | ")[0]
                keys.append((unh(enc), ("zscore", ZSCORE, f[1], f[2], fkey(b), f[3]), cid))
            elif kind == "ZR":
                b = int(f[2], 16)
                if is_nan(b):
                    continue
                ss, se, zs, ze = [unh(x) for x in out.split(" ")]
                ck = ("zscore", ZSCORE, f[0], f[1])
                if ck not in colls:
                    colls[ck] = 1
                    ranges.append(("zset score index %r" % (ck,), zs, ze, False, (lambda i, ck=ck: i[:4] == ck), cid, (ZSCORE, f[0])))
                ranges.append(("zset score %r %x" % (ck, b), ss, se, False,
                               (lambda i, ck=ck, k=fkey(b): i[:4] == ck and i[4] == k), cid, (ZSCORE, f[0])))
            elif kind == "BK":
                enc, st, sp = out.split(" | ")[0].split(" ")
                ident = ("bitmap", BITMAP, f[0], f[1], pz(f[2]))
                keys.append((unh(enc), ident, cid))
                ck = ("bitmap", BITMAP, f[0], f[1])
                if ck not in colls:
                    colls[ck] = 1
                    ranges.append(("bitmap %r" % (ck,), unh(st), unh(sp), False,
                                   (lambda i, ck=ck: i[:4] == ck and i[4] >= 0), cid, (BITMAP, f[0])))
            elif kind == "XT":
                b = out.split(" | ")[1]
                if b.startswith("ok "):
                    _, tb, dbk = b.split(" ")
                    raw = unh(f[0])
                    keys.append((unh(dbk), ("kv", KV, tb, hx(raw[len(unh(tb)) + 1:])), cid))
            elif kind == "SK":
                raw = unh(f[0])
                i = raw.find(b":")
                tb = hx(raw[:i]) if i >= 0 else None
                toks = out.split(" ")
                for t, tok in zip((KV, HSIZE, SSIZE, ZSIZE, LMETA, BITMETA), toks[:6]):
                    if t == KV:
                        continue      # the KV key is listed by XT (with its guard)
                    keys.append((unh(tok), ("meta", t, tb, f[0]), cid))
            elif kind == "JK":
                enc, st, sp = out.split(" | ")[0].split(" ")
                keys.append((unh(enc), ("json", JSON, f[0], f[1]), cid))
                ck = ("json", JSON, f[0])
                if ck not in colls:
                    colls[ck] = 1
                    ranges.append(("json table %r" % (ck,), unh(st), unh(sp), False, (lambda i, ck=ck: i[:3] == ck), cid, (JSON, f[0])))
            elif kind == "TM":
                toks = [unh(x) for x in out.split(" ")]
                keys.append((toks[0], ("tablemeta", 10, f[0]), cid))
                keys.append((toks[3], ("tableindexmeta", 11, f[0], int(f[1])), cid))
                ranges.append(("table meta", toks[1], toks[2], False, (lambda i: i[0] == "tablemeta"), cid, None))
                ranges.append(("table index meta %s" % f[1], toks[4], toks[5], False,
                               (lambda i, it=int(f[1]): i[0] == "tableindexmeta" and i[3] == it), cid, None))
            elif kind == "XK":
                tk, mk = out.split(" | ")[0].split(" ")
                keys.append((unh(tk), ("exptime", 101, int(f[0]), f[1], pz(f[2])), cid))
                keys.append((unh(mk), ("expmeta", 102, int(f[0]), f[1]), cid))
            elif kind == "TP":
                dt = int(f[0])
                s, e = [unh(x) for x in out.split(" | ")[0].split(" ")]
                ranges.append(("table %s of type %d" % (f[1], dt), s, e, False,
                               (lambda i, dt=dt, tb=f[1]: i[1] == dt and i[2] == tb and i[0] != "meta"), cid, (dt, f[1])))
            elif kind == "TR":
                if f[3] != "~" or f[4] != "~":
                    continue
                dt, mdt, tb = int(f[0]), int(f[1]), f[2]
                a, b = out.split(" | ")
                if a.startswith("ok "):
                    for n, rg in enumerate(a[3:].split(",")):
                        lo, hi = [unh(x) for x in rg.split("..")]
                        edt = ZSCORE if n == 1 else dt
                        ranges.append(("whole-table data range of type %d table %s" % (edt, tb), lo, hi, False,
                                       (lambda i, edt=edt, tb=tb: i[1] == edt and i[2] == tb and i[0] != "meta"), cid, (edt, tb)))
                if b.startswith("ok "):
                    lo, hi = [unh(x) for x in b[3:].split("..")]
                    if mdt == KV:
                        pred = (lambda i, tb=tb: i[0] == "kv" and i[2] == tb)
                    else:
                        pred = (lambda i, mdt=mdt, tb=tb: i[0] == "meta" and i[1] == mdt and i[2] == tb)
                    ranges.append(("whole-table meta range of type %d table %s" % (mdt, tb), lo, hi, False, pred, cid, (mdt, tb)))
        # O1: distinct tuples <-> distinct engine keys
        by_key = {}
        for k, ident, cid in keys:
            by_key.setdefault(k, {}).setdefault(ident, cid)
        for k, ids in by_key.items():
            self.evals += 1
            if len(ids) > 1:
                its = list(ids.items())
                self.fail("collision-%s" % its[0][1], [c for _, c in its],
                          "two distinct (type, table, key, subkey) tuples have the same engine key",
                          key=k.hex(), tuples=[repr(i) for i, _ in its])
        allk = sorted(by_key.items())
        ks = [k for k, _ in allk]
        self.nontrivial.update((w, k) for k in ks)
        # O2/O3: each range contains exactly its own keys
        buckets = {}
        for k, ids in allk:
            for ident, cid in ids.items():
                buckets.setdefault((ident[1], ident[2]), []).append((k, ident, cid))
        everything = [(k, ident, cid) for k, ids in allk for ident, cid in ids.items()]
        for label, lo, hi, closed, pred, rcid, bucket in ranges:
            self.evals += 1
            if not (lo < hi or (closed and lo <= hi)):
                self.fail("range-empty-" + rcid, [rcid], "range bounds not ordered: " + label, lo=lo.hex(), hi=hi.hex())
                continue
            i = bisect.bisect_left(ks, lo)
            j = bisect.bisect_right(ks, hi) if closed else bisect.bisect_left(ks, hi)
            inside = set()
            bad = None
            for k, ids in allk[i:j]:
                for ident, cid in ids.items():
                    inside.add(ident)
                    if bad is None and not pred(ident):
                        bad = ("leak", k, ident, cid)
            if bad is None:
                for k, ident, cid in (everything if bucket is None else buckets.get(bucket, [])):
                    if pred(ident) and ident not in inside:
                        bad = ("miss", k, ident, cid)
                        break
            if bad is not None:
                kindb, k, ident, cid = bad
                self.fail("range-%s-%s" % (kindb, cid), [rcid, cid],
                          ("a key of another tuple lies inside the range of " if kindb == "leak" else "an own key lies outside the range of ") + label,
                          key=k.hex(), tuple=repr(ident), lo=lo.hex(), hi=hi.hex())
        # O4: order inside one collection follows the order of the sub-keys
        groups = {}
        for k, ident, cid in keys:
            if ident[0] == "coll":
                groups.setdefault(ident[:4], []).append((unh(ident[4]), k, cid))
            elif ident[0] == "list" and ident[4] >= 0:
                groups.setdefault(ident[:4], []).append((ident[4], k, cid))
            elif ident[0] == "zscore":
                groups.setdefault(ident[:4], []).append(((ident[4], unh(ident[5])), k, cid))
            elif ident[0] == "bitmap":
                groups.setdefault(ident[:4], []).append((ident[4], k, cid))
        for g, items in groups.items():
            self.order(items, "keys of %s" % (g[0],))


def hx(b):
    return b.hex() if b else "-"


def run_side(ctx, sub, args):
    d = os.path.join(ctx.run_dir, sub)
    shutil.rmtree(d, ignore_errors=True)
    os.makedirs(d)
    rc, out, dt = sh("%s %s -out %s" % (os.path.join(vlib.BIN, "codec"), args, d), cwd=d, timeout=1800)
    if rc != 0:
        return None, out
    rc2, out2, dt2 = sh("%s < cases.tsv > model.out" % vlib.modelrun_path("Codec"), cwd=d, timeout=3000)
    if rc2 != 0:
        return None, out2
    return d, ""


def judge_e2e(path, seed, n):
    """direct oracle of the end-to-end leg (real RockDB, ownership of engine keys known by construction)"""
    fails, hist, evals = [], {}, 0
    if not os.path.exists(path):
        return fails, hist, evals
    for line in open(path):
        r = json.loads(line)
        opn = (r["op"] or "?")
        if r.get("partial"):
            opn = opn.split("(")[0] + "(part)"
        else:
            opn = opn.replace("(0,-1)", "(all)").replace("(-inf,+inf)", "(all)")
        key = "e2e %s %s" % (r["policy"], opn)
        hist[key] = hist.get(key, 0) + 1
        evals += 1
        why = []
        rem, own, meta = set(r.get("removed") or []), set(r.get("owned") or []), set(r.get("metaowned") or [])
        if r.get("err"):
            why.append("operation failed: " + r["err"])
        if r.get("partial"):
            # a sub-key level removal: exactly the selected members' engine keys go, only the meta record may change
            sel = set(r.get("selowned") or [])
            if rem != sel:
                why.append("removed engine keys != keys of the selected members: not removed %s, removed but not selected %s"
                           % (sorted(sel - rem)[:3], sorted(rem - sel)[:3]))
            bad = set(r.get("changed") or []) - meta
            if bad:
                why.append("engine values other than the collection's meta record changed: %s" % sorted(bad)[:3])
            if r.get("added"):
                why.append("a removal created engine keys: %s" % r["added"][:3])
        elif r.get("changed"):
            why.append("engine values of keys outside the addressed collection changed: %s" % r["changed"][:3])
        if r.get("partial"):
            pass
        elif (r.get("op") or "").startswith("rejected"):
            if rem:
                why.append("a rejected write removed engine keys: %s" % sorted(rem)[:3])
            if len(r.get("added") or []) != 1:
                why.append("a rejected write followed by one string set elsewhere created %d engine keys instead of 1: %s"
                           % (len(r.get("added") or []), (r.get("added") or [])[:4]))
        else:
            if r.get("added"):
                why.append("a range operation created engine keys: %s" % r["added"][:3])
            if r["policy"] == "local" or r["op"] in ("DeleteTableRange", "DelKeys"):
                if rem != own:
                    why.append("removed engine keys != keys of the addressed collection(s): not removed %s, removed but foreign %s"
                               % (sorted(own - rem)[:3], sorted(rem - own)[:3]))
            else:
                if not rem <= own:
                    why.append("removed engine keys of another collection: %s" % sorted(rem - own)[:3])
                if not meta <= rem:
                    why.append("meta record of the addressed collection not removed: %s" % sorted(meta - rem)[:3])
        for l in r.get("logical") or []:
            why.append(l)
        if why and len(fails) < 20:
            fails.append(dict(name="e2e-" + r["id"], ids=[], what="; ".join(why)[:1500],
                              case=dict(e2e=dict(seed=seed, n=n), id=r["id"], policy=r["policy"], op=r["op"], targets=r.get("targets"),
                                        members=r.get("members"), removed=r.get("removed"), owned=r.get("owned"))))
    return fails, hist, evals


def evaluate(d):
    cases = parse_cases(os.path.join(d, "cases.tsv"))
    impl, _ = vlib.read_out(os.path.join(d, "impl.out"))
    o = Oracle()
    o.run(cases, impl)
    for f in o.fails:
        f["case"]["cases_tsv"] = ["\t".join([i] + cases[i]) for i in f["ids"] if i in cases]
    return cases, impl, o


def run(ctx):
    quick = ctx.tier == "quick"
    ok, out, _ = vlib.go_build("codec")
    if not ok:
        log("BUILD FAILED (harness codec):\n" + out[-3000:])
        raise SystemExit(2)
    vlib.regen_consts("Codec", "codec")
    # the model files first and on their own: they must be available to the extraction even when a proof breaks
    mdl_ok, mdl_out, _ = vlib.coq_make(["Codec/Keys.vo", "Codec/RangeOps.vo", "Codec/HIndex.vo", "Codec/Spec.vo"])
    if not mdl_ok:
        log("MODEL DOES NOT COMPILE:\n" + vlib.tail_err(mdl_out))
        raise SystemExit(2)
    proofs_ok, info = ctx.check_proofs(make_targets=["Codec/Proofs.vo", "Codec/Isolation.vo", "Properties/C12.vo"],
                                       gate_paths=["Codec", "Common", "Properties/C12"])
    # Codec/Isolation.v imports the data builder's model (coq/Data): when that group's files are being rebuilt
    # concurrently, a .vo can change between `make` and the fresh compile of the property file. That is a build
    # race, not a proof failure: rebuild and re-check (at most twice).
    for _ in range(2):
        err = (info.get("error") or "") + (info.get("make_error") or "")
        if proofs_ok or "inconsistent assumptions" not in err:
            break
        ctx.notes.append("rebuilt after a concurrent rebuild of an imported library: " + err.strip()[-160:])
        proofs_ok, info = ctx.check_proofs(make_targets=["Codec/Proofs.vo", "Codec/Isolation.vo", "Properties/C12.vo"],
                                           gate_paths=["Codec", "Common", "Properties/C12"])
    mok, mout, _ = vlib.model_build("Codec")
    if not mok:
        log("MODEL BUILD FAILED:\n" + mout[-3000:])
        raise SystemExit(2)

    worlds, n, ne2e = (4, 1500, 30) if quick else (120, 40000, 600)
    runs = []      # (subdir, harness args, (e2e seed, e2e scenarios) or None)
    if ctx.replay:
        rp = json.load(open(ctx.replay))
        e2 = (rp.get("case") or {}).get("e2e")
        if e2:
            runs.append(("replay", "-seed %d -worlds 0 -n 0 -e2e %d" % (e2["seed"], e2["n"]), (e2["seed"], e2["n"])))
        else:
            lines = rp.get("case", {}).get("cases_tsv") or rp.get("cases_tsv") or []
            path = os.path.join(ctx.run_dir, "replay_cases.tsv")
            with open(path, "w") as f:
                for line in lines:
                    f.write(line + "\n")
            runs.append(("replay", "-replay %s" % path, None))
    else:
        for i, cp in enumerate(sorted(glob.glob(os.path.join(vlib.VERIF, "corpus", "C12", "*.tsv")))):
            runs.append(("corpus%d" % i, "-replay %s" % cp, None))
        # end-to-end scenarios that once failed (kept as (seed, scenarios) pairs: they are pure functions of the seed)
        e2c = os.path.join(vlib.VERIF, "corpus", "C12", "e2e.json")
        if os.path.exists(e2c):
            for i, e in enumerate(json.load(open(e2c))):
                runs.append(("corpus_e2e%d" % i, "-seed %d -worlds 0 -n 0 -e2e %d" % (e["seed"], e["n"]), (e["seed"], e["n"])))
        runs.append(("fresh", "-seed %d -worlds %d -n %d -e2e %d" % (ctx.seed, worlds, n, ne2e), (ctx.seed, ne2e)))

    all_mism, all_fail, total, evals, hist_all, samples, distinct, nan_cases = [], [], 0, 0, {}, [], set(), 0
    for sub, args, e2 in runs:
        d, err = run_side(ctx, sub, args)
        if d is None:
            log("HARNESS/MODEL RUN FAILED:\n" + err[-3000:])
            raise SystemExit(2)
        mism, cnt = vlib.diff_outputs(os.path.join(d, "impl.out"), os.path.join(d, "model.out"))
        cases, impl, o = evaluate(d)
        all_mism += [(m[0], m[1], m[2]) for m in mism]
        for m in mism[:5]:
            log("MISMATCH %s: %s\n  impl : %s\n  model: %s" % (m[0], "\t".join(cases.get(m[0], []))[:300], str(m[1])[:300], str(m[2])[:300]))
        all_fail += o.fails
        total += cnt
        evals += o.evals
        if e2:
            ef, eh, ee = judge_e2e(os.path.join(d, "e2e.jsonl"), e2[0], e2[1])
            all_fail += ef
            evals += ee
            total += ee
            for k, v in eh.items():
                hist_all[k] = hist_all.get(k, 0) + v
        nan_cases += o.nan_cases
        distinct |= {vlib.case_hash(repr(x)) for x in o.nontrivial}
        for k, v in o.hist.items():
            hist_all[k] = hist_all.get(k, 0) + v
        ids = list(cases.keys())
        for cid in ids[:2] + ids[len(ids) // 2:len(ids) // 2 + 2] + ids[-2:]:
            samples.append(dict(case=[c[:160] for c in cases[cid]], impl=(impl.get(cid) or "")[:300]))
    for f in all_fail[:10]:
        log("ORACLE FAIL %s: %s %s" % (f["name"], f["what"], json.dumps({k: v for k, v in f["case"].items() if k != "cases_tsv"})[:600]))

    def search():
        sseed = ctx.seed + 1000003
        d2, err = run_side(ctx, "search", "-seed %d -worlds %d -n %d -e2e %d" % (sseed, 40, 12000, 200))
        if d2 is None:
            return []
        return evaluate(d2)[2].fails + judge_e2e(os.path.join(d2, "e2e.jsonl"), sseed, 200)[0]

    vlib.standard_verdict(ctx, proofs_ok, all_mism, all_fail, search_fn=search,
                          corr_name="coq/Codec/{MemCmp,Keys}.v vs rockredis memcomparable codec and key encoders/decoders/range builders")
    hist_all["nan_inputs_excluded_from_roundtrip_and_order"] = nan_cases
    ctx.finish(dict(
        traces_validated_against_impl=total,
        evaluations=evals,
        distinct_nontrivial=len(distinct),
        rule="cases from one seeded PRNG. 'Worlds' (ids wN.*): dense populations of guarded tuples — ':'-free tables, non-empty keys within "
             "the size limits, raw and versioned collection keys, adversarial names (prefixes of each other, ':' ';' 0x00 0xff, u16 length "
             "bytes, embedded encodings, lengths around the 8-byte groups) — judged for pairwise distinctness, range containment/exclusion "
             "(collection, score, table, whole-table delete, meta ranges) and order. Free-form cases (ids xN): every encoder/decoder on "
             "arbitrary bytes incl. mutated/truncated encodings, all float classes, int64 edges, tuples, u16 wrap-around lengths. "
             "RD cases: the engine's forward range iterator with all four open/closed bound types over collection ranges (the empty "
             "member's key equals the range start). End-to-end leg (histogram keys 'e2e <policy> <op>'): a real RockDB (mem engine) under "
             "both expiry policies is populated with collections of every type (kv, hash, set, zset, list, bitmap) under adversarial "
             "(table, key, member) names incl. the EMPTY member and boundary-byte members; before/after every clear / multi-clear / "
             "remove-all-by-rank/score / key delete / whole-table delete the raw engine content is listed and judged against ownership "
             "known by construction: exactly the addressed collection's engine keys disappear, every other key and value is "
             "byte-identical, the cleared collection reads empty and, re-created with one fresh member, shows exactly that member; "
             "a multi-member write rejected at its last member leaves nothing behind, neither at once nor when the next write on another "
             "key commits the shared batch (HMSET, a batchable command, is aborted by the caller as the apply loop does). "
             "Non-trivial = distinct engine keys of the worlds + distinct non-empty codec inputs; evaluations = oracle predicates evaluated.",
        histogram=hist_all,
        mismatches=len(all_mism),
        samples=samples[:6],
    ), assumptions=[
        "NaN is outside the codec's contract: EncodeFloat does not round-trip a NaN with a clear sign bit (see C12_float_nan_refuted; "
        "witness replayed on the Go code by corpus/C12/guards.tsv g1..g4); the command layer rejects NaN scores (node.getScorePairs, "
        "rockredis.ZIncrBy). NaN inputs are run through model and code (byte-exact agreement) but excluded from the round-trip/order oracle",
        "float64 order and equality are tied to Go's < and == by the correspondence check (FC cases), not by an IEEE-754 formalisation",
        "table names are ':'-free (what extractTableFromRedisKey produces); collection keys are at most 65535 bytes (guaranteed by "
        "common.CheckKey's 10240-byte limit and the memcomparable expansion)",
    ])
