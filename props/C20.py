"""C20 — all storage engines implement the same key-value contract."""
import json
import os
import shutil

import vlib
from vlib import sh, log

M64 = (1 << 64) - 1
ROPEN, LOPEN = 0x10, 0x01
BOUNDED = ("pebble", "rocksdb")   # engines whose raw cursors are clamped to the iterator bounds


# ---------------------------------------------------------------------------------------------
# the sorted-map reference (the property's own yardstick; independent of the Coq model)
# ---------------------------------------------------------------------------------------------
def unh(s):
    if s == "~":
        return None
    return b"" if s in ("-", "") else bytes.fromhex(s)


def h(b):
    if b is None:
        return "nil"
    return "-" if len(b) == 0 else b.hex()


def strip_ts(v, ts):
    if ts in (21, 22) and len(v) >= 8:
        return v[:-8]
    return v


def in_range(k, mn, mx, tp):
    if mn is not None:
        if tp & LOPEN:
            if not k > mn:
                return False
        elif not k >= mn:
            return False
    if mx is not None:
        if tp & ROPEN:
            if not k < mx:
                return False
        elif not k <= mx:
            return False
    return True


def range_query(store, mn, mx, tp, rev, off, cnt):
    if off < 0:
        return []
    ks = sorted(k for k in store if in_range(k, mn, mx, tp))
    if rev:
        ks.reverse()
    ks = ks[off:]
    if cnt >= 0:
        ks = ks[:cnt]
    return ks


def apply_batch(store, batch):
    """returns (new store, ok). An invalid counter merge makes the commit fail."""
    s = dict(store)
    for op in batch:
        if op[0] == "P":
            s[op[1]] = op[2]
        elif op[0] == "D":
            s.pop(op[1], None)
        elif op[0] == "R":
            for k in [k for k in s if op[1] <= k < op[2]]:
                del s[k]
        elif op[0] == "M":
            cur = s.get(op[1], b"")
            if len(cur) not in (0, 8) or len(op[2]) not in (0, 8):
                return store, False
            v = (int.from_bytes(cur, "little") + int.from_bytes(op[2], "little")) & M64
            s[op[1]] = v.to_bytes(8, "little")
    return s, True


def kv(store, k, ts=0):
    return h(k) + "=" + h(strip_ts(store[k], ts))


def ref_run(script, eng):
    store, batch, res = {}, [], []
    others, cur = {}, 0      # other live batch objects: slot -> pending operations (independent values)
    for st in script.split(";"):
        f = st.split(" ")
        c = f[0]
        if c == "P":
            batch.append(("P", unh(f[1]), unh(f[2]) or b""))
        elif c == "D":
            batch.append(("D", unh(f[1])))
        elif c == "R":
            batch.append(("R", unh(f[1]), unh(f[2])))
        elif c == "M":
            batch.append(("M", unh(f[1]), unh(f[2])))
        elif c == "B":
            others[cur] = batch
            cur = int(f[1])
            batch = others.pop(cur, [])
        elif c == "Y":
            if int(f[1]) in others:
                others[int(f[1])] = []
        elif c == "Z":
            others.pop(int(f[1]), None)
        elif c in ("C", "c", "Q"):
            store, ok = apply_batch(store, batch)
            batch = []
            res.append("ok" if ok else "err")
        elif c in ("X", "N", "W"):
            batch = []
        elif c == "F":
            pass
        elif c == "G":
            res.append(h(store.get(unh(f[1]))))
        elif c == "E":
            res.append("1" if unh(f[1]) in store else "0")
        elif c == "T":
            res.append(",".join(h(store.get(unh(k))) for k in f[1].split(",")))
        elif c == "I":
            ks = range_query(store, unh(f[1]), unh(f[2]), int(f[3]), f[4] == "1", int(f[5]), int(f[6]))
            res.append(",".join(kv(store, k, int(f[7])) for k in ks))
        elif c == "J":
            ks = range_query(store, unh(f[1]), unh(f[2]), int(f[3]), f[4] == "1", 0, -1)
            res.append(",".join(kv(store, k, int(f[5])) for k in ks))
        elif c == "K":
            mn, mx, tp = unh(f[1]), unh(f[2]), int(f[3])
            view = sorted(store)
            if eng in BOUNDED:
                view = [k for k in view if (mn is None or k >= mn) and
                        (mx is None or (k < mx if tp & ROPEN else k <= mx))]
            pos, started, o = None, False, []   # pos: index into view or None (invalid)
            for op in f[4].split(","):
                skipped = False
                if op[0] == "F":
                    pos, started = (0 if view else None), True
                elif op[0] == "L":
                    pos, started = (len(view) - 1 if view else None), True
                elif op[0] == "S":
                    t = unh(op[1:]) or b""
                    c2 = [i for i, k in enumerate(view) if k >= t]
                    pos, started = (c2[0] if c2 else None), True
                elif op[0] == "R":
                    t = unh(op[1:]) or b""
                    c2 = [i for i, k in enumerate(view) if k <= t]
                    pos, started = (c2[-1] if c2 else None), True
                elif op[0] == "N":
                    if started and pos is not None:
                        pos = pos + 1 if pos + 1 < len(view) else None
                    else:
                        skipped = True
                elif op[0] == "P":
                    if started and pos is not None:
                        pos = pos - 1 if pos > 0 else None
                    else:
                        skipped = True
                o.append("-" if skipped else ("!" if pos is None else kv(store, view[pos])))
            res.append(",".join(o))
        else:
            raise ValueError("bad step " + st)
    return "|".join(res)


def parse_cases(path):
    cases = {}
    for line in open(path):
        p = line.rstrip("\n").split("\t")
        if len(p) >= 4 and p[1] == "S":
            cases[p[0]] = (p[2], p[3])
    return cases


def parse_xcases(path):
    cases = {}
    for line in open(path):
        p = line.rstrip("\n").split("\t")
        if len(p) >= 4 and p[1] == "X":
            cases[p[0]] = (p[2], p[3])
    return cases


def oracle_x(xcases, impl):
    """index keys of the mem engine: decodable, ordered like the keys, prefix free"""
    fails = []
    for cid, (h1, h2) in xcases.items():
        k1, k2 = unh(h1), unh(h2)
        f = (impl.get(cid) or "").split(" ")
        want_sign = (k1 > k2) - (k1 < k2)
        ok = len(f) == 4 and unh(f[1]) == k1 and int(f[2]) == want_sign and (f[3] == "0" or k1 == k2)
        if not ok:
            fails.append(dict(name="idx-" + cid, cid=cid,
                              case=dict(k1=h1, k2=h2, impl=impl.get(cid), cases_tsv=["%s\tX\t%s\t%s" % (cid, h1, h2)]),
                              what="radix index key codec is not order preserving / prefix free / invertible"))
    return fails


# ---------------------------------------------------------------------------------------------
# direct oracle
# ---------------------------------------------------------------------------------------------
def read_steps(script):
    """the steps that print a result, in order"""
    return [s for s in script.split(";") if s[0] in "CcQGETIJK"]


def judged(step):
    # raw cursors with bounds are engine specific (pebble/rocksdb clamp them, mem does not): not part of
    # the contract, covered by the correspondence only
    if step[0] == "K":
        f = step.split(" ")
        return f[1] == "~" and f[2] == "~"
    return True


def project(script, out):
    rs = read_steps(script)
    parts = (out or "").split("|")
    if len(parts) != len(rs):
        return None
    return [p for s, p in zip(rs, parts) if judged(s)]


def oracle(cases, impl):
    fails, hist = [], {}
    by_case = {}
    for cid, (eng, script) in cases.items():
        base = cid.rsplit(".", 1)[0]
        out = impl.get(cid)
        hist["engine:" + eng] = hist.get("engine:" + eng, 0) + 1
        for s in script.split(";"):
            hist["step:" + s[0]] = hist.get("step:" + s[0], 0) + 1
        got = project(script, out)
        want = project(script, ref_run(script, eng))
        if out == "skipped":
            continue
        if eng == "rocksdb" and base.startswith("p"):
            # multi-prefix store read with nil / cross-prefix bounds or walked with a raw cursor: rocksdb iterates
            # with prefix_same_as_start, outside the contract; compared with the prefix-cursor model only
            hist["rocksdb_outside_contract"] = hist.get("rocksdb_outside_contract", 0) + 1
            continue
        if out in ("panic", "openerr", "hang") or got is None or got != want:
            rs = [s for s in read_steps(script) if judged(s)]
            first = None
            if got is not None:
                for i, (a, b) in enumerate(zip(want, got)):
                    if a != b:
                        first = dict(step=rs[i], reference=a, engine_returned=b)
                        break
            fails.append(dict(name="ref-" + cid, cid=cid,
                              case=dict(engine=eng, script=script, impl=out, first_difference=first),
                              what="engine %s differs from the sorted-map reference" % eng))
        by_case.setdefault(base, []).append((eng, got))
    for base, l in by_case.items():
        outs = {json.dumps(g) for _, g in l}
        if len(outs) > 1 and not any(f["cid"].rsplit(".", 1)[0] == base for f in fails):
            fails.append(dict(name="pair-" + base, cid=base + "." + l[0][0],
                              case=dict(engines=[e for e, _ in l]),
                              what="engines disagree pairwise on the same script"))
    return fails, hist


def run_harness(ctx, sub, args, model=True):
    d = os.path.join(ctx.run_dir, sub)
    shutil.rmtree(d, ignore_errors=True)
    os.makedirs(d)
    cmd = "%s %s -out %s" % (os.path.join(vlib.BIN, "engine"), args, d)
    if sub == "shrink":
        cmd += " -watchdog 5"
    rc, out, dt = sh(cmd, cwd=d, timeout=3000)
    if rc != 0:
        return None, out
    if model:
        rc2, out2, dt2 = sh("%s < cases.tsv > model.out" % vlib.modelrun_path("Eng"), cwd=d, timeout=3000)
        if rc2 != 0:
            return None, out2
    return d, ""


def shrink(ctx, eng, script, budget=150):
    """greedy step removal while the engine still differs from the reference on the judged steps"""
    def bad(s):
        p = os.path.join(ctx.run_dir, "shrink.tsv")
        with open(p, "w") as f:
            f.write("s.%s\tS\t%s\t%s\n" % (eng, eng, s))
        d, _ = run_harness(ctx, "shrink", "-replay %s" % p, model=False)
        if d is None:
            return False
        impl, _ = vlib.read_out(os.path.join(d, "impl.out"))
        out = impl.get("s." + eng)
        got = project(s, out)
        return out in ("panic", "hang") or got is None or got != project(s, ref_run(s, eng))
    steps = script.split(";")
    changed = True
    while changed and budget > 0:
        changed = False
        for i in range(len(steps) - 1, -1, -1):
            if len(steps) == 1:
                break
            cand = steps[:i] + steps[i + 1:]
            budget -= 1
            if budget <= 0:
                break
            if bad(";".join(cand)):
                steps = cand
                changed = True
    return ";".join(steps)


# ---------------------------------------------------------------------------------------------
# command level: the same command sequences through the data layer on every engine (the property's
# conclusion "no command's behaviour depends on engine_type"). Uses the data-layer harness datasim
# (group Data) when it builds; unavailable => noted, never a verdict.
# ---------------------------------------------------------------------------------------------
ENGINES3 = ("mem", "pebble", "rocksdb")


def cmd_differential(ctx, args, sub="cmd"):
    """returns (failures, lines compared, note)"""
    if not os.path.exists(os.path.join(vlib.HARNESS, "cmd", "datasim", "main.go")):
        return [], 0, "datasim harness not present"
    ok, out, _ = vlib.go_build("datasim")
    if not ok:
        return [], 0, "datasim harness does not build"
    outs, cases = {}, None
    for e in ENGINES3:
        d = os.path.join(ctx.run_dir, "%s-%s" % (sub, e))
        shutil.rmtree(d, ignore_errors=True)
        os.makedirs(d)
        rc, o, _ = sh("%s %s -engine %s -out %s" % (os.path.join(vlib.BIN, "datasim"), args, e, d), cwd=d, timeout=1800)
        if rc != 0 or not os.path.exists(os.path.join(d, "impl.out")):
            return [], 0, "datasim run failed on %s (rc=%d)" % (e, rc)
        outs[e], order = vlib.read_out(os.path.join(d, "impl.out"))
        if cases is None:
            cases = [l.rstrip("\n") for l in open(os.path.join(d, "cases.tsv"))]
            ids = order
    fails, bad_seq = [], set()
    for cid in ids:
        vals = {e: outs[e].get(cid) for e in ENGINES3}
        if len(set(vals.values())) > 1:
            seq = cid.split(".")[0]
            if seq in bad_seq:
                continue
            bad_seq.add(seq)
            fails.append(dict(name="cmd-" + seq, cid=cid,
                              case=dict(kind="datasim", first_difference=dict(id=cid, replies=vals),
                                        cases_tsv=[l for l in cases if l.split("\t")[0].split(".")[0] == seq]),
                              what="the reply of a command sequence depends on engine_type"))
    return fails, len(ids), None


def own_cmd_differential(ctx, args, sub="owncmd"):
    """harness/cmd/engine -cmd: reverse ranges / scans with stored bounds and 0x00 members through the real
    data layer on mem, pebble, rocksdb; replies must be identical. returns (failures, lines compared)"""
    d = os.path.join(ctx.run_dir, sub)
    shutil.rmtree(d, ignore_errors=True)
    os.makedirs(d)
    rc, out, _ = sh("%s %s -engines %s -out %s" % (os.path.join(vlib.BIN, "engine"), args, ",".join(ENGINES3), d),
                    cwd=d, timeout=3000)
    if rc != 0:
        log("HARNESS RUN FAILED (command mode):\n" + out[-3000:])
        raise SystemExit(2)
    cases = [l.rstrip("\n") for l in open(os.path.join(d, "cmdcases.tsv"))]
    outs = {e: vlib.read_out(os.path.join(d, "cmd-%s.out" % e))[0] for e in ENGINES3}
    fails, bad = [], set()
    for l in cases:
        cid = l.split("\t")[0]
        vals = {e: outs[e].get(cid) for e in ENGINES3}
        if len(set(vals.values())) > 1 or "panic" in vals.values():
            seq = cid.split(".")[0]
            if seq in bad:
                continue
            bad.add(seq)
            fails.append(dict(name="cmdseq-" + seq, cid=cid,
                              case=dict(kind="cmdseq", first_difference=dict(id=cid, replies=vals),
                                        cases_tsv=[x for x in cases if x.split("\t")[0].split(".")[0] == seq]),
                              what="the reply of a command (reverse range / scan with stored bounds) depends on engine_type"))
    try:
        mk = int(open(os.path.join(d, "cmd-minkeylen.out")).read().split("\t")[1])
    except Exception:
        mk = None
    ctx.min_key_len = mk
    if mk is not None and 0 <= mk < 1:
        fails.append(dict(name="emptykey", cid="emptykey", case=dict(kind="cmdseq", cases_tsv=cases[:200]),
                          what="the data layer wrote the empty engine key, outside the domain on which the engines are required to agree"))
    return fails, len(cases)


# ---------------------------------------------------------------------------------------------
# concurrent readers while batches commit (the schedule quantifier): every snapshot read (range
# iterator, raw cursor walk, MultiGetBytes) must equal the store after exactly j committed batches,
# with j between the commits acknowledged before the read started and after it ended (+1 in flight),
# and never going backwards per reader.
# ---------------------------------------------------------------------------------------------
CONC_ENGINES = ("mem", "pebble", "rocksdb", "membtree")   # the skiplist index is not selectable and applies batches op by op
CONC_RING = ["00", "0000", "61", "6100", "62", "ff", "ffff", "7a"]


def conc_check(ctx, seed, nbatches, rounds, sub="conc"):
    fails, total, hist = [], 0, {}
    for rnd in range(rounds):
        d = os.path.join(ctx.run_dir, "%s%d" % (sub, rnd))
        shutil.rmtree(d, ignore_errors=True)
        os.makedirs(d)
        args = "-conc -seed %d -n %d" % (seed + rnd, nbatches)
        rc, out, _ = sh("%s %s -engines %s -out %s" % (os.path.join(vlib.BIN, "engine"), args, ",".join(CONC_ENGINES), d),
                        cwd=d, timeout=3000)
        if rc != 0:
            log("HARNESS RUN FAILED (concurrent mode):\n" + out[-3000:])
            raise SystemExit(2)
        states = [{}]
        for line in open(os.path.join(d, "conc-script.tsv")):
            _, steps = line.rstrip("\n").split("\t")
            b = []
            for st in steps.split(";"):
                f = st.split(" ")
                b.append((f[0], unh(f[1])) + ((unh(f[2]) or b"",) if len(f) > 2 else ()))
            s2, ok = apply_batch(states[-1], b)
            states.append(s2)
        full = {",".join(h(k) + "=" + h(s[k]) for k in sorted(s)): j for j, s in enumerate(states)}
        ring = [bytes.fromhex("70667872" + k) for k in CONC_RING] + [bytes.fromhex("70667863")]
        part = {",".join(h(k) + "=" + h(s.get(k)) for k in ring): j for j, s in enumerate(states)}
        for eng in CONC_ENGINES:
            last = {}
            for line in open(os.path.join(d, "conc-%s.out" % eng)):
                rd, kind, lo, hi, content = line.rstrip("\n").split("\t")
                if kind == "final":
                    continue
                total += 1
                hist["conc:" + eng + ":" + kind] = hist.get("conc:" + eng + ":" + kind, 0) + 1
                j = (part if kind == "mget" else full).get(content)
                lo, hi = int(lo), int(hi)
                why = None
                if kind in ("itererr", "commiterr", "openerr"):
                    why = kind
                elif j is None:
                    why = "a read observed a state that is not the result of a whole number of committed batches (torn %s)" % kind
                elif not (lo <= j <= hi + 1):
                    why = "a read observed %d committed batches although %d..%d(+1) were acknowledged around it" % (j, lo, hi)
                elif j < last.get(rd, 0):
                    why = "a reader went back from %d to %d committed batches" % (last[rd], j)
                if j is not None:
                    last[rd] = max(last.get(rd, 0), j)
                if why and not any(f["case"]["engine"] == eng and f["case"]["read"] == kind for f in fails):
                    fails.append(dict(name="conc-%s-%s" % (eng, kind), cid="conc",
                                      case=dict(kind="conc", engine=eng, read=kind, args=args, observed=content[:1500],
                                                acked_before=lo, acked_after=hi, cases_tsv=[]),
                                      what="concurrent reader on %s: %s" % (eng, why)))
    return fails, total, hist


def run(ctx):
    quick = ctx.tier == "quick"
    ok, out, _ = vlib.go_build("engine")
    if not ok:
        log("BUILD FAILED (harness engine):\n" + out[-3000:])
        raise SystemExit(2)
    vlib.regen_consts("Eng", "engine")
    proofs_ok, info = ctx.check_proofs(make_targets=["Eng/Proofs.vo", "Properties/C20.vo"],
                                       gate_paths=["Eng", "Common", "Properties/C20"])
    mok, mout, _ = vlib.model_build("Eng")
    if not mok:
        log("MODEL BUILD FAILED:\n" + mout[-3000:])
        raise SystemExit(2)

    corpus = os.path.join(vlib.VERIF, "corpus", "C20")
    runs = []
    cmd_args = None
    own_args = None
    if ctx.replay:
        rp = json.load(open(ctx.replay))
        p = os.path.join(ctx.run_dir, "replay_cases.tsv")
        with open(p, "w") as f:
            for line in (rp.get("case") or {}).get("cases_tsv", []) or rp.get("cases_tsv", []):
                f.write(line + "\n")
        if (rp.get("case") or {}).get("kind") == "datasim":
            cmd_args = "-replay %s" % p
        elif (rp.get("case") or {}).get("kind") == "cmdseq":
            own_args = "-cmdreplay %s" % p
        else:
            runs.append(("replay", "-replay %s" % p))
    elif quick:
        runs.append(("main", "-seed %d -n 1500 -sweep 4 -nlarge 12 -nmulti 300 -npfx 150 -nover 300 -rockpct 35 -engines mem,pebble,rocksdb -corpus %s" % (ctx.seed, corpus)))
        runs.append(("memvariants", "-seed %d -n 400 -sweep 1 -nlarge 6 -nmulti 50 -npfx 30 -nover 60 -engines membtree,memskip -corpus %s" % (ctx.seed + 7919, corpus)))
    else:
        runs.append(("main", "-seed %d -n 22000 -sweep 32 -nlarge 300 -nmulti 6000 -npfx 4000 -nover 5000 -rockpct 50 -engines mem,pebble,rocksdb,membtree,memskip -corpus %s"
                     % (ctx.seed, corpus)))

    all_mism, all_fail, total, hist_all, samples, distinct = [], [], 0, {}, [], set()
    for sub, args in runs:
        d, err = run_harness(ctx, sub, args)
        if d is None:
            log("HARNESS RUN FAILED:\n" + err[-3000:])
            raise SystemExit(2)
        mism, cnt = vlib.diff_outputs(os.path.join(d, "impl.out"), os.path.join(d, "model.out"))
        cases = parse_cases(os.path.join(d, "cases.tsv"))
        impl, _ = vlib.read_out(os.path.join(d, "impl.out"))
        fails, hist = oracle(cases, impl)
        xcases = parse_xcases(os.path.join(d, "cases.tsv"))
        xfails = oracle_x(xcases, impl)
        hist["indexkey_cases"] = len(xcases)
        for f in fails[:3]:
            eng, script = cases[f["cid"]]
            if f["name"].startswith("ref-") and len(script) < 4000:
                small = shrink(ctx, eng, script)
                f["case"]["shrunk_script"] = small
                f["case"]["cases_tsv"] = ["%s\tS\t%s\t%s" % (f["cid"], eng, small)]
        for f in fails:
            base = f["cid"].rsplit(".", 1)[0]
            f["case"].setdefault("cases_tsv", ["\t".join([k, "S", v[0], v[1]]) for k, v in cases.items()
                                                if k.rsplit(".", 1)[0] == base])
        all_mism += [(m[0], m[1], m[2]) for m in mism]
        all_fail += fails + xfails
        total += cnt
        for k, v in hist.items():
            hist_all[k] = hist_all.get(k, 0) + v
        for cid, (eng, script) in cases.items():
            out = impl.get(cid, "")
            # non-trivial: at least one commit succeeded and some read returned a key or a value
            if "ok" in out and ("=" in out or any(len(p) > 1 and p not in ("nil", "ok", "err") for p in out.split("|"))):
                distinct.add(vlib.case_hash(eng + "\t" + script))
        ids = list(cases.keys())
        for cid in ids[:1] + ids[len(ids) // 2: len(ids) // 2 + 1] + ids[-1:]:
            samples.append(dict(id=cid, engine=cases[cid][0], script=cases[cid][1][:600], impl=(impl.get(cid) or "")[:600]))

    # command-level differential on the three selectable engines
    if cmd_args is None and not ctx.replay:
        cmd_args = "-seed %d -n %d -len 40" % (ctx.seed, 150 if quick else 2000)
    cmd_total, cmd_note = 0, None
    if cmd_args:
        cfails, cmd_total, cmd_note = cmd_differential(ctx, cmd_args)
        all_fail = cfails[:5] + all_fail + cfails[5:]
        if cmd_note:
            ctx.notes.append("command-level cross-engine differential skipped: " + cmd_note)
        hist_all["cmd_differential_lines"] = cmd_total

    if own_args is None and not ctx.replay:
        own_args = "-cmd -seed %d -n %d" % (ctx.seed, 120 if quick else 2000)
    own_total = 0
    if own_args:
        ofails, own_total = own_cmd_differential(ctx, own_args)
        all_fail = ofails[:5] + all_fail + ofails[5:]   # command-level evidence first
        hist_all["own_cmd_differential_lines"] = own_total

    conc_total = 0
    if not ctx.replay or (rp.get("case") or {}).get("kind") == "conc":
        kfails, conc_total, khist = conc_check(ctx, ctx.seed, 400 if quick else 3000, 2 if quick else 6)
        all_fail = kfails + all_fail
        hist_all.update(khist)

    def search():
        d2, err = run_harness(ctx, "search", "-seed %d -n 15000 -sweep 12 -nlarge 100 -nmulti 3000 -npfx 1000 -nover 1500 -rockpct 50 -engines mem,pebble,rocksdb,membtree,memskip"
                              % (ctx.seed + 1000003), model=False)
        if d2 is None:
            return []
        cases = parse_cases(os.path.join(d2, "cases.tsv"))
        impl, _ = vlib.read_out(os.path.join(d2, "impl.out"))
        fails, _ = oracle(cases, impl)
        for f in fails:
            base = f["cid"].rsplit(".", 1)[0]
            f["case"]["cases_tsv"] = ["\t".join([k, "S", v[0], v[1]]) for k, v in cases.items()
                                      if k.rsplit(".", 1)[0] == base]
        return fails

    vlib.standard_verdict(ctx, proofs_ok, all_mism, all_fail, search_fn=search,
                          corr_name="Eng/Model.v (sorted map + batch + ideal cursor + transcribed rangeLimitIterator) vs package engine "
                                    "on mem/pebble/rocksdb (+ btree, skiplist indexes)")
    ctx.finish(dict(
        traces_validated_against_impl=total,
        evaluations=total + cmd_total + own_total + conc_total,
        concurrent_reads_checked=conc_total,
        distinct_nontrivial=len(distinct),
        rule="one seeded PRNG generates scripts (1-4 batches of Put/Delete/DeleteRange/Merge over a pool of 1-9 adversarial keys: empty key, "
             "0x00/0xff runs, shared prefixes, key/key+0x00/neighbour bounds; Commit via eng.Write or batch.Commit, Clear, new batch; reads "
             "before and after each commit: GetBytes, Exist, MultiGetBytes, NewDBRangeLimitIteratorWithOpts, NewDBRangeIteratorWithOpts with "
             "nil/set bounds, 4 range types, both directions, offsets {-1,0,1,2,5}, counts {-2,-1,0,1,2,3,100}, NoTimestamp, WithSnap, raw "
             "cursor scripts, optional flush+compaction to table files); scripts over 40-200 keys (multi-level index nodes) with long cursor walks; "
             "scripts over stores holding 2-4 different 3-byte prefixes with prefix-local range reads (the per-table use of the engines); "
             "the same stores read with nil / cross-prefix bounds and raw cursor walks (ids p*: mem and pebble judged by the reference, "
             "rocksdb compared with the prefix_same_as_start cursor model only); every argument is handed out with a sentinel tail and "
             "checked to be unmodified; plus, per swept key set, the full cross-product bounds x bounds x 4 types x 2 directions x offsets {-1,0,1,n} x "
             "counts {-1,0,1,n}; each script runs on a fresh engine instance of every engine (rocksdb only scripts whose keys and bounds are "
             ">= 3 bytes and share one 3-byte prefix). Non-trivial = a commit succeeded and a read returned data; distinct by hash of (engine, script).",
        histogram=hist_all,
        mismatches=len(all_mism),
        command_level_lines_compared_across_engines=cmd_total + own_total,
        min_engine_key_len_written_by_data_layer=getattr(ctx, "min_key_len", None),
        samples=samples[:6],
    ), assumptions=[
        "rocksdb is exercised only with keys and bounds >= 3 bytes that share one 3-byte prefix (Debian's librocksdb asserts on the 3-byte "
        "prefix extractor; the engine iterates with prefix_same_as_start, which is the documented per-table restriction)",
        "Merge is issued only on counter keys (absent, empty or 8-byte values), as the table counters do; Commit is followed by Clear, as in every caller",
        "PRECONDITION every engine key is at least 1 byte long (C12: every encoded key starts with its data-type byte; measured on every run: "
        "min_engine_key_len_written_by_data_layer). The empty key is still exercised at engine level for reads, writes and iteration, but "
        "flush/compaction is not combined with the empty key: the pebble version pinned by /repo (2020-06) cannot write a table file that starts with "
        "the empty user key and retries the flush forever (library defect on a key the data layer never writes; reported, not part of the verdict)",
        "batch objects do not share state (the model treats them as independent values): checked by the overlapping-lifetime scripts; only "
        "one batch object holds uncommitted operations at a time (the mem engine's radix batch holds the writer lock while it has any)",
        "DeleteRange is issued with start <= end; IteratorOpts.IgnoreDel (raft log storage only) is not used",
        "concurrent mode: one writer, three readers, uncontrolled goroutine schedule; a replay of a concurrent finding re-runs the same batches but "
        "not the same interleaving. The skiplist index (not selectable) applies a batch op by op without a snapshot and is excluded there",
        "btree and skiplist indexes of the mem engine are not selectable by configuration; they are exercised through the hook engine.VerifSetMemType",
    ])
