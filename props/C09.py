"""C09 — counting commands always agree with enumerating commands (hash, set, zset, list)."""
import os

import vlib
import _data
from vlib import log


def oracle_fn(order, cases, impl):
    return _data.c09_oracle(order, cases, impl)[0]


def run(ctx):
    proofs_ok = _data.prepare(ctx, "C09", ["Data/C09Proofs.vo"])
    runs = _data.all_runs(ctx, ["C09", "C08"])
    all_mism, all_fail, total, checked, nontriv, samples = [], [], 0, 0, set(), []
    for r in runs:
        all_mism += _data.mismatches_of(r)
        fails, _, chk, nt = _data.c09_oracle(r["order"], r["cases"], r["impl"])
        total += len(r["order"])
        checked += chk
        nontriv |= nt
        seen = set()
        for f in fails:
            if f.get("signature") in seen:
                continue
            seen.add(f.get("signature"))
            lines = _data.shrunk_case(ctx, r, f["cid"], oracle_fn)
            f["case"] = dict(cases_tsv=lines, engine=r["engine"], key=f.get("key"), observation=f.get("obs"),
                             last_write=f.get("last_write"))
            all_fail.append(f)
        ids = [c for c in r["order"] if r["cases"][c][0] == "O"]
        for cid in ids[:1] + ids[-1:]:
            samples.append(dict(run=os.path.basename(r["dir"]), case=r["cases"][cid], impl=(r["impl"].get(cid) or "")[:300]))

    def search():
        rr = _data.run_pair(ctx, "search", "-seed %d -n 6000 -len 60 -types hszl -policy mix -badkeys" % (ctx.seed + 1000003), "mem")
        fails = _data.c09_oracle(rr["order"], rr["cases"], rr["impl"])[0]
        out = []
        for f in fails[:5]:
            f["case"] = dict(cases_tsv=_data.shrunk_case(ctx, rr, f["cid"], oracle_fn), engine="mem", observation=f.get("obs"))
            out.append(f)
        return out

    vlib.standard_verdict(ctx, proofs_ok, [(m[0], m[1], m[2]) for m in all_mism], all_fail, search_fn=search,
                          corr_name="Data/Map*.v (extracted) vs node.StateMachine + rockredis through ApplyRaftRequest and the read handlers")
    ctx.finish(dict(
        traces_validated_against_impl=total,
        evaluations=checked,
        distinct_nontrivial=len(nontriv),
        rule="one evaluation = the C09 equalities on one collection observed after a write (every write is followed by an observation "
             "of the key it touched, every sequence ends with a dump of all its keys); non-trivial = the observed collection is non-empty; "
             "distinct by hash of (sequence, step, key, observation). Inputs: corpus/C09+C08, random sequences over adversarial pools "
             "(tables t,t2,tt; keys incl. ':' inside, \\x00, \\xff, 8/9/17 bytes; repeated members inside one command; int64 and 2^53 edges), "
             "exhaustive short sequences over a tiny alphabet; apply modes: one entry per call, shared batch operator, multi-request list; "
             "every sequence ends with the table key counters, compared with the number of keys its final dump enumerates",
        histogram=_data.histogram(runs),
        mismatches=len(all_mism),
        samples=samples[:6],
    ), assumptions=[
        "raft timestamps of successive entries are strictly increasing and positive (every proposal carries its own time.Now().UnixNano()); "
        "with equal timestamps a cleared and re-created collection reuses its generation under wait_compact (reported separately)",
        "expiry commands are generated (durations of a few seconds, ~63 years, or invalid); reads use the wall clock, writes the raft timestamp; the local_deletion background sweep is not started (property C10)",
        "keys are well-formed table:key with non-empty table and key (malformed keys only in the failing-input search)",
        "scores are integer-valued doubles of any magnitude (up to +-1e19) or infinities (-0 printed as 0); collections of the random sequences are small, the big-collection class "
        "(4999 / 5000 / 5001 elements, removed and re-created) runs on mem, pebble and rocksdb; tables have no hash index",
    ])
