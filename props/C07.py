"""C07 — applying the same log always yields the same data and replies."""
import glob
import json
import os
import shutil

import vlib
from vlib import sh, log

GROUP = "Determ"
BINNAME = "detsim"

# (variant, compared with, dimension, what is compared)
#   r = the reply of every request, d = the logical dump (read API + table counters).
# The log's timestamps are placed years after (shift 0,1) or before (shift 2,3) the wall clock; replies
# must not depend on that at all; dumps are compared between runs on the same side of the wall clock
# (the READ path legitimately consults the clock for expiry).
PAIRS = [
    (1, 0, "batching", "rd"), (2, 0, "batching", "rd"),
    (3, 1, "replay", "rd"),
    (4, 1, "engine", "rd"), (11, 1, "engine", "rd"),
    (5, 0, "clock", "rd"), (6, 0, "clock", "r"), (7, 6, "clock", "rd"),
    (8, 0, "rerun", "rd"),
    (9, 1, "restore", "rd"), (10, 1, "restore", "rd"),
    (21, 1, "restore", "rd"),        # a RUNNING replica installs the checkpoint of an earlier position and replays from there
    # entries of the cluster syncer (conflict pre-check when applied live)
    # rocksdb, log years before the node's clock: a forced full compaction at a random position vs none
    (19, 20, "compaction", "rdc"),
    (17, 16, "syncer-replay", "rd"), (16, 18, "syncer-batching", "rd"),
    # local-deletion policy, the node-local expiry sweep run in the middle of the log:
    (12, 14, "localexpiry", "rd"),    # log years AFTER the node's clock: nothing is past expiry, nothing may change
    (13, 15, "localexpiry", "u"),     # log years BEFORE the node's clock: equal up to the keys that ever had a TTL
]

TTL_CMDS = ("setex", "expire", "hexpire", "lexpire", "sexpire", "zexpire", "bexpire")
MULTI = ("del", "hmclear", "lmclear", "smclear", "zmclear")
KVKV = ("mset", "plset")


def req_keys(reqs):
    """per request: (name, [primary keys])"""
    out = []
    for r in reqs.split(";"):
        if not r:
            continue
        k, _, a = r.split(":", 2)
        args = a.split(",") if a else []
        if k != "R" or len(args) < 2:
            out.append(("<%s>" % k, [], args))
            continue
        name = unh(args[0]).decode("latin1").lower()
        if name in MULTI:
            ks = args[1:]
        elif name in KVKV:
            ks = args[1::2]
        else:
            ks = args[1:2]
        out.append((name, ks, args))
    return out


# data type a write command works on, and the dump views that belong to each type
def cmd_type(name):
    if name in ("hmclear",) or (name.startswith("h") and name not in ()):
        return "h"
    if name in ("sadd", "srem", "spop", "sclear", "smclear", "sexpire", "spersist"):
        return "s"
    if name.startswith("z"):
        return "z"
    if name in ("lpush", "rpush", "lpop", "rpop", "lset", "ltrim", "lclear", "lmclear", "lexpire", "lpersist"):
        return "l"
    if name in ("setbitv2", "bitclear", "bexpire", "bpersist"):
        return "b"
    if name.startswith("json."):
        return "j"
    return "k"


VIEW_TYPE = dict(get="k", getnil="k", ttl="k", pfc="k", hall="h", hlen="h", httl="h", lr="l", llen="l", lttl="l",
                 sm="s", scard="s", sttl="s", zr="z", zcard="z", zttl="z", bitc="b", bttl="b", json="j")


def untainted_view(L, o, due_limit=None):
    """replies and dump restricted to the (type, key) pairs that never got a TTL in this log (local-deletion
    policy: a node may physically remove, on its own clock, exactly the values that are past their expiry;
    a value of ANOTHER type under the same key name is not one of them)."""
    rk = req_keys(L["reqs"])
    tainted = set()
    for name, ks, args in rk:
        has_ex = name in TTL_CMDS or (name in ("set", "setifeq") and any(unh(x).lower() == b"ex" for x in args[3:]))
        if has_ex and due_limit is not None:
            # the log lies only ~100 s before the node's clock: a TTL of `due_limit` seconds or more is NOT due,
            # such a value must survive the sweep like one without TTL
            try:
                dur = int(unh(args[2]).decode("latin1")) if name in TTL_CMDS else max(
                    int(unh(args[i + 1]).decode("latin1")) for i in range(3, len(args) - 1) if unh(args[i]).lower() == b"ex")
                if dur >= due_limit:
                    has_ex = False
            except Exception:
                pass
        if has_ex:
            t = cmd_type(name)
            tainted.update((t, k) for k in ks)
            if t == "k":
                tainted.update(("b", k) for k in ks)    # BITCOUNT falls back to the string value of the key
    reps = o["replies"].split(" ; ")
    keep = [r for (name, ks, _), r in zip(rk, reps) if not any((cmd_type(name), k) in tainted for k in ks)]
    ents = []
    for e in o["dump"].split(" || "):
        if not e or e.startswith("cnt(") or e.startswith("pfr") or "{" not in e:
            continue
        key, body = e.split("{", 1)
        toks = [t for t in body.rstrip("}").split(" | ") if (VIEW_TYPE.get(t.split("=", 1)[0], "k"), key) not in tainted]
        if toks:
            ents.append(key + "{" + " | ".join(toks) + "}")
    return " ; ".join(keep), " || ".join(ents)


def unh(s):
    if s in ("-", ""):
        return b""
    if s[0] == "r" and "x" in s:          # r<count>x<hexbyte>: a long run of one byte
        n, c = s[1:].split("x")
        return bytes([int(c, 16)]) * int(n)
    return bytes.fromhex(s)


def parse_obs(path):
    obs = {}
    if not os.path.exists(path):
        return obs
    for line in open(path, errors="replace"):
        f = line.rstrip("\n").split("\t")
        if len(f) >= 5:
            obs[f[0]] = dict(replies=f[1], dump=f[2], raw=f[3], note=f[4])
    return obs


def parse_cases(path):
    logs, order = {}, []
    cur = None
    for line in open(path, errors="replace"):
        line = line.rstrip("\n")
        f = line.split("\t")
        if len(f) < 2:
            continue
        if f[1] == "LOG":
            cur = dict(id=f[0], policy=f[2], n=int(f[3]), line=line, vars={}, reqs=f[4] if len(f) > 4 else "")
            logs[f[0]] = cur
            order.append(f[0])
        elif f[1] == "VAR" and cur is not None:
            cur["vars"][f[0]] = line
    return logs, order


def cmd_names(reqs):
    names = []
    for r in reqs.split(";"):
        if not r:
            continue
        k, _, a = r.split(":", 2)
        if k != "R":
            names.append("<%s>" % k)
            continue
        first = a.split(",")[0]
        names.append(unh(first).decode("latin1").lower())
    return names


def first_diff(a, b):
    x, y = a.split(" ; "), b.split(" ; ")
    for i in range(max(len(x), len(y))):
        if i >= len(x) or i >= len(y) or x[i] != y[i]:
            return i, (x[i] if i < len(x) else None), (y[i] if i < len(y) else None)
    return -1, None, None


def judge(logs, order, obs, pairs=None):
    """The property itself on the implementation's outputs: runs of one log that differ in one
    dimension only must give equal replies and equal dumps. Returns (failures, stats)."""
    fails = []
    st = dict(logs=0, skipped_panic=0, comparisons=0, runerr=0, raw_only_diffs=0, by_dim={})
    for lid in order:
        L = logs[lid]
        vs = L["vars"]
        st["logs"] += 1
        o = {v: obs.get(v) for v in vs}
        if any(x is None for x in o.values()):
            fails.append(dict(log=lid, a=None, b=None, dim="missing", what="a variant produced no output"))
            continue
        if any(x["replies"] == "runerr" for x in o.values()):
            st["runerr"] += 1
            bad = [v for v, x in o.items() if x["replies"] == "runerr"]
            fails.append(dict(log=lid, a=bad[0], b=bad[0], dim="runerr", what="harness could not run a variant: " + o[bad[0]]["dump"]))
            continue
        if any("panic:" in x["note"] for x in o.values()):
            st["skipped_panic"] += 1       # a Go panic in the apply loop: C11's subject, the replica is dead
            continue
        plist = pairs
        if plist is None:
            plist = [("%s.v%d" % (lid, a), "%s.v%d" % (lid, b), dim, what) for a, b, dim, what in PAIRS]
        for a, b, dim, what in plist:
            if a not in o or b not in o:
                continue
            st["comparisons"] += 1
            st["by_dim"][dim] = st["by_dim"].get(dim, 0) + 1
            A, B = o[a], o[b]
            if what == "u":
                recent = vs.get(a, "").split("\t")[4:5] == ["4"]      # shift index 4 = the recent past
                ra, da = untainted_view(L, A, 60 if recent else None)
                rb, db = untainted_view(L, B, 60 if recent else None)
                if ra != rb:
                    i, x, y = first_diff(rb, ra)
                    fails.append(dict(log=lid, a=b, b=a, dim=dim, kind="replies",
                                      what="reply %d (counting only requests on keys that never had a TTL) differs: %s vs %s" % (i, x, y)))
                elif da != db:
                    fails.append(dict(log=lid, a=b, b=a, dim=dim, kind="dump", what="dumps differ on keys that never had a TTL"))
                continue
            if what == "p":
                # pure-PFADD logs: replies and the PFCOUNTs after the final flush + restart only (the other views of
                # such keys depend on flush times: open findings)
                pfr = lambda d: " ".join(e for e in d.split(" || ") if e.startswith("pfr"))
                nm = cmd_names(L["reqs"])
                # (the reply of DEL on a PFADDed key depends on whether the sketch had reached the engine: open finding)
                nodel = lambda rs: " ; ".join(r for r, n in zip(rs.split(" ; "), nm) if n != "del")
                if nodel(A["replies"]) != nodel(B["replies"]):
                    i, x, y = first_diff(nodel(B["replies"]), nodel(A["replies"]))
                    fails.append(dict(log=lid, a=b, b=a, dim=dim, kind="replies", what="reply of request %d differs: %s vs %s" % (i, x, y)))
                elif pfr(A["dump"]) != pfr(B["dump"]):
                    fails.append(dict(log=lid, a=b, b=a, dim=dim, kind="pfr",
                                      what="PFCOUNT after a final flush + restart differs on a key only PFADD ever touched: %s vs %s"
                                           % (pfr(B["dump"]), pfr(A["dump"]))))
                continue
            if dim == "restore":
                pfr = lambda d: " ".join(e for e in d.split(" || ") if e.startswith("pfr"))
                if pfr(A["dump"]) != pfr(B["dump"]):
                    fails.append(dict(log=lid, a=b, b=a, dim=dim, kind="pfr",
                                      what="PFCOUNT after a final flush + restart differs on a key only PFADD ever touched: %s vs %s"
                                           % (pfr(B["dump"]), pfr(A["dump"]))))
                    continue
            if "c" in what and A["replies"] == B["replies"] and A["dump"] != B["dump"]:
                # compaction dimension: user data first, the table key counters separately
                strip = lambda d: " || ".join(e for e in d.split(" || ") if not e.startswith("cnt("))
                if strip(A["dump"]) == strip(B["dump"]):
                    fails.append(dict(log=lid, a=b, b=a, dim=dim, kind="counter",
                                      what="only the table key counters differ: " +
                                           " vs ".join(",".join(e for e in d.split(" || ") if e.startswith("cnt(")) for d in (B["dump"], A["dump"]))))
                    continue
            if "r" in what and A["replies"] != B["replies"]:
                i, x, y = first_diff(B["replies"], A["replies"])
                fails.append(dict(log=lid, a=b, b=a, dim=dim, kind="replies",
                                  what="reply of request %d differs: %s vs %s" % (i, x, y)))
            elif "d" in what and A["dump"] != B["dump"]:
                fails.append(dict(log=lid, a=b, b=a, dim=dim, kind="dump", what="logical dumps differ"))
            elif "d" in what and A["raw"] != B["raw"] and dim in ("batching", "replay", "engine", "rerun") \
                    and "\trocksdb\t" not in vs.get(a, "") + vs.get(b, ""):
                # (the raw listing of a rocksdb store is cut short by its prefix extractor: not compared)
                st["raw_only_diffs"] += 1   # same user-visible data, different engine bytes: noted, not a violation
    return fails, st


BATCHABLE = ("set", "setex", "del", "hmset")
SIG_ABORT = "batching: a batchable command that fails at apply aborts the whole batch (AbortBatchForError)"
SIG_SYNCER_REPLAY = ("syncer-replay: entries from the cluster syncer are conflict-checked (and possibly ignored) when applied "
                     "live but applied unconditionally when replayed")
SIG_HLL_BYTES = ("stored bytes of a HyperLogLog value: the library's gob serialisation iterates a Go map (tmpSet), "
                 "equal sketches are stored as different byte strings from run to run")
SIG_COUNTER = ("compaction: the table key counter counts a key again that is re-created after the compaction filter "
               "dropped its expired predecessor")
SIG_HLL = ("restore: HyperLogLog write-back cache (pfadd reaches the engine only when the cache is flushed: "
           "checkpoint, restart, eviction)")


def signature_of(dim, kind, shrunk_names, policy, observed=None):
    """The input class of a (shrunk) failing case. Two classes have a canonical name because the same
    cause shows up with many different victim commands; everything else is dimension + the commands left."""
    names = set(shrunk_names)
    if dim == "restore" and kind == "pfr":
        return "restore/pfr: " + "+".join(sorted(names))
    if dim == "restore" and "pfadd" in names:
        return SIG_HLL
    if dim == "syncer-replay":
        return SIG_SYNCER_REPLAY
    if dim == "compaction" and kind == "counter":
        return SIG_COUNTER
    if dim == "batching" and observed:
        # a batchable command that replies an error when applied alone, and another request whose
        # reply changes when they are delivered together
        alone = list(observed.values())[0]["replies"].split(" ; ")
        if any(r == "-err" and n in BATCHABLE for r, n in zip(alone, shrunk_names)):
            return SIG_ABORT
    return "%s/%s: %s" % (dim, kind, "+".join(sorted(names)))


class Runner:
    def __init__(self, ctx):
        self.ctx = ctx
        self.bin = os.path.join(vlib.BIN, BINNAME)

    def fresh_dir(self, sub):
        d = os.path.join(self.ctx.run_dir, sub)
        shutil.rmtree(d, ignore_errors=True)
        os.makedirs(d)
        return d

    def run(self, sub, args, timeout=2400):
        d = self.fresh_dir(sub)
        rc, out, dt = sh("%s %s -out %s > /dev/null" % (self.bin, args, d), cwd=d, timeout=timeout)
        if rc != 0:
            return None, out
        return d, ""

    def model(self, d):
        rc, out, _ = sh("%s < cases.tsv > model.out" % vlib.modelrun_path(GROUP), cwd=d, timeout=1200)
        return rc == 0, out

    def shrink(self, L, a, b, kind, tag):
        """delta-debug the log while the two runs differ; returns (case lines, names of the shrunk log)."""
        d = self.fresh_dir("shrink-" + tag)
        src = os.path.join(d, "in.tsv")
        with open(src, "w") as f:
            f.write(L["line"] + "\n" + L["vars"][a] + "\n" + L["vars"][b] + "\n")
            f.write("w\tWHAT\t%s\n" % kind)
        rc, out, _ = sh("%s -shrink %s -out %s > /dev/null" % (self.bin, src, d), cwd=d, timeout=300)
        lines = [L["line"], L["vars"][a], L["vars"][b]]
        p = os.path.join(d, "shrunk.tsv")
        if rc == 0 and os.path.exists(p):
            got = [x for x in open(p).read().split("\n") if x]
            if len(got) == 3:
                lines = got
        names = cmd_names(lines[0].split("\t")[4] if len(lines[0].split("\t")) > 4 else "")
        return lines, names

    def confirm(self, lines, dim, kind, tag):
        """re-run the (shrunk) case and evaluate the oracle on it in Python."""
        d = self.fresh_dir("confirm-" + tag)
        p = os.path.join(d, "case.tsv")
        open(p, "w").write("\n".join(lines) + "\n")
        rc, out, _ = sh("%s -replay %s -out %s > /dev/null" % (self.bin, p, d), cwd=d, timeout=300)
        if rc != 0:
            return None, None
        logs, order = parse_cases(os.path.join(d, "cases.tsv"))
        obs = parse_obs(os.path.join(d, "obs.out"))
        vids = list(logs[order[0]]["vars"].keys())
        what = "p" if kind == "pfr" else "u" if dim == "localexpiry" else ("r" if kind == "replies" else ("rdc" if dim == "compaction" else "rd"))
        fails, _ = judge(logs, order, obs, pairs=[(vids[1], vids[0], dim, what)])
        return fails, {v: obs.get(v) for v in vids}


def check_noabort_hypothesis(cases_path):
    """hypothesis no_abort_in_batch on the implementation: a batchable command that passed
    isValidBatchableWrite (valid = 1) never fails with an abort-class error (class a)."""
    bad, seen = [], 0
    for line in open(cases_path, errors="replace"):
        f = line.rstrip("\n").split("\t")
        if len(f) < 4 or f[1] != "B":
            continue
        for op in f[3].split("|"):
            for c in op.split(";"):
                for r in c.lstrip("!").split(","):
                    q = r.split(".")
                    if len(q) >= 7 and q[0] == "R":
                        name = unh(q[1]).decode("latin1")
                        if name in BATCHABLE:
                            seen += 1
                            if q[4] == "1" and q[5] == "a" and not (name == "del" and q[3] != "2"):
                                bad.append((f[0], name, r))
    return bad, seen


def decode_log(line):
    f = line.split("\t")
    out = []
    if len(f) > 4 and f[4]:
        for r in f[4].split(";"):
            k, ts, a = r.split(":", 2)
            args = [unh(x).decode("latin1") for x in a.split(",")] if a else []
            args = [x if len(x) <= 40 else x[:8] + "...(%d bytes)" % len(x) for x in args]
            out.append("%s ts=+%sns %s" % (k, ts, " ".join(repr(x) for x in args)))
    return out


def drop_requests(lines, drop):
    """remove the requests with the given indexes from a (LOG, VAR, VAR) case with one request per call"""
    f = lines[0].split("\t")
    reqs = f[4].split(";")
    keep = [r for i, r in enumerate(reqs) if i not in drop]
    f[3], f[4] = str(len(keep)), ";".join(keep)
    out = ["\t".join(f)]
    for vl in lines[1:]:
        v = vl.split("\t")
        for col in (5, 6):                      # cut / sweep position
            p = int(v[col])
            if p >= 0:
                v[col] = str(p - sum(1 for i in drop if i < p))
        v[7] = "|".join("1" for _ in keep)
        out.append("\t".join(v))
    return out


def py_shrink(R, L, f, tag, budget=60):
    lines = [L["line"], L["vars"][f["a"]], L["vars"][f["b"]]]
    if any(set(vl.split("\t")[7]) - set("1|") for vl in lines[1:]):
        return lines, cmd_names(L["reqs"])     # not one request per lifetime: leave it
    n = int(lines[0].split("\t")[3])
    chunk = max(1, n // 2)
    tries = 0
    while chunk >= 1 and tries < budget:
        i, progressed = 0, False
        while i < n and tries < budget:
            cand = drop_requests(lines, set(range(i, min(n, i + chunk))))
            tries += 1
            cf, _ = R.confirm(cand, f["dim"], f["kind"], tag + "-s")
            if cf:
                lines, n, progressed = cand, int(cand[0].split("\t")[3]), True
            else:
                i += chunk
        if not progressed or chunk == 1:
            chunk //= 2
    return lines, cmd_names(lines[0].split("\t")[4])


def process_failures(R, logs, fails, max_shrinks):
    """shrink, confirm and sign the failures; returns the oracle failure records for standard_verdict."""
    out, seen = [], {}
    per_dim = {}
    # dimensions in which a finding is already known go last and every dimension has its own budget,
    # so that known findings cannot use up the shrinking budget of a new one
    known_dims = ("syncer-replay", "restore", "compaction")
    fails = sorted(fails, key=lambda f: 1 if (f["dim"] in known_dims and f.get("kind") != "pfr") else 0)
    for f in fails:
        if f["dim"] in ("missing", "runerr"):
            L = logs[f["log"]]
            lines = [L["line"]] + ([L["vars"][f["a"]]] if f.get("a") in L["vars"] else list(L["vars"].values())[:2])
            out.append(dict(name="%s-%s" % (f["dim"], f["log"]), case=dict(cases_tsv=lines, detail=f["what"]),
                            what=f["what"], signature=None))
            continue
        key = (f["log"], f["dim"], f.get("kind") == "pfr")
        if key in seen:
            continue
        seen[key] = 1
        if per_dim.get(f["dim"], 0) >= max_shrinks:
            continue
        if f["dim"] in known_dims and f.get("kind") != "replies" and per_dim.get((f["dim"], "k"), 0) >= 1 and max_shrinks <= 3:
            continue   # quick tier: one dump-level case per dimension that has an open finding (reply-level ones all count)
        if f["dim"] in known_dims and f.get("kind") != "replies":
            per_dim[(f["dim"], "k")] = 1
        per_dim[f["dim"]] = per_dim.get(f["dim"], 0) + 1
        L = logs[f["log"]]
        tag = "%s-%s" % (f["log"], f["dim"])
        if f["dim"] == "localexpiry":
            # the oracle of this dimension looks at a restricted view (values that never had a TTL), which the
            # Go shrinker does not know: shrink here, re-judging every candidate with the real oracle
            lines, names = py_shrink(R, L, f, tag)
        else:
            lines, names = R.shrink(L, f["a"], f["b"], f["kind"], tag)
        cf, o = R.confirm(lines, f["dim"], f["kind"], tag)
        if not cf:
            # not reproducible after shrinking: fall back to the full log
            lines = [L["line"], L["vars"][f["a"]], L["vars"][f["b"]]]
            names = cmd_names(L["reqs"])
            cf, o = R.confirm(lines, f["dim"], f["kind"], tag + "-full")
            if not cf:
                out.append(dict(name="flaky-" + tag, case=dict(cases_tsv=lines), signature=None,
                                what="two runs of %s differed once but not when re-run (%s): nondeterminism" % (f["log"], f["what"])))
                continue
        sig = signature_of(f["dim"], cf[0].get("kind", f["kind"]), names, L["policy"], o)
        out.append(dict(name="%s-%s" % (f["dim"], vlib.case_hash("\n".join(lines))),
                        case=dict(cases_tsv=lines, dimension=f["dim"], policy=L["policy"], log=decode_log(lines[0]),
                                  variant_a=lines[1].split("\t")[2:], variant_b=lines[2].split("\t")[2:],
                                  observed=o, difference=cf[0]["what"]),
                        signature=sig,
                        what="same log, runs differing only in %s: %s [%s]" % (f["dim"], cf[0]["what"], sig)))
    return out


def selftest(R, nseeds, nlogs, tier):
    """Identical runs must be identical: every (log, variant) of nseeds generations is run in two separate
    processes (and v8 is v0 run twice in one process); replies and dumps are compared line by line.
    Returns (runs compared, list of differing variant ids)."""
    total, bad = 0, []
    for seed in range(9001, 9001 + nseeds):
        obs = []
        for p in (1, 2):
            d, err = R.run("selftest-p%d" % p, "-seed %d -n %d -len 120 -tier %s" % (seed, nlogs, tier))
            if d is None:
                return total, ["harness failed: " + err[-300:]]
            obs.append(parse_obs(os.path.join(d, "obs.out")))
        a, b = obs
        for k in a:
            if "panic:" in a[k]["note"] or k not in b:
                continue
            total += 1
            if a[k]["replies"] != b[k]["replies"] or a[k]["dump"] != b[k]["dump"]:
                bad.append("seed %d %s (two processes)" % (seed, k))
            if k.endswith(".v8"):
                k0 = k[:-1] + "0"
                if k0 in a and (a[k]["replies"] != a[k0]["replies"] or a[k]["dump"] != a[k0]["dump"]):
                    bad.append("seed %d %s (same process)" % (seed, k))
    return total, bad


def run(ctx):
    quick = ctx.tier == "quick"
    ok, out, _ = vlib.go_build(BINNAME)
    if not ok:
        log("BUILD FAILED (harness detsim):\n" + out[-3000:])
        raise SystemExit(2)
    if os.environ.get("C07_SELFTEST"):
        # ./check C07 with C07_SELFTEST=<seeds>: only the identical-runs self-test (no verdict on the property)
        n = int(os.environ["C07_SELFTEST"])
        total, bad = selftest(Runner(ctx), n, 40, "thorough")
        log("C07 self-test: %d identical run pairs over %d seeds, %d differences %s" % (total, n, len(bad), bad[:10]))
        raise SystemExit(0 if not bad else 2)
    vlib.regen_consts(GROUP, BINNAME)
    proofs_ok, info = ctx.check_proofs(make_targets=["Determ/Proofs.vo", "Determ/ProofsRW.vo", "Properties/C07.vo"],
                                       gate_paths=["Determ", "Properties/C07"])
    if not quick and proofs_ok:
        # thorough: the compiled development re-checked by the independent checker
        with vlib.CoqLock():
            rc, cout, cdt = sh("coqchk -silent -o -Q . ZV ZV.Properties.C07", cwd=vlib.COQ, timeout=1800)
        axioms_none = "Axioms: <none>" in cout.replace("\n", " ").replace("  ", " ") or "* Axioms: <none>" in cout
        ctx.notes.append("coqchk ZV.Properties.C07: rc=%d, %.0fs, %s" % (rc, cdt, "no axioms" if axioms_none else cout[-400:]))
        if rc != 0:
            proofs_ok = False
            ctx.proof["ok"] = False
            ctx.proof["error"] = "coqchk failed: " + cout[-1500:]
    mok, mout, _ = vlib.model_build(GROUP)
    if not mok:
        log("MODEL BUILD FAILED:\n" + mout[-3000:])
        raise SystemExit(2)
    R = Runner(ctx)

    nlogs, llen = (260, 120) if quick else (1200, 140)
    jobs = []
    if ctx.replay:
        rp = json.load(open(ctx.replay))
        lines = (rp.get("case") or {}).get("cases_tsv") or rp.get("cases_tsv") or []
        d = R.fresh_dir("replay-in")
        p = os.path.join(d, "case.tsv")
        open(p, "w").write("\n".join(lines) + "\n")
        jobs.append(("replay", "-replay %s" % p, "first"))
    else:
        for i, p in enumerate(sorted(glob.glob(os.path.join(vlib.VERIF, "corpus", ctx.prop, "*.tsv")))):
            jobs.append(("corpus%d" % i, "-replay %s" % p, "first"))
        jobs.append(("fresh", "-seed %d -n %d -len %d -tier %s" % (ctx.seed, nlogs, llen, ctx.tier), None))
        jobs.append(("pairs", "-pairs -tier %s" % ctx.tier, "pairs"))
        jobs.append(("edge", "-edge", "pairs"))
        # multi-part writes failing part-way between successful writes, restore cut at every point
        jobs.append(("partial", "-partial", "first"))
        # collections > RangeDeleteNum cleared by range deletion and re-created, on mem, pebble and rocksdb
        jobs.append(("big", "-big", "first"))
        # values of every type expire and are then touched; rocksdb with / without a forced full compaction, pebble, mem
        jobs.append(("compact", "-compact", "first"))
        # local-deletion policy: one key name, several types, a TTL on one of them, node-local sweep on one replica
        jobs.append(("sweep", "-sweep", "first"))
        # pure PFADD keys, every checkpoint cut and every running-replica restore: PFCOUNT after a final flush + restart
        jobs.append(("hll", "-hll", "first"))

    if not ctx.replay and not quick:
        # thorough: identical runs are identical, before any pair that differs in a dimension is judged
        st_total, st_bad = selftest(R, 6, 25, "thorough")
        ctx.notes.append("self-test: %d identical run pairs (two processes / same process), %d differences" % (st_total, len(st_bad)))
    else:
        st_bad = []
    all_mism, all_fail, total = [], [], 0
    for sb in st_bad[:3]:
        all_fail.append(dict(name="selftest-" + vlib.case_hash(sb), signature="identical runs differ: " + sb.split(" ")[2].split(".")[-1],
                             case=dict(run=sb, reproduce="C07_SELFTEST=6 ./check C07"),
                             what="two identical runs of the same log and variant differ (%s): nondeterminism in the code under test or in the harness" % sb))
    stats = dict(logs=0, skipped_panic=0, comparisons=0, runerr=0, raw_only_diffs=0, by_dim={})
    hist, samples, distinct = {}, [], set()
    for sub, args, mode in jobs:
        d, err = R.run(sub, args)
        if d is None:
            log("HARNESS RUN FAILED (%s):\n%s" % (sub, err[-3000:]))
            raise SystemExit(2)
        okm, merr = R.model(d)
        if not okm:
            log("MODEL RUN FAILED:\n" + merr[-2000:])
            raise SystemExit(2)
        mism, cnt = vlib.diff_outputs(os.path.join(d, "impl.out"), os.path.join(d, "model.out"))
        all_mism += mism
        total += cnt
        logs, order = parse_cases(os.path.join(d, "cases.tsv"))
        obs = parse_obs(os.path.join(d, "obs.out"))
        pairs = None
        if mode in ("first", "pairs"):
            pairs = []
            for lid in order:
                vids = list(logs[lid]["vars"].keys())
                for v in vids[1:]:
                    pairs.append((v, vids[0], "batching" if mode == "pairs" else "replayed-case", "rd"))
            # judge() applies a pair list to every log; restrict per log below
            fails, st = [], dict(stats, by_dim={})
            for lid in order:
                vids = list(logs[lid]["vars"].keys())
                def base_of(v):
                    fv = logs[lid]["vars"][v].split("\t")
                    for w in vids:
                        if w == v:
                            break
                        fw = logs[lid]["vars"][w].split("\t")
                        if fw[4:7] == fv[4:7] and fw[8:] == fv[8:]:
                            return w
                    return vids[0]
                pl = [(v, base_of(v), dim_of(logs[lid]["vars"][base_of(v)], logs[lid]["vars"][v]), "rd") for v in vids[1:]]
                pl = [(a_, b_, d_, "rdc" if d_ == "compaction" else ("u" if d_ == "localexpiry" else w_)) for a_, b_, d_, w_ in pl]
                if sub == "hll":
                    pl = [(a_, b_, d_, "p") for a_, b_, d_, w_ in pl]
                f1, s1 = judge(logs, [lid], obs, pairs=pl)
                fails += f1
                for k in ("logs", "skipped_panic", "comparisons", "runerr", "raw_only_diffs"):
                    stats[k] += s1[k]
                for k, v in s1["by_dim"].items():
                    stats["by_dim"][k] = stats["by_dim"].get(k, 0) + v
        else:
            fails, s1 = judge(logs, order, obs)
            for k in ("logs", "skipped_panic", "comparisons", "runerr", "raw_only_diffs"):
                stats[k] += s1[k]
            for k, v in s1["by_dim"].items():
                stats["by_dim"][k] = stats["by_dim"].get(k, 0) + v
        all_fail += process_failures(R, logs, fails, 3 if quick else 8)
        hb, hs = check_noabort_hypothesis(os.path.join(d, "cases.tsv"))
        stats["noabort_checked"] = stats.get("noabort_checked", 0) + hs
        for vid, name, r in hb[:3]:
            lid = vid.split(".")[0]
            all_fail.append(dict(name="noabort-" + vid, signature="hypothesis no_abort_in_batch: " + name,
                                 case=dict(cases_tsv=[logs[lid]["line"], logs[lid]["vars"][vid[:-2]]], request=r),
                                 what="a %s that passed isValidBatchableWrite failed with an abort-class error at apply "
                                      "(hypothesis no_abort_in_batch of C07_batch_equiv_partial does not hold for the handlers)" % name))
        for lid in order:
            names = cmd_names(logs[lid]["reqs"])
            for nm in names:
                hist[nm] = hist.get(nm, 0) + 1
            if len(names) >= 2 and len(logs[lid]["vars"]) >= 2:
                distinct.add(vlib.case_hash(logs[lid]["reqs"] + "|".join(sorted(logs[lid]["vars"].values()))))
        for lid in order[:1] + order[-1:]:
            vids = list(logs[lid]["vars"].keys())
            samples.append(dict(log=decode_log(logs[lid]["line"])[:12], policy=logs[lid]["policy"],
                                variants=[logs[lid]["vars"][v].split("\t")[2:7] for v in vids],
                                replies=(obs.get(vids[0]) or {}).get("replies", "")[:300]))
        # a second PROCESS on the same logs (Go randomises map iteration per process and per loop)
        if sub == "fresh" and not ctx.replay:
            n2 = 40 if quick else 100
            d2, err = R.run("fresh-p2", "-seed %d -n %d -len %d -tier %s" % (ctx.seed, n2, llen, ctx.tier))
            if d2 is None:
                log("HARNESS RUN FAILED (second process):\n" + err[-3000:])
                raise SystemExit(2)
            obs2 = parse_obs(os.path.join(d2, "obs.out"))
            logs2, order2 = parse_cases(os.path.join(d2, "cases.tsv"))
            pf = []
            for lid in order2:
                for v in logs2[lid]["vars"]:
                    stats["comparisons"] += 1
                    stats["by_dim"]["process"] = stats["by_dim"].get("process", 0) + 1
                    a, b = obs.get(v), obs2.get(v)
                    if a is None or b is None or "panic:" in a["note"]:
                        continue
                    if a["replies"] != b["replies"] or a["dump"] != b["dump"]:
                        i, x, y = first_diff(a["replies"], b["replies"])
                        pf.append(dict(name="process-" + v, signature="process: " + v.split(".")[1],
                                       case=dict(cases_tsv=[logs2[lid]["line"], logs2[lid]["vars"][v], logs2[lid]["vars"][v]],
                                                 process1=a, process2=b),
                                       what="two processes applying the same log the same way differ (request %d: %s vs %s)" % (i, x, y)))
                        break
            all_fail += pf[:3]

    # the HyperLogLog serialisation probe: the byte views of PFADDed keys are left out of every dump
    # (harness/cmd/detsim dump()), this probe is where their run-to-run nondeterminism is shown and reported
    if not ctx.replay:
        dpr = R.fresh_dir("hllprobe")
        rc, pout, _ = sh("%s -hllprobe 16 -out %s > /dev/null" % (R.bin, dpr), cwd=dpr, timeout=300)
        vals = [ln.split("\t", 1)[1] for ln in open(os.path.join(dpr, "hllprobe.out")).read().split("\n")
                if "\t" in ln and not ln.startswith("err")] if rc == 0 else []
        stats["hllprobe_distinct"] = len(set(vals))
        if len(set(vals)) > 1:
            all_fail.append(dict(name="hllbytes", signature=SIG_HLL_BYTES,
                                 case=dict(log=["pfadd t:p a b c d e", "checkpoint (flushes the HLL cache)", "get t:p"],
                                           runs=len(vals), distinct_values=sorted(set(vals))[:4]),
                                 what="16 identical runs of PFADD t:p a b c d e + flush store %d different byte strings under t:p" % len(set(vals))))

    def search():
        d, err = R.run("search", "-seed %d -n %d -len %d -tier thorough" % (ctx.seed + 1000003, 600, 150))
        if d is None:
            return []
        logs, order = parse_cases(os.path.join(d, "cases.tsv"))
        obs = parse_obs(os.path.join(d, "obs.out"))
        fails, _ = judge(logs, order, obs)
        return process_failures(R, logs, fails, 4)

    vlib.standard_verdict(ctx, proofs_ok, all_mism, all_fail, search_fn=search,
                          corr_name="Determ/Model.v (batching logic of ApplyRaftRequest / kvbatchOperator) vs the calls the real "
                                    "state machine makes on its batch operator and the reply kinds")
    top = sorted(hist.items(), key=lambda kv: -kv[1])
    ctx.finish(dict(
        traces_validated_against_impl=total,
        evaluations=stats["comparisons"],
        distinct_nontrivial=len(distinct),
        rule="a case = one command log (KV, hash, list, set, zset, bitmap, HLL, JSON writes incl. TTL commands; timestamps straddling "
             "second boundaries by 1 ns; a share of proposable-but-failing batchable commands) plus its variant set; every variant is "
             "a run of the real node state machine; each is compared with a partner differing in one dimension (batching / replay flag / "
             "engine / clock position / rerun / restore-at-cut / process / local expiry sweep / cluster-syncer live-vs-replay and grouping); plus the "
             "exhaustive batchable-pair sweep and the edge-argument sweep of the batchable commands (three groupings each). Non-trivial = log of >= 2 commands with >= 2 variants; distinct "
             "by hash of log+variants. traces_validated = (log, variant) runs whose batch-operator call sequence and reply kinds the "
             "extracted model predicted.",
        histogram=dict(commands=dict(top[:60]), comparisons_by_dimension=stats["by_dim"], logs=stats["logs"],
                       logs_skipped_for_go_panic=stats["skipped_panic"], raw_only_differences=stats["raw_only_diffs"],
                       batchable_requests_checked_for_no_abort=stats.get("noabort_checked", 0),
                       hll_probe_distinct_serialisations_of_16=stats.get("hllprobe_distinct", 0)),
        mismatches=len(all_mism),
        samples=samples[:5],
    ), assumptions=[
        "log timestamps are placed 3 and 6 years after / before the wall clock; logical dumps are compared only between runs on the same side (reads consult the clock)",
        "a Go panic inside the apply loop ends the replica (C11); such logs are counted and skipped",
        "engine write failures and disk-full panics are not injected",
    ])


def dim_of(va, vb):
    a, b = va.split("\t"), vb.split("\t")
    sa, sb = (a[8] if len(a) > 8 else "-"), (b[8] if len(b) > 8 else "-")
    if a[5] != b[5]:
        return "restore"
    if "c" in sa and "c" in sb and a[2] != b[2]:
        return "compaction"       # a compacting rocksdb replica vs a (never dropping) pebble / mem one
    if a[2] != b[2]:
        return "engine"
    if a[4] != b[4]:
        return "clock"
    if a[6] != b[6]:
        return "localexpiry"
    if ("c" in sa) != ("c" in sb):
        return "compaction"
    if "s" in sa and "s" in sb:
        return "syncer-replay" if a[3] != b[3] else "syncer-batching"
    if a[3] != b[3] and a[7] == b[7]:
        return "replay"
    if a[7] != b[7]:
        return "batching"
    return "rerun"
