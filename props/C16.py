"""C16 — raft messages arrive as sent through the stream codecs (msgappv2 and plain message codec)."""
import glob
import json
import os
import re
import shutil

import vlib
from vlib import sh, log

GROUP = "Stream"
BIN = "stream"
OUT_RE = re.compile(r"^(?:wf=(\d) kinds=(\S+) bytes=(\S+) )?dec=(\(.*\)) err=(\S+) cuts=(.*)$")
PANIC_SIG = "msgAppV2Decoder.decode: length prefix read from the stream is passed to make() unchecked (makeslice panic)"


def parse_cases(path):
    cases = {}
    for line in open(path):
        p = line.rstrip("\n").split("\t")
        if len(p) >= 7:
            cases[p[0]] = p[1:]
    return cases


def count_msgs(dec):
    """number of top-level items of the printed message list"""
    depth = 0
    n = 0
    for ch in dec:
        if ch == "(":
            depth += 1
            if depth == 2:
                n += 1
        elif ch == ")":
            depth -= 1
    return n


def split_items(tree):
    """the depth-1 items of a printed list '(a (b c) d)' -> ['a', '(b c)', 'd']"""
    items, depth, cur = [], 0, []
    for ch in tree:
        if ch == "(":
            depth += 1
            if depth == 1:
                continue
        elif ch == ")":
            depth -= 1
            if depth == 0:
                break
        if depth == 1 and ch == " ":
            if cur:
                items.append("".join(cur))
                cur = []
            continue
        cur.append(ch)
    if cur:
        items.append("".join(cur))
    return items


LIFE_RE = re.compile(r"^dec=(\(.*\)) err=(\S+)$")


def life_oracle(cid, c, out, fails, bump):
    """connection lifecycle through the real streamWriter: every connection's bytes, read by the fresh
       decoder the reader side builds for that connection, are exactly the messages written to it"""
    parts = out.split(" | ")
    # link heartbeats (also heartbeat-shaped input messages) are dropped by the reader loop
    conns = ["(" + " ".join(m for m in split_items(conn) if not m.startswith("(8 0 0 ")) + ")" for conn in split_items(c[4])]
    wf = parts[0] == "wf=1"
    bump("L/%s/%s" % (c[1], "wf" if wf else "nonwf"))
    bump("L-connections=%d" % len(conns))
    if len(parts) - 1 != len(conns):
        fails.append(dict(name="life-" + cid, cid=cid, what="writer harness did not get through all connections: " + parts[-1][:120]))
        return
    for i, (part, want) in enumerate(zip(parts[1:], conns)):
        m = LIFE_RE.match(part)
        if not m:
            fails.append(dict(name="life-" + cid, cid=cid, what="connection %d: %s" % (i, part[:120])))
            return
        dec, err = m.groups()
        if err == "panic":
            fails.append(dict(name="panic-" + cid, cid=cid, what="the decoder panics on connection %d" % i))
            return
        if wf and (dec != want or err != "eof"):
            fails.append(dict(name="life-" + cid, cid=cid,
                              what="connection %d of %d: the messages written to it are not read back by a fresh decoder (err=%s, %d of %d messages)"
                                   % (i, len(conns), err, count_msgs(dec), count_msgs(want))))
            return


def msg_type(tree):
    return tree[1:].split(" ", 1)[0]


def net_oracle(cid, c, out, fails, bump, notes):
    """two real Transports over loopback HTTP (real streamWriter / streamReader with re-dials, pipeline, snapshot
       sender and handlers): what the receiver's Raft.Process gets in every phase is exactly what was handed to the
       sender's Transport in that phase — MsgApp in order, the other stream messages in order, the snapshots as a
       multiset — and the snapshot file arrives byte for byte; nothing is reported unreachable"""
    phases = split_items(c[4])
    bump("T-phases=%d" % len(phases))
    if c[1] == "v2slow":
        bump("T-slow-receiver-burst")
    if "timeout-connect" in out or "timeout-redial" in out:
        notes.append("case %s inconclusive: the two in-process transports did not (re)connect in time: %s" % (cid, out[:80]))
        bump("T-inconclusive")
        return
    parts = out.split(" | ")
    if not parts[0].startswith("unreach=") or not parts[-1].startswith("snapdb="):
        fails.append(dict(name="net-" + cid, cid=cid, what="transport harness output: " + out[:200]))
        return
    got_phases = parts[1:-1]
    for i, ph in enumerate(phases):
        msgs = split_items(ph)
        if c[1] == "v2chaos" and i == len(phases) - 1:
            # sent while the connections are being cut again and again: loss is legitimate, alteration is not
            bump("T-chaos-phase")
            if i >= len(got_phases) or got_phases[i] != "chaos=ok":
                fails.append(dict(name="net-" + cid, cid=cid, what="under connection churn the receiving Raft got a message that was never sent (altered or duplicated): "
                                  + (got_phases[i][:200] if i < len(got_phases) else "<phase not reached>")))
                return
            continue
        want_app = "(" + " ".join(m for m in msgs if msg_type(m) == "3") + ")"
        want_other = "(" + " ".join(m for m in msgs if msg_type(m) not in ("3", "7")) + ")"
        want_snap = "(" + " ".join(sorted(m for m in msgs if msg_type(m) == "7")) + ")"
        bump("T-app", len([m for m in msgs if msg_type(m) == "3"]))
        bump("T-other", len([m for m in msgs if msg_type(m) not in ("3", "7")]))
        bump("T-snap", len([m for m in msgs if msg_type(m) == "7"]))
        want = "app=%s other=%s snap=%s" % (want_app, want_other, want_snap)
        if i >= len(got_phases) or got_phases[i] != want:
            g = got_phases[i] if i < len(got_phases) else "<phase not reached>"
            what = "phase %d of %d (after %d re-dials): what the receiving Raft got differs from what was sent" % (i, len(phases), i)
            if g.endswith(" timeout"):
                what += " (messages missing after the deadline)"
            fails.append(dict(name="net-" + cid, cid=cid, what=what))
            return
    if parts[0] != "unreach=0":
        fails.append(dict(name="net-" + cid, cid=cid, what="the sender reported messages unreachable on a stable connection: " + parts[0]))
        return
    db = c[5]
    if db not in ("-", "") and parts[-1] != "snapdb=" + db:
        fails.append(dict(name="net-" + cid, cid=cid, what="the snapshot file did not arrive as sent"))


def handler_oracle(cid, c, out, fails, bump):
    """the pipeline / snapshot handlers on a body that ends early: with an HTTP-level short body nothing is handed to
       raft; the complete body delivers the message (and the snapshot file) as sent; on the snapshot path a cleanly
       truncated body is refused or delivers the same message with a prefix of the file — never another message"""
    kind = c[1]
    want_msg = split_items(c[4])[0]
    dbtok, _cuts = c[5].split(" ", 1)
    is_snap_type = msg_type(want_msg) == "7"
    res = out.split(" | ")
    full_k = max(int(r.split("/", 1)[0]) for r in res)
    for r in res:
        head, val = r.split("=", 1)
        k, s = head.split("/")
        bump("H-%s-%s" % (kind, "short" if s == "1" else ("full" if int(k) == full_k else "cut")))
        if val == "panic":
            fails.append(dict(name="hand-" + cid, cid=cid, what="handler panics on a body cut at %s" % k))
            return
        if s == "1" and val != "rej":
            fails.append(dict(name="hand-" + cid, cid=cid, what="%s handler processed a message from a body net/http reported short (cut %s)" % (kind, k)))
            return
        if s == "0" and int(k) == full_k:
            want = "msg:" + want_msg + ((" db:" + dbtok) if kind == "snap" else "")
            if kind == "snap" and not is_snap_type:
                want = "rej"
            if val != want:
                fails.append(dict(name="hand-" + cid, cid=cid, what="%s handler: the complete body does not deliver the message as sent" % kind))
                return
        elif s == "0" and kind == "snap" and val != "rej":
            if not val.startswith("msg:" + want_msg + " db:"):
                fails.append(dict(name="hand-" + cid, cid=cid, what="snapshot handler: a truncated body delivers a different message (cut %s)" % k))
                return


def oracle(cases, impl):
    """The property evaluated on the implementation's outputs only:
       (1) a well-formed sequence is decoded to exactly the sequence that was encoded, then a clean EOF;
       (2) every truncated stream decodes to a prefix of what the whole stream decodes to, followed by an
           error (EOF / unexpected EOF, or the very error the whole stream ends with) — never another message;
       (3) no stream makes a codec panic;
       (5) T / H cases: net_oracle, handler_oracle;
       (4) through the real streamWriter: every connection's bytes decode, with a fresh decoder, to exactly the
           messages written to that connection (life_oracle)."""
    fails = []
    hist = {}

    notes = []

    def bump(k, n=1):
        if n:
            hist[k] = hist.get(k, 0) + n

    for cid, c in cases.items():
        kind, codec, payload = c[0], c[1], c[4]
        out = impl.get(cid)
        if out is None:
            fails.append(dict(name="missing-" + cid, cid=cid, what="no implementation output"))
            continue
        if kind == "L":
            life_oracle(cid, c, out, fails, bump)
            continue
        if kind == "T":
            net_oracle(cid, c, out, fails, bump, notes)
            continue
        if kind == "H":
            handler_oracle(cid, c, out, fails, bump)
            continue
        m = OUT_RE.match(out)
        if not m:
            fails.append(dict(name="bad-" + cid, cid=cid, what="codec failed outside decode: " + out[:200]))
            continue
        wf, kinds, _bytes, dec, err, cuts = m.groups()
        if kinds and kinds != "-":
            for k in kinds:
                bump("frame-" + {"0": "link-heartbeat", "1": "compact-AppEntries", "2": "full-MsgApp"}.get(k, k))
        if _bytes and "^1048" in _bytes:
            bump("stream-with-entry-or-message-around-1MiB")
        bump("%s/%s/%s" % (kind, codec, "wf" if wf == "1" else ("nonwf" if wf == "0" else "raw")))
        bump("err=" + err.split("(")[0])
        if "ALIASED" in dec:
            fails.append(dict(name="alias-" + cid, cid=cid, what="an already delivered message changed when the next one was decoded"))
        if err == "panic":
            fails.append(dict(name="panic-" + cid, cid=cid, signature=PANIC_SIG if codec == "v2" else None,
                              what="the decoder panics on this stream instead of returning an error"))
            continue
        if err.startswith("other") or err == "none":
            fails.append(dict(name="err-" + cid, cid=cid, what="unclassified decoder result: " + err))
        if kind == "S" and wf == "1":
            if dec != payload or err != "eof":
                fails.append(dict(name="roundtrip-" + cid, cid=cid,
                                  what="decode(encode(ms)) differs from ms (or does not end in a clean EOF: err=%s)" % err))
        nfull = count_msgs(dec)
        if cuts != "-":
            for ent in cuts.split(" "):
                rng, cnt, cerr, same = ent.split(":")
                bump("cut-" + cerr)
                okerr = cerr in ("eof", "ueof") or (int(cnt) == nfull and cerr == err)
                if same != "1" or int(cnt) > nfull or not okerr:
                    fails.append(dict(name="trunc-" + cid, cid=cid, signature=PANIC_SIG if (cerr == "panic" and codec == "v2") else None,
                                      what="truncation at %s decodes %s messages, err=%s, prefix-of-full=%s" % (rng, cnt, cerr, same)))
                    break
    oracle.notes = notes
    return fails, hist


def nontrivial(c):
    # a sequence with >= 2 messages, or a raw stream of >= 9 bytes
    if c[0] == "S":
        return count_msgs(c[4]) >= 2
    if c[0] in ("L", "T"):
        return len(split_items(c[4])) >= 2
    if c[0] == "H":
        return True
    return len(c[4]) > 18


def run_both(ctx, sub, args):
    d = os.path.join(ctx.run_dir, sub)
    shutil.rmtree(d, ignore_errors=True)
    os.makedirs(d)
    rc, out, dt = sh("%s %s -out %s" % (os.path.join(vlib.BIN, BIN), args, d), cwd=d, timeout=3000)
    if rc != 0:
        return None, "harness: " + out[-3000:], 0
    rc2, out2, dt2 = sh("ulimit -s unlimited; OCAMLRUNPARAM='s=32M,o=200' %s < cases.tsv > model.out" % vlib.modelrun_path(GROUP),
                        cwd=d, timeout=3000)
    if rc2 != 0:
        return None, "model: " + out2[-3000:], 0
    return d, "", dt + dt2


def run(ctx):
    quick = ctx.tier == "quick"
    ok, out, _ = vlib.go_build(BIN)
    if not ok:
        log("BUILD FAILED (harness %s):\n%s" % (BIN, out[-3000:]))
        raise SystemExit(2)
    vlib.regen_consts(GROUP, BIN)
    proofs_ok, info = ctx.check_proofs(make_targets=["Stream/Proofs.vo", "Properties/C16.vo"],
                                       gate_paths=["Stream", "Common", "Properties/C16"])
    mok, mout, _ = vlib.model_build(GROUP)
    if not mok:
        log("MODEL BUILD FAILED:\n" + mout[-3000:])
        raise SystemExit(2)

    runs = []
    if ctx.replay:
        rp = json.load(open(ctx.replay))
        lines = rp.get("case", {}).get("cases_tsv") or rp.get("cases_tsv") or []
        path = os.path.join(ctx.run_dir, "replay_cases.tsv")
        with open(path, "w") as f:
            for line in lines:
                f.write(line + "\n")
        runs.append(("replay", "-replay %s" % path))
    else:
        corpus = sorted(glob.glob(os.path.join(vlib.VERIF, "corpus", ctx.prop, "*.tsv")))
        if corpus:
            path = os.path.join(ctx.run_dir, "corpus_cases.tsv")
            with open(path, "w") as f:
                for cp in corpus:
                    for line in open(cp):
                        if line.strip() and not line.startswith("#"):
                            f.write(line if line.endswith("\n") else line + "\n")
            runs.append(("corpus", "-replay %s" % path))
        if quick:
            runs.append(("fresh", "-seed %d -n 120 -nraw 300 -nall 24 -nbig 1 -exh 3 -nlife 40 -nnet 12 -nhand 16 -exhq 3 -nslow 2" % ctx.seed))
        else:
            runs.append(("fresh", "-seed %d -n 1500 -nraw 6000 -nall 600 -nbig 6 -bigcuts full -exh 5 -nlife 600 -nnet 150 -nhand 300 -nburst 3 -exhq 4 -nslow 12" % ctx.seed))

    all_mism, all_fail, total, hist_all, samples, distinct = [], [], 0, {}, [], set()
    for sub, args in runs:
        d, err, _ = run_both(ctx, sub, args)
        if d is None:
            log("RUN FAILED (%s):\n%s" % (sub, err))
            raise SystemExit(2)
        mism, cnt = vlib.diff_outputs(os.path.join(d, "impl.out"), os.path.join(d, "model.out"))
        cases = parse_cases(os.path.join(d, "cases.tsv"))
        impl, _ = vlib.read_out(os.path.join(d, "impl.out"))
        fails, hist = oracle(cases, impl)
        ctx.notes.extend(getattr(oracle, "notes", [])[:5])
        for f in fails:
            cid = f.pop("cid")
            f["case"] = dict(cases_tsv=["\t".join([cid] + cases.get(cid, []))][:1], impl=(impl.get(cid) or "")[:2000])
        all_mism += [(m[0], (m[1] or "")[:1500], (m[2] or "")[:1500]) for m in mism]
        if mism:
            ctx.notes.append("first disagreeing case: " + "\t".join([mism[0][0]] + cases.get(mism[0][0], []))[:4000])
        all_fail += fails
        total += cnt
        for k, v in hist.items():
            hist_all[k] = hist_all.get(k, 0) + v
        for cid, c in cases.items():
            if nontrivial(c):
                distinct.add(vlib.case_hash("\t".join(c)))
        ids = [i for i in cases if len("\t".join(cases[i])) < 1500]
        for cid in ids[:2] + ids[-2:]:
            samples.append(dict(case=cases[cid], impl=impl.get(cid)))

    def search():
        # larger generation judged by the direct oracle only
        d2, err, _ = run_both(ctx, "search", "-seed %d -n 600 -nraw 3000 -nall 100 -nbig 2 -exh 4 -nlife 400 -nnet 60 -nhand 100 -exhq 4 -nslow 6" % (ctx.seed + 1000003))
        if d2 is None:
            return []
        cases = parse_cases(os.path.join(d2, "cases.tsv"))
        impl, _ = vlib.read_out(os.path.join(d2, "impl.out"))
        fails, _ = oracle(cases, impl)
        for f in fails:
            cid = f.pop("cid")
            f["case"] = dict(cases_tsv=["\t".join([cid] + cases.get(cid, []))], impl=(impl.get(cid) or "")[:2000])
        return fails

    vlib.standard_verdict(ctx, proofs_ok, all_mism, all_fail, search_fn=search,
                          corr_name="Stream/Model.v + Stream/Proto.v vs rafthttp msgAppV2Encoder/Decoder, messageEncoder/Decoder, raftpb marshalling")
    ctx.finish(dict(
        traces_validated_against_impl=total,
        evaluations=total + sum(v for k, v in hist_all.items() if k.startswith("cut-")),
        distinct_nontrivial=len(distinct),
        rule="cases from one seeded PRNG plus an exhaustive small scope (every msgappv2 sequence of length <= 3 quick / 5 thorough over a 9-letter alphabet built to separate the conjuncts of isContinue on two groups). S = message sequence -> real encoder -> bytes -> real decoder (compared byte for byte and "
             "message for message with the model; decoded again at every listed truncation point): msgappv2 streams of 1-4 raft groups "
             "interleaved (replicate / probe / term change / link heartbeat), the same with messages the stream never carries in "
             "production (correspondence only), all message types with arbitrary field values on the plain codec, entries and messages of "
             "protobuf size 2^20-1, 2^20, 2^20+1. R = raw byte stream -> real decoder: mutated valid streams, hand-made protobuf with "
             "unknown / repeated / mistyped / packed fields, groups, non-canonical varints, odd length prefixes. evaluations counts every "
             "decode run (whole streams + truncations). Non-trivial = a sequence of >= 2 messages or a raw stream of >= 9 bytes; distinct "
             "by hash of the case.",
        histogram=hist_all,
        mismatches=len(all_mism),
        samples=samples[:6],
    ), assumptions=[
        "64-bit platform: Go int is 64 bits, runtime.maxAlloc = 2^48 (linux/amd64)",
        "the stream is an in-memory reader: io.ReadFull returns io.EOF on an empty rest and io.ErrUnexpectedEOF on a short one",
        "ConfState.Groups / LearnerGroups contain no nil pointers (Unmarshal never produces one)",
    ])
