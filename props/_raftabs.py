"""Acceptor of the abstract raft protocol (coq/RaftAbs) — shared by the checks of C01, C02, C03.

run_acceptor(ctx, tier) generates raftdrv traces of the REAL raft code of the repository working
tree (harness/cmd/raftabs: field renaming of the recorded global states only), replays them through
the extracted checker (coq/RaftAbs/extract/modelrun = Acceptor.apply_label / match_node + driver.ml)
and returns (n_traces, n_abstract_steps, rejected).  An accepted trace is, by
AcceptorSound.run_sound, a trace of the abstract protocol of RaftAbs/Model.v, so every state the
real cluster was observed in (at the synchronisation points: whenever the messages of a Ready have
left a node, after every restart, at the end of the trace) is the projection of a reachable
abstract state and the safety theorems of RaftAbs/Safety.v / Fixed.v apply to it.
`rejected` lists dict(trace, seq, event, why): either the abstract protocol is too strict for
something legitimate the fork does, or the implementation did something the protocol forbids.
The details of the last run (label histogram, event kinds, skipped classes) are in LAST.
"""
import json
import os
import re

import vlib
from vlib import sh, log

GROUP = "RaftAbs"
LAST = {}
ORACLE = {}     # raftsim-style summary of the direct oracles (raftdrv.Oracle) on the directed scenarios of the last run

SIZES = {
    # schedules per seed block, events per schedule, seed blocks
    # cp: base schedules whose every step/ready event is followed by a crash + restart of that node
    "quick": dict(n=24, events=700, blocks=2, cp=1, cp_events=120),
    "thorough": dict(n=40, events=2500, blocks=12, cp=8, cp_events=400),
}


def build(ctx=None):
    ok, out, dt = vlib.go_build("raftabs")
    if not ok:
        raise RuntimeError("raftabs harness build failed:\n" + out[-3000:])
    ok, out, _ = vlib.coq_make(["RaftAbs/Acceptor.vo"])      # the extraction needs Model.vo / Acceptor.vo (no proofs)
    if not ok:
        raise RuntimeError("RaftAbs/Acceptor.vo does not build:\n" + vlib.tail_err(out))
    ok, out, dt2 = vlib.model_build(GROUP)
    if not ok:
        raise RuntimeError("RaftAbs model build failed:\n" + out[-3000:])
    return dt + dt2


def parse_summary(line):
    d = {}
    for f in line.rstrip("\n").split("\t")[1:]:
        if "=" in f and ":" not in f.split("=")[0]:
            k, v = f.split("=", 1)
            d[k] = int(v) if v.isdigit() else v
        elif ":" in f:
            k, v = f.split(":", 1)
            h = {}
            for kv in v.split(","):
                if "=" in kv:
                    a, b = kv.rsplit("=", 1)
                    h[a] = int(b)
            d[k] = h
    return d


def private_modelrun(ctx):
    """Other checks (C01, C02, C03 in parallel) rebuild coq/RaftAbs/extract/modelrun too: run a private copy."""
    import shutil
    import time
    dst = os.path.join(ctx.run_dir, "raftabs", "modelrun-%d" % os.getpid())
    os.makedirs(os.path.dirname(dst), exist_ok=True)
    last = ""
    for attempt in range(4):
        try:
            with vlib.CoqLock():
                shutil.copy2(vlib.modelrun_path(GROUP), dst)
            rc, out, _ = sh("%s < /dev/null" % dst, timeout=60)
            if rc == 0 and "SUMMARY" in out:
                return dst
            last = out[-300:]
        except OSError as ex:
            last = str(ex)
        time.sleep(1 + attempt)
        build(ctx)
    raise RuntimeError("cannot obtain a runnable RaftAbs modelrun: " + last)


def private_harness(ctx):
    """Same for the Go binary (.build/bin/raftabs is rebuilt by every check that uses the acceptor)."""
    import shutil
    import time
    dst = os.path.join(ctx.run_dir, "raftabs", "raftabs-%d" % os.getpid())
    last = ""
    for attempt in range(4):
        try:
            shutil.copy2(os.path.join(vlib.BIN, "raftabs"), dst)
            rc, out, _ = sh("%s -n 0 -out %s" % (dst, dst + ".probe"), timeout=60)
            if rc == 0 and "raftabs traces=0" in out:
                try:
                    os.remove(dst + ".probe")
                except OSError:
                    pass
                return dst
            last = out[-300:]
        except OSError as ex:
            last = str(ex)
        time.sleep(1 + attempt)
        vlib.go_build("raftabs")
    raise RuntimeError("cannot obtain a runnable raftabs harness binary: " + last)


def run_traces(path, timeout=1200, exe=None):
    """Run the extracted acceptor on a flattened trace file; returns (summary dict, rejected, skipped)."""
    rc, out, dt = sh("%s < %s" % (exe or vlib.modelrun_path(GROUP), path), timeout=timeout)
    summary, rejected, skipped, ok = {}, [], [], 0
    for line in out.split("\n"):
        f = line.split("\t")
        if f[0] == "SUMMARY":
            summary = parse_summary(line)
        elif len(f) >= 2 and f[1] == "OK":
            ok += 1
        elif len(f) >= 5 and f[1] == "REJECT":
            rejected.append(dict(trace=f[0], seq=int(f[2]) if re.match(r"-?\d+$", f[2]) else -1, event=f[3], why=f[4]))
        elif len(f) >= 5 and f[1] == "SKIP":
            skipped.append(dict(trace=f[0], seq=int(f[2]), event=f[3], why=f[4]))
    if rc != 0 or not summary:
        # not a verdict about the implementation: the harness itself failed
        raise RuntimeError("RaftAbs acceptor driver failed (rc=%s): %s" % (rc, out[-800:]))
    summary["accepted_traces"] = ok
    summary["wall_s"] = round(dt, 2)
    return summary, rejected, skipped


def scenario_failures(prop, limit=20):
    """Concrete failing inputs of property `prop` found by the direct oracles of raftdrv on the directed
    scenarios of the last run_acceptor call, in the format of props/_raft.py collect_failures: each has a
    replayable scenario (raftsim -mode replay) and the oracle's violations."""
    fails = []
    for s in ORACLE.get("schedules", []):
        mine = [v for v in s.get("violations", []) if v["prop"] == prop]
        if not mine:
            continue
        scen = json.load(open(s["scenario"])) if s.get("scenario") and os.path.exists(s["scenario"]) else None
        v = mine[0]
        fails.append(dict(name="%s-scenario-%s" % (v["rule"], s.get("name", s["sched"])),
                          case=dict(scenario=scen, violations=mine, sched=s["sched"], seed=0, storage=ORACLE.get("storage"),
                                    profile=s.get("profile"), order=ORACLE.get("order")),
                          what="%s: %s" % (v["rule"], v["what"]),
                          signature=("%s [%s]" % (prop, v["class"])) if v.get("class") else "%s %s" % (prop, v["rule"])))
        if len(fails) >= limit:
            break
    return fails


def run_acceptor(ctx, tier=None, storage="mem", profile=""):
    tier = tier or getattr(ctx, "tier", "quick")
    sz = SIZES.get(tier, SIZES["quick"])
    build(ctx)
    d = os.path.join(ctx.run_dir, "raftabs")
    os.makedirs(d, exist_ok=True)
    exe = private_modelrun(ctx)
    gobin = private_harness(ctx)
    n_traces = n_steps = 0
    rejected, skipped = [], []
    tot = {}
    gen_s = 0.0
    pid = os.getpid()
    jobs = [("-seed %d -n %d -events %d" % (ctx.seed * 1000 + b, sz["n"], sz["events"]), "traces-%d-%d.txt" % (pid, b))
            for b in range(sz["blocks"])]
    # the directed schedules of harness/cmd/raftabs/scenarios.go (always, cheap and deterministic)
    orc_dir = os.path.join(d, "oracle-%d" % pid)
    jobs.insert(0, ("-scenario all -oracle-out %s" % orc_dir, "scenarios-%d.txt" % pid))
    ORACLE.clear()
    if sz.get("cp"):
        jobs.append(("-crashpoints -seed %d -n %d -events %d" % (ctx.seed * 1000 + 999, sz["cp"], sz["cp_events"]), "crashpoints-%d.txt" % pid))
    for args, fn in jobs:
        seed = args
        path = os.path.join(d, fn)
        rc, out, dt = sh("%s %s -storage %s %s -out %s" % (
            gobin, args, storage,
            ("-profile " + profile) if profile else "", path), timeout=1800)
        gen_s += dt
        if rc != 0:
            raise RuntimeError("raftabs trace generation failed (%s): %s" % (args, out[-800:]))
        if args.startswith("-scenario"):
            sp = os.path.join(orc_dir, "summary.json")
            if os.path.exists(sp):
                ORACLE.update(json.load(open(sp)))
        for line in out.split("\n"):
            if line.startswith("SCENARIO-PROBLEM"):
                rejected.append(dict(trace="scenario", seq=-1, event="scenario",
                                     why="directed scenario did not run as on the unchanged code: " + line[len("SCENARIO-PROBLEM "):]))
        summary, rej, skp = run_traces(path, exe=exe)
        n_traces += summary.get("traces", 0)
        n_steps += summary.get("abstract_steps", 0)
        rejected += rej
        skipped += skp
        for k, v in summary.items():
            if isinstance(v, int):
                tot[k] = tot.get(k, 0) + v
            elif isinstance(v, dict):
                h = tot.setdefault(k, {})
                for a, c in v.items():
                    h[a] = h.get(a, 0) + c
        if not rej:
            os.remove(path)
    for f in (exe, gobin):
        try:
            os.remove(f)
        except OSError:
            pass
    tot["generate_s"] = round(gen_s, 2)
    tot["skipped_events"] = tot.get("unchecked_events", 0)
    tot["skipped_list"] = skipped[:20]
    LAST.clear()
    LAST.update(tot)
    return n_traces, n_steps, rejected


if __name__ == "__main__":
    import sys

    class _Ctx:
        def __init__(self, seed, tier):
            self.seed, self.tier = seed, tier
            self.run_dir = os.path.join(vlib.BUILD, "run", "RaftAbs")
            os.makedirs(self.run_dir, exist_ok=True)

    seed = int(os.environ.get("VERIF_SEED", "1"))
    tier = sys.argv[1] if len(sys.argv) > 1 else "quick"
    n, steps, rej = run_acceptor(_Ctx(seed, tier), tier)
    log("raftabs acceptor: traces=%d abstract_steps=%d rejected=%d skipped_events=%d" % (n, steps, len(rej), LAST.get("skipped_events", 0)))
    log("labels: %s" % LAST.get("labels"))
    log("skipped classes: %s" % LAST.get("skipped"))
    for r in rej[:10]:
        log("REJECT %s" % r)
    sys.exit(1 if rej else 0)
