"""C17 — placement puts each partition's replicas on distinct, spread-out nodes."""
import json
import os
import re
import shutil

import vlib
from vlib import sh, log

def v2_string():
    """the balance-version string that selects the incremental algorithm, from the generated Consts.v"""
    try:
        src = open(os.path.join(vlib.COQ, "Place", "Consts.v")).read()
        m = re.search(r"balance_v2_str : list N := \[([0-9; ]*)\]", src)
        return "x" + bytes(int(x) for x in m.group(1).split(";") if x.strip()).hex()
    except Exception:
        return "x" + b"v2".hex()



# ---------- case decoding (format documented in harness/cmd/place/main.go) ----------
def dec_list(s):
    return [] if s == "" else s.split(",")


def dec_lists(s):
    if s == "":
        return []
    return [dec_list(x) for x in s.split(";")[:-1]]


def dec_nodes(s):
    out = []
    if s == "":
        return out
    for it in s.split(","):
        name, tag = it.split(":")
        dc = tag[1:] if tag[0] == "s" else ""
        out.append((name, dc))
    return out


def parse_cases(path):
    cases = {}
    for line in open(path):
        p = line.rstrip("\n").split("\t")
        cases[p[0]] = p[1:]
    return cases


def is_even_topology(nodes, r):
    """nodes evenly spread over at least r data centres"""
    dcs = {}
    for n, dc in nodes:
        dcs[dc] = dcs.get(dc, 0) + 1
    return len(dcs) >= r and len(set(dcs.values())) == 1


def old_in_scope(old, p, r):
    """previous layouts the property quantifies over: at most p lists, each duplicate-free (any length: ISR lists
    are longer than r while a node is being moved or after the replica count was lowered)"""
    if len(old) > p:
        return False
    for l in old:
        if len(set(l)) != len(l):
            return False
    return True


def oracle(cases, impl):
    """The property itself evaluated on the implementation's outputs (no model involved)."""
    fails = []
    hist = {}
    V2 = v2_string()

    def bump(k):
        hist[k] = hist.get(k, 0) + 1

    def fail(cid, c, name, what, signature=None):
        f = dict(name=name + "-" + cid, case=dict(cases_tsv=["\t".join([cid] + c)], impl=impl.get(cid)), what=what)
        if signature:
            f["signature"] = signature
        fails.append(f)

    for cid, c in cases.items():
        out = impl.get(cid)
        kind = c[0]
        if out is None:
            fail(cid, c, "missing", "no implementation output")
            continue
        if out.startswith("nondet"):
            fail(cid, c, "nondet", "three evaluations of the same input gave different results (map-order dependence)")
            continue
        if kind == "N":
            bump("N")
            nodes = dec_nodes(c[1])
            if out.startswith("ok "):
                got = dec_lists(out[3:])
                flat = [x for l in got for x in l]
                if sorted(flat) != sorted(n for n, _ in nodes) or any(l != sorted(l, key=lambda s: bytes.fromhex(s[1:])) for l in got):
                    fail(cid, c, "namelist", "getNodeNameList lost/duplicated a node or a DC list is not sorted")
            else:
                fail(cid, c, "namelist", "getNodeNameList did not return: " + out)
            continue
        if kind in ("A", "U"):
            # consumers of the layout: allocNodeForNamespace / decideUnwantedRaftNode on a real PDCoordinator
            ver, ns, p, r = c[1], c[2], int(c[3]), int(c[4])
            nodes = dec_nodes(c[5])
            names = [n for n, _ in nodes]
            isrs = dec_lists(c[6])
            part = int(c[7])
            isr = isrs[part] if part < len(isrs) else []
            ok_scope = r >= 1 and p >= 1 and names and "x" not in names and len(set(names)) == len(names) and \
                part < p and (ver != V2 or old_in_scope(isrs, p, r))
            bump("%s %s" % (kind, "in-scope" if ok_scope else "out-of-scope"))
            if not ok_scope:
                continue
            if out == "panic" or out == "error":
                fail(cid, c, "consumer-panic", "%s on a well-formed register state answered %s" % (
                    "allocNodeForNamespace" if kind == "A" else "decideUnwantedRaftNode", out),
                    signature="fillPartitionMapV2 old list longer than replica: nil type assertion in getMinMaxLoadFor*")
                continue
            if kind == "A":
                if out.startswith("ok "):
                    x = out[3:]
                    if x not in names or x in isr:
                        fail(cid, c, "alloc", "allocated node %s is not a live node outside the partition's raft nodes %s" % (x, isr))
                elif out == "refuse":
                    # fewer nodes than replicas, or every wanted member is already a raft node
                    pass
            else:
                x = out[3:] if out.startswith("ok ") else None
                if x is None or (x != "x" and x not in isr):
                    fail(cid, c, "unwanted", "unwanted node %s is not an ISR member of the partition %s" % (x, isr))
                elif x == "x" and len(names) >= r and len(isr) > r and len(set(isr)) == len(isr):
                    fail(cid, c, "unwanted", "ISR %s is longer than replica %d but no member is unwanted" % (isr, r))
            continue
        if kind not in ("L", "R"):
            bump(kind)
            continue
        ver, ns, p, r = c[1], c[2], int(c[3]), int(c[4])
        algo = "v2" if ver == V2 else "v1"
        if kind == "L":
            nodes = dec_nodes(c[5])
        else:
            nodes = [(n, str(i)) for i, l in enumerate(dec_lists(c[5])) for n in l]
        names = [n for n, _ in nodes]
        old = dec_lists(c[6])
        dcof = dict(nodes)
        in_scope = r >= 1 and p >= 1 and "x" not in names and len(set(names)) == len(names) and \
            (algo == "v1" or old_in_scope(old, p, r))
        fresh = (algo == "v1" or len(old) == 0)
        bump("%s %s %s %s" % (kind, algo, "fresh" if fresh else "old", "in-scope" if in_scope else "out-of-scope"))
        if not in_scope:
            continue
        # refusal iff fewer nodes than replicas
        if len(names) < r:
            if out != "refuse":
                fail(cid, c, "norefuse", "fewer nodes than replicas but the driver did not refuse: " + out[:60])
            continue
        if not out.startswith("ok "):
            sig = None
            if out == "panic" and algo == "v2" and any(len(l) > r for l in old):
                sig = "fillPartitionMapV2 old list longer than replica: nil type assertion in getMinMaxLoadFor*"
            fail(cid, c, "refused" if out == "refuse" else "panic",
                 "enough nodes (%d >= %d) but the driver answered %s" % (len(names), r, out[:40]), signature=sig)
            continue
        lay = dec_lists(out[3:])
        if len(lay) != p:
            fail(cid, c, "pcount", "layout has %d partitions, wanted %d" % (len(lay), p))
            continue
        bad = False
        for pid, l in enumerate(lay):
            if len(l) != r or len(set(l)) != r or any(x not in dcof for x in l):
                fail(cid, c, "replicas", "partition %d does not have exactly %d distinct live replicas: %s" % (pid, r, l))
                bad = True
                break
        if bad:
            continue
        if fresh and is_even_topology(nodes, r):
            bump("%s even-topology DC-spread checked" % algo)
            for pid, l in enumerate(lay):
                if len(set(dcof[x] for x in l)) != r:
                    fail(cid, c, "dcspread-" + algo,
                         "%s fresh layout on an even topology over >= r data centres: partition %d has two replicas in one DC: %s"
                         % (algo, pid, [(x, dcof[x]) for x in l]),
                         signature="fillPartitionMapV2 fresh layout: two replicas of one partition in the same data centre" if algo == "v2" else None)
                    break
            if algo == "v1" and p % len(names) == 0:
                bump("v1 leader-balance checked")
                cnt = {}
                for l in lay:
                    cnt[l[0]] = cnt.get(l[0], 0) + 1
                if any(cnt.get(n, 0) != p // len(names) for n in names):
                    fail(cid, c, "leaderbalance", "v1: node count divides partition count but leaders are not equally spread")
        elif algo == "v1" and p % len(names) == 0:
            bump("v1 leader-balance checked")
            cnt = {}
            for l in lay:
                cnt[l[0]] = cnt.get(l[0], 0) + 1
            if any(cnt.get(n, 0) != p // len(names) for n in names):
                fail(cid, c, "leaderbalance", "v1: node count divides partition count but leaders are not equally spread")
    return fails, hist


SWEEPS = []     # modules passed to coqchk as -admit (none: the checker re-evaluates the sweeps, ~5 min)


def own_coqchk():
    import re
    cmd = "coqchk -silent -o -Q . ZV %s ZV.Properties.C17" % " ".join("-admit " + m for m in SWEEPS)
    rc, out, dt = sh(cmd, cwd=vlib.COQ, timeout=1500)
    i = out.find("CONTEXT SUMMARY")
    summ = out[i:] if i >= 0 else out[-1500:]
    ax = []
    m = re.search(r"\* Axioms:(.*?)\n\s*\n\* Constants", summ, re.S)
    if m and m.group(1).strip() != "<none>":
        ax = [l.strip() for l in m.group(1).strip().split("\n") if l.strip()]
    # Coq.ssr.ssrunder.Under_rel.* are fields of a module type of the standard library loaded with ssreflect,
    # not assumptions of this development (Print Assumptions reports every theorem closed)
    bad = [a for a in ax if not a.startswith("Coq.ssr.ssrunder.Under_rel.")
           and a.split(".")[-1] not in vlib.STDLIB_AXIOMS and a not in vlib.STDLIB_AXIOMS]
    clean = all(("%s: <none>" % k) in summ for k in (
        "relying on type-in-type", "relying on unsafe (co)fixpoints", "whose positivity is assumed"))
    return dict(ok=(rc == 0 and clean and not bad), axioms=ax, summary=summ[-1200:], wall_s=round(dt, 1), admitted=SWEEPS)


def nontrivial(c):
    """a layout case with at least 2 nodes, 2 partitions and 2 replicas (or any M / N / R case)"""
    if c[0] == "L":
        return int(c[3]) >= 2 and int(c[4]) >= 2 and c[5].count(",") >= 1
    return True


def run_pair(ctx, sub, args):
    d = os.path.join(ctx.run_dir, sub)
    shutil.rmtree(d, ignore_errors=True)
    os.makedirs(d)
    rc, out, dt = sh("%s %s -out %s" % (os.path.join(vlib.BIN, "place"), args, d), cwd=d, timeout=3000)
    if rc != 0:
        return None, out
    rc2, out2, dt2 = sh("%s < cases.tsv > model.out" % vlib.modelrun_path("Place"), cwd=d, timeout=3000)
    if rc2 != 0:
        return None, out2
    return d, ""


def run(ctx):
    quick = ctx.tier == "quick"
    ok, out, _ = vlib.go_build("place")
    if not ok:
        log("BUILD FAILED (harness place):\n" + out[-3000:])
        raise SystemExit(2)
    vlib.regen_consts("Place", "place")
    # vlib's thorough-tier coqchk holds the build lock; re-evaluating the vm_compute sweeps (Place/Sweep*.v)
    # with the checker's plain reduction machine takes ~5 min, so C17 runs the same coqchk command itself,
    # outside the lock (it only reads .vo files). Nothing is admitted.
    old_env = os.environ.get("VERIF_NO_COQCHK")
    os.environ["VERIF_NO_COQCHK"] = "1"
    proofs_ok, info = ctx.check_proofs(make_targets=["Place/Proofs.vo", "Place/ProofsV2.vo", "Place/ProofsV2Fresh.vo", "Place/ProofsOrder.vo", "Place/ProofsConsumers.vo", "Place/ProofsKeep.vo", "Place/ProofsFreshGen.vo", "Properties/C17.vo"],
                                       gate_paths=["Place", "Part/Model", "Common", "Properties/C17"])
    if old_env is None:
        del os.environ["VERIF_NO_COQCHK"]
    else:
        os.environ["VERIF_NO_COQCHK"] = old_env
    if proofs_ok and ctx.tier == "thorough" and old_env is None:
        ck = own_coqchk()
        info["coqchk"] = ck
        ctx.notes.append("coqchk re-checked ZV.Properties.C17 and all its dependencies, the vm_compute sweeps included (%.0f s)" % ck["wall_s"])
        if not ck["ok"]:
            info["ok"] = False
            info["error"] = "coqchk: " + ck["summary"]
            proofs_ok = False
    mok, mout, _ = vlib.model_build("Place")
    if not mok:
        log("MODEL BUILD FAILED:\n" + mout[-3000:])
        raise SystemExit(2)

    runs = []
    if ctx.replay:
        rp = json.load(open(ctx.replay))
        rc_path = os.path.join(ctx.run_dir, "replay_cases.tsv")
        with open(rc_path, "w") as f:
            for line in (rp.get("case") or {}).get("cases_tsv", []) or rp.get("cases_tsv", []):
                f.write(line + "\n")
        runs.append(("replay", "-replay %s" % rc_path))
    else:
        corpus = sorted(p for p in os.listdir(os.path.join(vlib.VERIF, "corpus", "C17"))
                        if p.endswith(".tsv")) if os.path.isdir(os.path.join(vlib.VERIF, "corpus", "C17")) else []
        if corpus:
            cc = os.path.join(ctx.run_dir, "corpus_cases.tsv")
            with open(cc, "w") as f:
                k = 0
                for p in corpus:
                    for line in open(os.path.join(vlib.VERIF, "corpus", "C17", p)):
                        line = line.rstrip("\n")
                        if line and not line.startswith("#"):
                            k += 1
                            f.write("c%d\t%s\n" % (k, line.split("\t", 1)[1]))
            runs.append(("corpus", "-replay %s" % cc))
        runs.append(("fresh", "-seed %d -tier %s" % (ctx.seed, ctx.tier)))

    all_mism, all_fail, total, hist_all, samples, distinct = [], [], 0, {}, [], set()
    for sub, args in runs:
        d, err = run_pair(ctx, sub, args)
        if d is None:
            log("HARNESS/MODEL RUN FAILED:\n" + err[-3000:])
            raise SystemExit(2)
        mism, cnt = vlib.diff_outputs(os.path.join(d, "impl.out"), os.path.join(d, "model.out"))
        cases = parse_cases(os.path.join(d, "cases.tsv"))
        impl, _ = vlib.read_out(os.path.join(d, "impl.out"))
        fails, hist = oracle(cases, impl)
        all_mism += mism
        all_fail += fails
        total += cnt
        for k, v in hist.items():
            hist_all[k] = hist_all.get(k, 0) + v
        for cid, c in cases.items():
            if nontrivial(c):
                distinct.add(vlib.case_hash("\t".join(c)))
            o = impl.get(cid, "")
            key = "impl " + o.split(" ")[0]
            if c[0] == "M" and o.startswith("ok "):
                key = "impl M step " + ("balanced" if o.startswith("ok 1") else "moved-or-stuck")
            hist_all[key] = hist_all.get(key, 0) + 1
        ids = list(cases.keys())
        pick = ids[:1] + ids[len(ids) // 2: len(ids) // 2 + 2] + ids[-1:]
        for cid in pick:
            samples.append(dict(case=cases[cid], impl=impl.get(cid)))
        if ctx.replay:
            for cid in ids:
                log("replay %s: impl=%s" % (cid, impl.get(cid)))
            for m in mism:
                log("replay mismatch %s: impl=%s model=%s" % m)

    def search():
        d2, err = run_pair(ctx, "search", "-seed %d -tier search" % (ctx.seed + 1000003))
        if d2 is None:
            return []
        cases = parse_cases(os.path.join(d2, "cases.tsv"))
        impl, _ = vlib.read_out(os.path.join(d2, "impl.out"))
        fails, _ = oracle(cases, impl)
        fails.sort(key=lambda f: len(f["case"]["cases_tsv"][0]))
        return fails

    all_fail.sort(key=lambda f: len(f["case"]["cases_tsv"][0]))   # smallest failing input first
    vlib.standard_verdict(ctx, proofs_ok, all_mism, all_fail, search_fn=search,
                          corr_name="Place/Model.v vs cluster/pdnode_coord place_driver.go "
                                    "(getRebalancedNamespacePartitions, getRebalancedPartitionsFromNameList, getNodeNameList, moveIfUnbalanced)")
    ctx.finish(dict(
        traces_validated_against_impl=total,
        evaluations=3 * total,
        distinct_nontrivial=len(distinct),
        rule="cases from one seeded PRNG: L = (algorithm string, namespace, p, r, node->DC-tag map, previous layout) through "
             "getRebalancedNamespacePartitions: exhaustive 1..8 (thorough 1..12) nodes x 1..4 DCs (even and one uneven split) x p 1..16 x r 1..5 x both algorithms, "
             "random fresh layouts up to 24 (thorough 40) nodes / p 32 (64), V2 chains (fresh -> lose/add nodes -> rebalance on the previous result, 8-12 steps, "
             "occasional change of r / p), V2 on arbitrary previous layouts incl. malformed ones (panic paths), degenerate inputs; "
             "N = getNodeNameList; R = the name-list entry point with unsorted/empty DC lists; M = single moveIfUnbalanced steps from explicit states; "
             "A / U = allocNodeForNamespace / decideUnwantedRaftNode of a real PDCoordinator over a stub register holding the ISR lists of all partitions "
             "(derived from chain layouts: members lost, extra members added). "
             "Every Go evaluation is done 3 times on freshly built maps and must agree. "
             "Non-trivial = layout case with >= 2 nodes, partitions and replicas, or any N/R/M case; distinct by hash of the case.",
        histogram=hist_all,
        mismatches=len(all_mism),
        samples=samples[:6],
    ), assumptions=[
        "int is 64 bits (int(uint32) + small offsets never overflows)",
        "node ids are unique (they are keys of a Go map) and, for the theorems, non-empty",
        "the direct oracle judges V2 only on previous layouts with <= p lists, each duplicate-free (any length); "
        "other previous layouts (duplicates inside a list, more lists than partitions) are compared model-vs-code only",
    ])
