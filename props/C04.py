"""C04 — acknowledged writes are totally ordered and never lost in a cluster.

Proof part: coq/Properties/C04.v (verified linearizability checker: both verdicts are theorems;
the request-path protocol model is linearizable with the log order as witness).
Runtime part: a real 3-replica namespace under concurrent clients and a nemesis; every recorded
per-key history (plus the final read of every replica) is judged by the EXTRACTED VERIFIED checker.
"""
import glob
import json
import os
import shutil

import vlib
from vlib import sh, log

GROUP = "Lin"
CMD = "cluster"
READS = ("get", "hget", "llen", "ldump", "scard", "sdump")


# ---------------------------------------------------------------- histories
def parse_hist(path):
    """hist.tsv -> ordered dict id -> list of op lines (without the E line)."""
    hs, order = {}, []
    if not os.path.exists(path):
        return hs, order
    for line in open(path):
        line = line.rstrip("\n")
        p = line.split("\t")
        if len(p) < 2:
            continue
        if p[1] == "O":
            if p[0] not in hs:
                hs[p[0]] = []
                order.append(p[0])
            hs[p[0]].append(p[2:])
        elif p[1] == "E" and p[0] not in hs:
            hs[p[0]] = []
            order.append(p[0])
    return hs, order


def hist_block(hid, ops):
    return ["\t".join([hid, "O"] + list(o)) for o in ops] + [hid + "\tE"]


def run_checker(ctx, blocks, tag, timeout=300):
    """blocks: list of (id, ops). Returns dict id -> verdict word ('lin'|'nonlin'|'outoffuel'|'undecided')."""
    d = ctx.run_dir
    inp = os.path.join(d, "chk-%s.tsv" % tag)
    with open(inp, "w") as f:
        for hid, ops in blocks:
            f.write("\n".join(hist_block(hid, ops)) + "\n")
    rc, out, dt = sh("%s < %s" % (vlib.modelrun_path(GROUP), inp), cwd=d, timeout=timeout)
    res = {}
    for line in out.split("\n"):
        p = line.split("\t")
        if len(p) == 2:
            res[p[0]] = p[1]
    if rc != 0 and len(blocks) > 1:
        # a single history exhausted the time budget (exponential search on an unlucky history):
        # decide the others one by one
        for hid, ops in blocks:
            if hid not in res:
                r1 = run_checker(ctx, [(hid, ops)], tag + "-1", timeout=60)
                res[hid] = r1.get(hid, "undecided")
    elif rc != 0:
        res[blocks[0][0]] = "undecided"
    return res


STALE_READ_SIG = ("plain read (get/hget/llen/scard/...) answered from the local store of the replica that believes it leads, "
                  "no ReadIndex: misses a write acknowledged through another replica; history linearizable without plain reads")
# (the signature text is kept for the known-findings match; the test behind it is now the stronger "linearizable
#  once plain reads may take effect early", theorem C04_protocol_linearizable_relaxed)
NOOP_REPLIES = {("lpop", "n"), ("setnx", "i0"), ("sadd", "i0"), ("srem", "i0"), ("del", "i0"), ("setox", "n"), ("setxx", "n")}


def state_preserving(o):
    """a completed operation whose reply implies that it did not change the state"""
    name = o[2].split(":")[0]
    return o[1] != "-" and (name in READS or (name, o[3]) in NOOP_REPLIES)


def prefix(ops, n):
    """Lin/Shrink.v `cut T` with T = invocation time of operation n (operations sorted by invocation time):
    the operations invoked before T; those not answered before T become unknown-outcome, and unknown reads
    are dropped. Theorems C04_shrink_prefix / C04_shrink_drop: linearizability is preserved."""
    if n >= len(ops):
        return [list(o) for o in ops]
    cut = int(ops[n][0])
    out = []
    for o in ops:
        if int(o[0]) >= cut:
            continue
        o = list(o)
        if o[1] != "-" and int(o[1]) >= cut:
            o[1], o[3] = "-", "-"
        if o[1] == "-" and o[2].split(":")[0] in READS:
            continue
        out.append(o)
    return out


def minimise(ctx, hid, ops):
    """Shrinks a non-linearizable history by steps proved to preserve linearizability (Lin/ShrinkProofs.v:
    shrink_prefix, shrink_drop_noop, shrink_drop_unknown_read), so the result is non-linearizable only if the
    recorded history is: shortest event prefix that is still rejected, then removal of completed operations
    whose reply implies no state change."""
    ops = sorted([list(o) for o in ops], key=lambda o: int(o[0]))
    lo, hi = 1, len(ops)          # smallest n such that prefix(n) is nonlin (monotone)
    while lo < hi:
        mid = (lo + hi) // 2
        r = run_checker(ctx, [("p", prefix(ops, mid))], "min", timeout=120)
        if r.get("p", "").startswith("nonlin"):
            hi = mid
        else:
            lo = mid + 1
    cur = prefix(ops, lo)
    if not run_checker(ctx, [("p", cur)], "min", timeout=120).get("p", "").startswith("nonlin"):
        return [list(o) for o in ops]
    i = 0
    while i < len(cur) and len(cur) <= 80:      # long histories keep their prefix form
        if state_preserving(cur[i]):
            cand = cur[:i] + cur[i + 1:]
            r = run_checker(ctx, [("d", cand)], "min", timeout=120)
            if r.get("d", "").startswith("nonlin"):
                cur = cand
                continue
        i += 1
    return cur


def mutate_selftest(ctx, hs, order, rng_seed):
    """Sensitivity of the checker on this run's data (evidence only): corrupt one acknowledged reply per
    history and count how many corruptions are detected."""
    import random
    rnd = random.Random(rng_seed)
    blocks = []
    for hid in order[:60]:
        ops = [list(o) for o in hs[hid]]
        idx = [i for i, o in enumerate(ops) if o[1] != "-" and o[3][0] in "ib" and o[3][1:].lstrip("-").isdigit()]
        if not idx:
            continue
        i = rnd.choice(idx)
        o = ops[i]
        o[3] = o[3][0] + str(int(o[3][1:]) + 7777)
        blocks.append(("x" + hid, ops))
    if not blocks:
        return 0, 0
    res = run_checker(ctx, blocks, "mut", timeout=120)
    det = sum(1 for b in blocks if res.get(b[0], "").startswith("nonlin"))
    return det, len(blocks)


# ---------------------------------------------------------------- corpus
def run_corpus(ctx):
    """corpus/C04/*.hist: first line '# expect lin|nonlin', then hist lines. The extracted checker must
    give the expected verdict (regression of the checker itself and of past findings)."""
    mism, n = [], 0
    for p in sorted(glob.glob(os.path.join(vlib.VERIF, "corpus", "C04", "*.hist"))):
        lines = [l.rstrip("\n") for l in open(p)]
        expect = lines[0].split()[-1]
        hs, order = parse_hist(p)
        res = run_checker(ctx, [(h, hs[h]) for h in order], "corpus")
        for h in order:
            n += 1
            got = res.get(h, "missing").split(" ")[0]
            if got != expect:
                mism.append(("corpus/" + os.path.basename(p) + ":" + h, expect, got))
    return mism, n


# ---------------------------------------------------------------- one harness run
def port_base():
    return 30000 + (os.getpid() % 120) * 16


def run_cluster(ctx, sub, seed, mode, engine, dur, clients, nseq, replay_cases=None, extra=""):
    d = os.path.join(ctx.run_dir, sub)
    shutil.rmtree(d, ignore_errors=True)
    os.makedirs(d)
    tdur = 2 if ctx.tier == "quick" else 8
    if ctx.tier != "quick":
        extra = "-partitions " + extra       # thorough: the nemesis also cuts raft links between replicas
    cmd = "%s -seed %d -out %s -port %d -mode %s -engine %s -dur %ds -clients %d -nseq %d -racedur %ds -pairdur %ds" % (
        os.path.join(vlib.BIN, CMD), seed, d, port_base(), mode, engine, dur, clients, nseq, tdur, tdur)
    if extra:
        cmd += " " + extra
    if replay_cases:
        cmd += " -replay %s" % replay_cases
    to = dur + 400
    rc, out, dt = sh(cmd, cwd=d, timeout=to)
    if rc == 3 or rc == 124:
        log("  harness inconclusive (%s), one retry" % out.strip().split("\n")[-1][-200:])
        shutil.rmtree(d, ignore_errors=True)
        os.makedirs(d)
        rc, out, dt = sh(cmd, cwd=d, timeout=to)
    if rc == 3 or rc == 124:
        return None, "INCONCLUSIVE " + out[-600:]
    if rc != 0:
        return None, out[-3000:]
    return d, out


def judge_run(ctx, d, label):
    """Direct oracle on one harness run. Returns (fails, mismatches, stats)."""
    fails, stats = [], {}
    # (a) Spec vs implementation on the sequential cases
    rc, out, _ = sh("%s < cases.tsv > model.out" % vlib.modelrun_path(GROUP), cwd=d, timeout=300)
    if rc != 0:
        log("MODEL RUN FAILED:\n" + out[-2000:])
        raise SystemExit(2)
    mism, nq = vlib.diff_outputs(os.path.join(d, "impl.out"), os.path.join(d, "model.out"))
    cases = {}
    for line in open(os.path.join(d, "cases.tsv")):
        p = line.rstrip("\n").split("\t")
        cases[p[0]] = line.rstrip("\n")
    # an implementation reply that is an error token is not a reply of the specification: only cases
    # without errors are compared (a fault-free sequential run normally has none)
    real_mism = []
    skipped = 0
    for k, a, b in mism:
        if a is not None and "err:" in a:
            skipped += 1
            continue
        real_mism.append((label + ":" + k, a, b, cases.get(k)))
    stats["seq_cases"] = nq
    stats["seq_skipped_errors"] = skipped
    # (b) the recorded histories, judged by the verified checker
    meta = json.load(open(os.path.join(d, "meta.json")))
    hs, order = parse_hist(os.path.join(d, "hist.tsv"))
    # well-formedness assumed by the locality theorem (C04_locality): no reply before its invocation
    for h in order:
        for o in hs[h]:
            if o[1] != "-" and int(o[1]) < int(o[0]):
                log("HARNESS BUG: reply time before invocation time in %s: %s" % (h, o))
                raise SystemExit(2)
    res = run_checker(ctx, [(h, hs[h]) for h in order], label)
    verdicts = {"lin": 0, "nonlin": 0, "outoffuel": 0, "undecided": 0}
    for h in order:
        v = res.get(h, "undecided").split(" ")[0]
        verdicts[v] = verdicts.get(v, 0) + 1
        if v == "nonlin":
            # is the violation still there when every plain read may take effect BEFORE its invocation (its
            # invocation time moved back to 0)? That is exactly what the protocol guarantees for plain reads
            # (C04_protocol_linearizable_relaxed): a read may be stale, but it returns the state after a
            # committed prefix and never runs ahead of its reply. The final replica reads are not relaxed.
            wo = [(["0"] + list(o[1:])) if (o[2].split(":")[0] in READS and not (len(o) > 4 and o[4].startswith("F"))) else list(o)
                  for o in hs[h]]
            r2 = run_checker(ctx, [("w", wo)], label + "-w")
            writes_only = r2.get("w", "").startswith("nonlin")
            n_same = sum(1 for f in fails if f.get("writes_only") == writes_only)
            if n_same >= (20 if writes_only else 1):
                continue          # counted in the verdicts; enough cases of this class are reported in full
            small = minimise(ctx, h, hs[h]) if len(fails) < 8 else [list(o) for o in hs[h]]
            kinds = sorted({o[2].split(":")[0] for o in small})
            fails.append(dict(
                name="nonlin-%s-%s-%d" % (label, h.replace(":", ""), ctx.seed), writes_only=writes_only,
                case=dict(history=hist_block(h, small), full_history=hist_block(h, hs[h]), key=h,
                          run=label, mode=meta.get("mode"), engine=meta.get("engine"), seed=meta.get("seed"),
                          nemesis=meta.get("nemesis"), violates_with_writes_only=writes_only),
                what="recorded history of %s is NOT linearizable (verified checker; minimised to %d operations: %s)%s"
                     % (h, len(small), ",".join(kinds), "" if writes_only else "; linearizable once plain reads may take effect before their invocation (stale reads)"),
                signature=None if writes_only else STALE_READ_SIG))
        elif v == "outoffuel":
            real_mism.append((label + ":" + h, "outoffuel", "excluded by theorem check_fuel_sufficient", None))
    stats["verdicts"] = verdicts
    if not meta.get("settled") and meta.get("ops_recorded"):
        ctx.notes.append("run %s: the cluster did not settle within its budget after the load: client histories judged, "
                         "dump comparison / log comparison skipped; final reads only from the replicas up to date with the current leader" % label)
    # (c) replica dumps equal
    dumps = meta.get("dumps") or []
    if meta.get("settled"):
        ok_d = [x for x in dumps if x is not None]
        if len(ok_d) < 3:
            ctx.notes.append("%s: only %d replica dumps readable (%s)" % (label, len(ok_d), meta.get("dump_err")))
        for i in range(1, len(ok_d)):
            if ok_d[i] != ok_d[0]:
                diffk = sorted(k for k in set(ok_d[0]) | set(ok_d[i]) if ok_d[0].get(k) != ok_d[i].get(k))[:5]
                fails.append(dict(name="dump-%s-%d" % (label, ctx.seed),
                                  case=dict(run=label, seed=meta.get("seed"), mode=meta.get("mode"), engine=meta.get("engine"),
                                            keys=diffk, a={k: ok_d[0].get(k) for k in diffk},
                                            b={k: ok_d[i].get(k) for k in diffk}, nemesis=meta.get("nemesis")),
                                  what="replica dumps differ after quiescence on %s" % diffk))
                break
        lc = meta.get("log_check") or {}
        if lc.get("disagree"):
            fails.append(dict(name="log-%s-%d" % (label, ctx.seed), case=dict(run=label, seed=meta.get("seed"), mode=meta.get("mode"), engine=meta.get("engine"), disagree=lc["disagree"]),
                              what="replicas applied different entries at the same index: %s" % lc["disagree"][0]))
        if lc.get("dup_ids"):
            fails.append(dict(name="dupid-%s-%d" % (label, ctx.seed), case=dict(run=label, seed=meta.get("seed"), mode=meta.get("mode"), engine=meta.get("engine"), dup=lc["dup_ids"]),
                              what="a request id occurs twice in the replicated log: %s" % lc["dup_ids"][0]))
        stats["log_compared"] = lc.get("compared", 0)
        stats["request_ids"] = lc.get("request_ids", 0)
    stats["meta"] = meta
    stats["hist"] = (hs, order, res)
    return fails, real_mism, stats


# ---------------------------------------------------------------- main
def run(ctx):
    quick = ctx.tier == "quick"
    ok, out, _ = vlib.go_build(CMD)
    if not ok:
        log("BUILD FAILED (harness %s):\n%s" % (CMD, out[-3000:]))
        raise SystemExit(2)
    vlib.regen_consts(GROUP, CMD)
    proofs_ok, info = ctx.check_proofs(
        make_targets=["Lin/CheckerProofs.vo", "Lin/ProtocolProofs.vo", "Lin/LocalityProofs.vo", "Lin/BatchingProofs.vo", "Lin/MemoProofs.vo", "Lin/ShrinkProofs.vo", "Properties/C04.vo"],
        gate_paths=["Lin", "Properties/C04"])
    mok, mout, _ = vlib.model_build(GROUP)
    if not mok:
        log("MODEL BUILD FAILED:\n" + mout[-3000:])
        raise SystemExit(2)

    all_fail, all_mism = [], []
    hist_total, ops_total, ack_total, unk_total = 0, 0, 0, 0
    verd = {}
    histo = {"op_kinds": {}, "write_errors": {}, "reads_failed": {}, "nemesis": {}, "targets": {}}
    samples, runs_info, distinct = [], [], set()
    seq_total = 0
    inconcl = 0

    # corpus first
    cm, cn = run_corpus(ctx)
    all_mism += [(k, a, b, None) for k, a, b in cm]

    if ctx.replay:
        rp = json.load(open(ctx.replay))
        case = rp.get("case") or {}
        if case.get("history"):
            hs, order = {}, []
            p = os.path.join(ctx.run_dir, "replay.hist")
            open(p, "w").write("\n".join(case["history"]) + "\n")
            hs, order = parse_hist(p)
            res = run_checker(ctx, [(h, hs[h]) for h in order], "replay")
            for h in order:
                v = res.get(h, "undecided")
                log("replay: history %s (%d operations): %s" % (h, len(hs[h]), v))
                hist_total += 1
                if v.startswith("nonlin"):
                    all_fail.append(dict(name="replay-" + vlib.case_hash(json.dumps(case["history"])),
                                         case=case, what=rp.get("what", "stored history is not linearizable"),
                                         signature=rp.get("signature")))
        elif case.get("cases_tsv"):
            p = os.path.join(ctx.run_dir, "replay_cases.tsv")
            open(p, "w").write("\n".join(case["cases_tsv"]) + "\n")
            d, err = run_cluster(ctx, "replay", ctx.seed, "inproc", "mem", 0, 1, 0, replay_cases=p)
            if d is None:
                log("HARNESS RUN FAILED:\n" + err)
                raise SystemExit(2)
            rc, out, _ = sh("%s < cases.tsv > model.out" % vlib.modelrun_path(GROUP), cwd=d, timeout=300)
            mism, nq = vlib.diff_outputs(os.path.join(d, "impl.out"), os.path.join(d, "model.out"))
            seq_total += nq
            for k, a, b in mism:
                log("replay: %s impl=%s model=%s" % (k, a, b))
                all_fail.append(dict(name="replay-seq-" + k, case=case,
                                     what="implementation reply differs from the sequential specification: impl=%s spec=%s" % (a, b)))
        plan = []
        if not case.get("history") and not case.get("cases_tsv"):
            if case.get("seed") is not None and case.get("mode"):
                # a dump / log / request-id failure: the schedule cannot be replayed exactly; the same seeded
                # configuration is run again (same clients, same nemesis schedule, fresh interleaving)
                log("replay: re-running the recorded configuration (seed %s, %s, %s)" % (case["seed"], case["mode"], case.get("engine")))
                plan = [("replay", int(case["seed"]), case["mode"], case.get("engine") or "mem", 20, 6, 10)]
            else:
                log("replay file has neither a history nor sequential cases (kind=%s): nothing to re-run" % rp.get("kind"))
    elif quick:
        plan = [("q1", ctx.seed, "inproc", "mem", 8, 6, 30, "-lossdur 1500ms -stalebarrier 600ms -newleader -abortbatch"),
                ("q2", ctx.seed + 7000, "procs", "pebble", 10, 6, 10),
                # checkpoints taken while writes are applied (SnapCount 20) + followers restarted under load
                ("q3", ctx.seed + 9000, "inproc", "mem", 9, 10, 2,
                 "-snapcount 20 -nemkind restarts -mix nonidem -pace 1ms -racedur 0s -pairdur 0s")]
    else:
        s = ctx.seed * 1000
        plan = [("t1", s + 1, "inproc", "mem", 60, 8, 80, "-lossdur 1500ms -stalebarrier 5s -newleader -abortbatch"),
                ("t0", s + 8, "inproc", "mem", 30, 10, 2, "-snapcount 20 -nemkind restarts -mix nonidem -pace 1ms -racedur 0s -pairdur 0s"),
                ("t8", s + 9, "procs", "pebble", 45, 6, 2, "-snapcount 50 -racedur 0s -pairdur 0s"),
                ("t2", s + 2, "procs", "pebble", 100, 6, 40),
                ("t3", s + 3, "procs", "rocksdb", 100, 8, 40),
                ("t4", s + 4, "procs", "pebble", 100, 4, 40),
                ("t5", s + 5, "inproc", "pebble", 70, 8, 40),
                ("t6", s + 6, "procs", "mem", 90, 6, 40),
                # long per-key histories (150-200 operations each): only the memoised checker can judge them
                ("t7", s + 7, "inproc", "mem", 50, 8, 10, "-minb 150 -maxb 200 -maxunk 8 -pace 2ms -racedur 0s -pairdur 0s")]

    def do_runs(plan):
        nonlocal hist_total, ops_total, ack_total, unk_total, seq_total, inconcl
        fails_acc, mism_acc = [], []
        for entry in plan:
            (label, seed, mode, engine, dur, clients, nseq) = entry[:7]
            extra = entry[7] if len(entry) > 7 else ""
            log("run %s: mode=%s engine=%s load=%ds clients=%d seed=%d %s" % (label, mode, engine, dur, clients, seed, extra))
            d, out = run_cluster(ctx, label, seed, mode, engine, dur, clients, nseq, extra=extra)
            if d is None:
                if out.startswith("INCONCLUSIVE"):
                    inconcl += 1
                    ctx.notes.append("run %s inconclusive twice (cluster did not start/settle in its budget): %s" % (label, out[-300:]))
                    runs_info.append(dict(run=label, result="inconclusive"))
                    continue
                log("HARNESS RUN FAILED:\n" + out)
                raise SystemExit(2)
            fails, mism, st = judge_run(ctx, d, label)
            fails_acc += fails
            mism_acc += mism
            meta = st["meta"]
            hs, order, res = st["hist"]
            hist_total += len(order)
            seq_total += st["seq_cases"]
            ops_total += meta.get("ops_recorded", 0)
            ack_total += meta.get("ops_acknowledged", 0)
            unk_total += meta.get("ops_unknown", 0)
            for k, v in st["verdicts"].items():
                verd[k] = verd.get(k, 0) + v
            for hk, mk in (("op_kinds", "op_kinds"), ("write_errors", "write_errors"), ("reads_failed", "reads_failed"), ("targets", "targets")):
                for k, v in (meta.get(mk) or {}).items():
                    histo[hk][k] = histo[hk].get(k, 0) + v
            for e in meta.get("nemesis") or []:
                w = e["what"].split(" ")[0] + ("-failed" if e.get("err") else "")
                histo["nemesis"][w] = histo["nemesis"].get(w, 0) + 1
            for h in order:
                ops = hs[h]
                conc = any(ops[i][1] != "-" and int(ops[i + 1][0]) < int(ops[i][1]) for i in range(len(ops) - 1)) if len(ops) > 1 else False
                if len(ops) >= 8 and conc:
                    distinct.add(vlib.case_hash(json.dumps(ops)))
            det, tot = mutate_selftest(ctx, hs, order, seed)
            runs_info.append(dict(run=label, mode=mode, engine=engine, load_s=dur, clients=clients, seed=seed,
                                  histories=len(order), verdicts=st["verdicts"], ops=meta.get("ops_recorded"),
                                  acknowledged=meta.get("ops_acknowledged"), unknown=meta.get("ops_unknown"),
                                  nemesis_events=len(meta.get("nemesis") or []), settled=meta.get("settled"),
                                  race_rounds=meta.get("race_rounds"), pair_rounds=meta.get("pair_rounds"),
                                  log_entries_compared=st.get("log_compared"), request_ids=st.get("request_ids"),
                                  corrupted_reply_detected="%d/%d" % (det, tot)))
            for h in order[:1] + order[-1:]:
                if len(samples) < 5:
                    samples.append(dict(run=label, key=h, verdict=res.get(h), history=hist_block(h, hs[h])[:60]))
            log("  %d histories %s, %d ops (%d ack, %d unknown), seq cases %d (mismatch %d), nemesis %d, corrupted-reply detection %d/%d"
                % (len(order), st["verdicts"], meta.get("ops_recorded", 0), meta.get("ops_acknowledged", 0),
                   meta.get("ops_unknown", 0), st["seq_cases"], len(mism), len(meta.get("nemesis") or []), det, tot))
        return fails_acc, mism_acc

    f, m = do_runs(plan)
    all_fail += f
    all_mism += m

    def search():
        # proofs or correspondence broke: a longer, differently seeded load judged by the direct oracle alone
        f2, _ = do_runs([("search", ctx.seed + 1000003, "inproc", "mem", 60, 8, 120)])
        return f2

    mm = [(x[0], x[1], x[2]) for x in all_mism]
    for x in all_mism[:10]:
        log("MISMATCH %s impl=%s model=%s case=%s" % (x[0], x[1], x[2], x[3]))
    # attach the case line to mismatching sequential cases so that the replay can re-run them
    vlib.standard_verdict(ctx, proofs_ok, mm, all_fail, search_fn=search,
                          corr_name="Lin/Spec.v vs replies of a live 3-replica namespace (sequential cases); Lin/Checker.v corpus verdicts")
    ctx.finish(dict(
        traces_validated_against_impl=hist_total + seq_total,
        evaluations=ops_total + seq_total,
        distinct_nontrivial=len(distinct),
        rule="one harness run = real 3-replica namespace (static seed nodes) + N concurrent redis clients on 3 live keys "
             "(each key retired after 24-40 operations or 4 unknown outcomes) + seeded nemesis (graceful stop/restart, leader transfer; "
             "with three OS processes also kill -9 / respawn and SIGSTOP / SIGCONT pauses; thorough: also network partitions, i.e. raft "
             "links cut at the receiving transport); a history = all operations on one key incl. the final read of every "
             "replica's store. Non-trivial = at least 8 operations and at least one pair overlapping in real time; distinct by hash. "
             "Before the random load every run has two fault-free targeted phases: RACES (all clients send SET..NX / SET / SETNX / "
             "DEL / SET..XX on the same fresh key at the same moment, each through its own replica, so that the entries share an "
             "apply batch) and PAIRS (write through the leader, wait for the reply, then immediately the command whose local no-op "
             "shortcut matches the state BEFORE that write through a follower: LPUSH->LPOP, DEL->SETNX, SREM->SADD, SADD->SREM). "
             "Directed fault schedules: NEWLEADER-BARRIER (DEL k acknowledged by the old leader; T has the entry but messages with a newer "
             "commit index are dropped at T; leadership transferred to T with its append acknowledgements held: SETNX k through T must not be "
             "answered from T's store), ABORT-BATCH (a follower is stopped; one client writes groups SET a, SET b, SETEX c 0 v (refused) "
             "through the leader; the follower restarts and applies the backlog in big batches: it must keep every acknowledged SET), STALE-BARRIER (leader->F appends and read-index answers held, heartbeats pass; a shortcut write "
             "to F starts read-index round 1; DEL k through the leader acknowledged; after round 1 timed out SETNX k through F starts round 2 "
             "and the OLD answer is delivered first: SETNX must not be answered from F's stale store; quick shortens the node's 5s round "
             "timeout through a verif-only knob, thorough uses the real one), FORGET-ACKED (leader->F2 cut, writes through the leader, leader->F1 cut, F1 restarted, "
             "leader stopped, links healed: F1+F2 must hold every acknowledged write) and CHECKPOINT-RESTART (SnapCount 20, followers "
             "restarted in quick succession under load: a restart restores the latest checkpoint and replays the log). When a run does "
             "not settle, the replicas that are up to date with the current leader are still read (final reads), the others are not. "
             "Sequential cases = single-client operation lists diffed against Lin/Spec.v.",
        histogram=histo,
        histories=hist_total, history_verdicts=verd, operations=ops_total, acknowledged=ack_total, unknown_outcome=unk_total,
        sequential_cases=seq_total, corpus_histories=cn, mismatches=len(all_mism), runs=runs_info,
        inconclusive_runs=inconcl,
        samples=samples[:5],
    ), assumptions=[
        "system level is SAMPLED, not proved: goroutine interleavings, TCP, process death and restart are exercised by the runs above; "
        "what is proved is (1) both verdicts of the checker that judges them and (2) linearizability of the abstract request-path protocol",
        "per-key checking is justified by the mechanised locality theorem C04_locality (well-formedness inv <= ret of every "
        "recorded operation is asserted on every run)",
        "Protocol.v takes log agreement (C02) and state-machine determinism (C07) as explicit hypotheses",
        "client clocks: one process, Go monotonic clock; equal timestamps are treated as concurrent",
    ])
