#!/bin/bash
# tools/mkseed.sh <Cxx> <tag> <n>: prepare a scratch worktree + prompt for a seeded-mutation agent
python3 - "$@" <<'PY'
import json,sys,subprocess,os
pid,tag,n=sys.argv[1],sys.argv[2],sys.argv[3]
props={json.loads(l)['id']:json.loads(l) for l in open('/verif/properties.jsonl')}
p=props[pid]
t=open('/verif/tools/prompts/seed.md').read()
wt='/tmp/seed-%s-%s'%(pid,tag); out='/tmp/seedout-%s-%s'%(pid,tag)
subprocess.run(['git','-C','/repo','worktree','add','--detach',wt,'HEAD'],stdout=subprocess.DEVNULL,stderr=subprocess.DEVNULL)
os.makedirs(out,exist_ok=True)
open('/tmp/seedprompt-%s-%s.txt'%(pid,tag),'w').write(t.format(WT=wt,ID=pid,TITLE=p['title'],STATEMENT=p['statement'],QUANT=p['quantifier']['text'],FILES=', '.join(p['anchors']['files']),N=n,OUT=out))
print('/tmp/seedprompt-%s-%s.txt'%(pid,tag))
PY
