#!/bin/bash
# tools/reseed.sh <seeded-dir>...: re-run only OUR CHECK against already-confirmed seeded changes and update meta.json
cd /verif
for T in "$@"; do
  T=${T%/}; id=$(basename $T); PROP=${id%%-*}
  MUT_TAIL=6 tools/mutrun.sh $T/patch.diff $PROP ${TIER:-quick} > /tmp/reseed-$id.log 2>&1; cc=$?
  verdict="missed"; [ $cc -eq 1 ] && grep -q "^VIOLATION property=$PROP" /tmp/reseed-$id.log && verdict="caught"
  grep -q "no-failing-input-found" /tmp/reseed-$id.log && verdict="$verdict(no-failing-input-found)"
  grep -q "does not apply" /tmp/reseed-$id.log && verdict="patch-does-not-apply-to-current-HEAD"
  python3 - "$T/meta.json" "$verdict" "$cc" "/tmp/reseed-$id.log" <<'PY'
import json,sys
dst,verdict,cc,log=sys.argv[1:]
m=json.load(open(dst))
hist=m.setdefault('our_check_history',[])
if m.get('our_check'): hist.append({'verdict':m['our_check'].get('verdict'),'rc':m['our_check'].get('rc')})
m['our_check']={'rc':int(cc),'verdict':verdict,'tail':open(log).read()[-600:]}
json.dump(m,open(dst,'w'),indent=1)
PY
  echo "$id $verdict rc=$cc"
done
