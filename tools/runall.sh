#!/bin/bash
# tools/runall.sh [quick|thorough] [seed]: run every registered check sequentially, validate evidence, summarise.
cd "$(dirname "$0")/.."
TIER=${1:-quick}; export VERIF_SEED=${2:-1}
mkdir -p .build/runall
for f in manifest.d/C*.json; do
  p=$(basename $f .json)
  t0=$(date +%s)
  rm -f evidence/$p.json
  timeout 3600 ./check $p --tier $TIER > .build/runall/$p.log 2>&1; rc=$?
  t1=$(date +%s)
  v=$(python3-vt - <<PY
import json,jsonschema
try:
    jsonschema.validate(json.load(open('evidence/$p.json')), json.load(open('/root/.vp/EVIDENCE.schema.json'))); print('evidence-ok')
except Exception as e: print('EVIDENCE-INVALID', str(e)[:80])
PY
)
  echo "$p rc=$rc $((t1-t0))s $v $(grep -c '^VIOLATION' .build/runall/$p.log) violations $(grep -c '^KNOWN-FINDING' .build/runall/$p.log) known"
done
