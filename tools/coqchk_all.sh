#!/bin/bash
# tools/coqchk_all.sh — re-check every compiled property module (and everything it depends on) with coqchk in ONE run,
# on a copy of the .vo tree (so the build lock is held for seconds only). Prints coqchk's context summary
# (axioms, type-in-type, unsafe fixpoints, assumed positivity). ~11 min.
set -e
V=$(cd "$(dirname "$0")/.." && pwd)
D=$V/.build/coqchk-all.$$
mkdir -p "$D"
trap 'rm -rf "$D"' EXIT
flock "$V/.build/coq.lock" rsync -a --include='*/' --include='*.vo' --exclude='*' "$V/coq/" "$D/"
cd "$D"
mods=$(ls Properties/C*.vo | sed 's/\.vo$//; s#/#.#; s/^/ZV./')
timeout 3600 coqchk -silent -o -Q . ZV $mods 2>&1 | tee "$V/.build/coqchk-all.log"
grep -q "Axioms: <none>" "$V/.build/coqchk-all.log"
