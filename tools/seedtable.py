#!/usr/bin/env python3
"""Print the seeded-change table (markdown) from seeded/*/meta.json."""
import glob, json, os
rows = []
for d in sorted(glob.glob(os.path.join(os.path.dirname(__file__), "..", "seeded", "*"))):
    mp = os.path.join(d, "meta.json")
    if not os.path.exists(mp):
        continue
    m = json.load(open(mp))
    oc = m.get("our_check", {})
    summ = (m.get("summary") or "").replace("\n", " ").replace("|", "/")
    needs = (m.get("needs") or "").replace("\n", " ").replace("|", "/")
    rows.append("| %s | %s | %s | %s | %s |" % (os.path.basename(d), m.get("property", ""), summ[:160], needs[:140], oc.get("verdict", "?")))
print("| id | property | change | needs | our check |\n|---|---|---|---|---|")
print("\n".join(rows))
