#!/usr/bin/env python3
"""Assemble /verif/MANIFEST.json from manifest.d/*.json fragments (one per claimed property)."""
import glob
import json
import os

V = os.path.dirname(os.path.dirname(os.path.abspath(__file__)))
props = [json.loads(l)["id"] for l in open(os.path.join(V, "properties.jsonl")) if l.strip()]
checks = []
have = set()
for p in sorted(glob.glob(os.path.join(V, "manifest.d", "C*.json"))):
    c = json.load(open(p))
    pid = c["property_id"]
    have.add(pid)
    c.setdefault("quick_cmd", "./check %s --tier quick" % pid)
    c.setdefault("thorough_cmd", "./check %s --tier thorough" % pid)
    c.setdefault("evidence_file", "/verif/evidence/%s.json" % pid)
    c.setdefault("replay_cmd_template", "./check %s --replay {path}" % pid)
    checks.append(c)
na_path = os.path.join(V, "manifest.d", "not_applicable.json")
na_given = json.load(open(na_path)) if os.path.exists(na_path) else {}
na = []
for p in props:
    if p not in have:
        na.append(dict(property_id=p, reason=na_given.get(p, "not claimed yet: its model, theorems and correspondence check are still being built (see DESIGN.md section 6); nothing is asserted about it")))
# MANIFEST.hooks and known_findings.jsonl are assembled from per-group fragments
hooks_commits = []
hook_lines = []
for hp in sorted(glob.glob(os.path.join(V, "hooks.d", "*.txt"))):
    for l in open(hp):
        l = l.strip()
        if l and not l.startswith("#"):
            hooks_commits.append(l.split()[0])
            hook_lines.append(l)
open(os.path.join(V, "MANIFEST.hooks"), "w").write(
    "# <commit> <path> <purpose>  (all hook files are add-only, //go:build verif)\n" + "\n".join(hook_lines) + ("\n" if hook_lines else ""))
kf = []
for kp in sorted(glob.glob(os.path.join(V, "known_findings.d", "*.jsonl"))):
    for l in open(kp):
        l = l.strip()
        if l and not l.startswith("#"):
            json.loads(l)
            kf.append(l)
open(os.path.join(V, "known_findings.jsonl"), "w").write("\n".join(kf) + ("\n" if kf else ""))
m = dict(
    version=1,
    setup_cmd="./tools/setup.sh",
    hooks=dict(
        guard="verif",
        enable="go build -tags verif (harness module /verif/harness with `replace github.com/youzan/ZanRedisDB => /repo`); hook files are add-only *_verif.go / verif_export.go with //go:build verif",
        baseline_off_cmd="for m in $(cat /w/out/gomods.txt); do MF=$(cd /repo/$m && . /w/out/goenv.sh && gomodflag); (cd /repo/$m && go test $MF -json -vet=off -count=1 -timeout 25m ./...); done",
        source_commits=hooks_commits,
        add_only=True,
    ),
    engines=[
        dict(name="coq", path="/verif/coq", kind_free_text="Coq 8.16.1 models (Model.v), proofs (Proofs.v), property theorem files (Properties/Cxx.v), extraction to OCaml (ExtrOcamlBasic)", serves_properties=sorted(have)),
        dict(name="harness", path="/verif/harness", kind_free_text="Go module that runs /repo's working tree (replace directive, -tags verif) on generated cases; one cmd per property group", serves_properties=sorted(have)),
        dict(name="driver", path="/verif/check", kind_free_text="Python driver: rebuild, re-check proofs (Print Assumptions), run both sides, diff, direct oracle, failing-input search, evidence", serves_properties=sorted(have)),
    ],
    checks=checks,
    notes="Technique: machine-checked proof in Coq of theorems about hand-written executable models, tied to /repo on every run by a correspondence check (extracted model vs real Go code on the same inputs) plus constants regenerated from the source. See DESIGN.md.",
    not_applicable=na,
)
json.dump(m, open(os.path.join(V, "MANIFEST.json"), "w"), indent=1)
print("MANIFEST.json: %d checks, %d not claimed" % (len(checks), len(na)))
