#!/usr/bin/env python3
"""Regenerate the generated parts of DESIGN.md (between <!-- GEN:x --> markers): 8.4 fixes/open findings, 8.5 seeded table."""
import json, glob, os, re, subprocess
V = os.path.dirname(os.path.dirname(os.path.abspath(__file__)))
kf = [json.loads(l) for l in open(os.path.join(V, "known_findings.jsonl")) if l.strip()]
fixed = [k for k in kf if k["status"] == "fixed"]
opn = [k for k in kf if k["status"] == "open"]
def clean(s, n):
    s = (s or "").replace("\n", " ").replace("|", "/")
    return s[:n]
out = []
out.append("### 8.4 Findings: repaired defects and open known findings (generated from known_findings.jsonl)\n")
out.append("Every entry below was demonstrated on the real code before it was recorded; `fixed` entries suppress nothing "
           "(the failing inputs stay in corpus/ and the checks report the violation again if it returns).\n")
out.append("**Open (each check prints `KNOWN-FINDING:` for exactly this signature and still reports any other violation):**\n")
for k in opn:
    out.append("* **%s** — signature `%s` — %s" % (k["property"], clean(k["signature"], 200), clean(k.get("what"), 600)))
out.append("\n**Fixed (%d `fix:` commits in /repo):**\n" % len(fixed))
out.append("| property | commit | what failed |\n|---|---|---|")
for k in sorted(fixed, key=lambda k: (k["property"], k.get("commit", ""))):
    out.append("| %s | %s | %s |" % (k["property"], k.get("commit", ""), clean(k.get("what") or k.get("signature"), 330)))
g84 = "\n".join(out)
rows = []
cnt = {}
series = {}
for d in sorted(glob.glob(os.path.join(V, "seeded", "*"))):
    mp = os.path.join(d, "meta.json")
    if not os.path.exists(mp):
        continue
    m = json.load(open(mp))
    oc = m.get("our_check", {})
    hist = [h.get("verdict") for h in m.get("our_check_history", [])]
    first = hist[0] if hist else oc.get("verdict")
    v = oc.get("verdict", "?")
    cnt[v] = cnt.get(v, 0) + 1
    rows.append("| %s | %s | %s | %s | %s |" % (os.path.basename(d), clean(m.get("summary"), 170), clean(m.get("needs"), 130), first, v))
    ser = os.path.basename(d).split("-")[1][0]
    st = series.setdefault(ser, [0, 0, 0])
    st[0] += 1
    st[1] += 1 if str(first).startswith("caught") else 0
    st[2] += 1 if str(v).startswith("caught") else 0
out = ["### 8.5 Seeded changes and which checks catch them (generated from seeded/*/meta.json)\n",
       "Six independent series (a–f) of up to three changes per property, written by sub-agents that saw only the property text, "
       "a scratch worktree and the build kit; each confirmed (demo passes on HEAD, fails with the patch; pinned baseline passes with the patch) "
       "before being filed. `first` = verdict of our check when the change was first run against it, `now` = verdict after the checks were "
       "strengthened. Totals now: " + ", ".join("%s %d" % kv for kv in sorted(cnt.items())) + ".\n",
       "Per series (changes filed / caught when first run / caught now): " + "; ".join("%s: %d / %d / %d" % (k, v[0], v[1], v[2]) for k, v in sorted(series.items())) +
       ". Each series was written against the checks as strengthened after the previous one, so the first-run column measures how well the checks generalise to changes nobody had seen.\n",
       "| id | change | needs | first | now |\n|---|---|---|---|---|"] + rows
g85 = "\n".join(out)
p = os.path.join(V, "DESIGN.md")
s = open(p).read()
# 8.3a: final per-property notes written by the owners of each check (design.d/Cxx.md)
notes = sorted(glob.glob(os.path.join(V, "design.d", "C*.md")))
g83 = "### 8.3a Per-property status as built — FINAL notes (assembled from design.d/Cxx.md; where 8.3 above and a note here differ, the note is right)\n\n" + \
      "\n\n".join(open(n).read().strip() for n in notes)
if "<!-- GEN:83 -->" not in s:
    s = s.replace("<!-- GEN:84 -->", "<!-- GEN:83 -->\n<!-- /GEN:83 -->\n\n<!-- GEN:84 -->")
import subprocess as _sp
nthm = sum(len(re.findall(r"^(?:Theorem|Lemma|Corollary)\s", open(f).read(), flags=re.M)) for f in glob.glob(os.path.join(V, "coq/Properties/C*.v")))
nlines = sum(len(open(f).read().splitlines()) for f in glob.glob(os.path.join(V, "coq/**/*.v"), recursive=True) if "/scratch/" not in f)
nhooks = sum(1 for l in open(os.path.join(V, "MANIFEST.hooks")) if l.strip() and not l.startswith("#"))
g86 = ("**Totals (generated):** %d property theorems in coq/Properties (all `exact`-closed, each followed by `Print Assumptions`), "
       "%d lines of Coq, %d `fix:` commits and %d hook entries in /repo, %d open known findings, %d seeded changes.\n\n" % (nthm, nlines, len(fixed), nhooks, len(opn), len(rows))) \
      + open(os.path.join(V, "design.d", "_trusted.md")).read().strip()
if "<!-- GEN:86 -->" not in s:
    s = s.rstrip() + "\n\n<!-- GEN:86 -->\n<!-- /GEN:86 -->\n"
for tag, body in (("83", g83), ("84", g84), ("85", g85), ("86", g86)):
    a, b = "<!-- GEN:%s -->" % tag, "<!-- /GEN:%s -->" % tag
    block = a + "\n" + body + "\n" + b
    if a in s:
        s = re.sub(re.escape(a) + ".*?" + re.escape(b), lambda m: block, s, flags=re.S)
    else:
        s += "\n\n" + block + "\n"
open(p, "w").write(s)
print("DESIGN.md: %d fixed, %d open, %d seeded" % (len(fixed), len(opn), len(rows)))
