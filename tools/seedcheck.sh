#!/bin/bash
# tools/seedcheck.sh <seedout-dir>/<k> <Cxx> <name>: confirm a seeded change (demo passes on HEAD, fails with
# the patch, baseline suite passes with the patch), run our check against it, and file it under seeded/<Cxx>-<name>/.
set -u
D=$(readlink -f "$1"); PROP=$2; NAME=$3
export GOFLAGS=-mod=mod GOPROXY=off GOSUMDB=off GOTOOLCHAIN=local
S=/tmp/sc-$$; mkdir -p $S
cleanup() { git -C /repo worktree remove --force $S/repo >/dev/null 2>&1; rm -rf $S; }
trap cleanup EXIT
git -C /repo worktree add --detach $S/repo HEAD >/dev/null 2>&1
echo "== demo on HEAD (expect 0)"; (cd $D/demo && timeout 900 bash ./run.sh $S/repo > $S/clean.log 2>&1); c0=$?; echo "rc=$c0"; tail -2 $S/clean.log
git -C $S/repo status --short | head -3
git -C $S/repo checkout -q -- . ; git -C $S/repo clean -fdq
git -C $S/repo apply $D/patch.diff || { echo "PATCH DOES NOT APPLY to current HEAD"; exit 3; }
echo "== demo with patch (expect 1)"; (cd $D/demo && timeout 900 bash ./run.sh $S/repo > $S/mut.log 2>&1); c1=$?; echo "rc=$c1"; tail -3 $S/mut.log
git -C $S/repo clean -fdq
echo "== baseline with patch"; (cd $S/repo && timeout 1500 go test -mod=mod -vet=off -count=1 ./common/... ./pkg/... ./metric/... ./slow/... ./settings/... ./internal/... > $S/base.log 2>&1); cb=$?; echo "rc=$cb"; grep -v "^ok\|no test files" $S/base.log | head -5
echo "== our check"; cd /verif && MUT_TAIL=6 tools/mutrun.sh $D/patch.diff $PROP ${TIER:-quick} > $S/check.log 2>&1; cc=$?; echo "rc=$cc"; tail -4 $S/check.log
verdict="missed"; [ $cc -eq 1 ] && grep -q "^VIOLATION property=$PROP" $S/check.log && verdict="caught"
grep -q "no-failing-input-found" $S/check.log && verdict="$verdict(no-failing-input-found)"
echo "== SUMMARY $PROP/$NAME demo_clean=$c0 demo_mut=$c1 baseline=$cb check=$cc $verdict"
if [ $c0 -eq 0 ] && [ $c1 -ne 0 ] && [ $cb -eq 0 ]; then
  T=/verif/seeded/$PROP-$NAME; mkdir -p $T; cp $D/patch.diff $T/; rm -rf $T/demo; cp -r $D/demo $T/demo
  python3 - "$D/meta.json" "$T/meta.json" "$verdict" "$c0" "$c1" "$cb" "$cc" "$S/check.log" <<'PY'
import json,sys
src,dst,verdict,c0,c1,cb,cc,log=sys.argv[1:]
try: m=json.load(open(src))
except Exception: m={}
m['confirmed']={'demo_on_head_rc':int(c0),'demo_with_patch_rc':int(c1),'baseline_with_patch_rc':int(cb),
  'ran':'tools/seedcheck.sh: demo/run.sh on a clean scratch worktree and with patch.diff applied; pinned baseline packages with the patch; tools/mutrun.sh <patch> <prop> (our check against a mutated scratch copy)'}
m['our_check']={'rc':int(cc),'verdict':verdict,'tail':open(log).read()[-600:]}
json.dump(m,open(dst,'w'),indent=1)
PY
  echo "filed under $T"
else
  echo "NOT CONFIRMED — not filed"
fi
