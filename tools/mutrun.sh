#!/bin/bash
# tools/mutrun.sh <patch.diff> <Cxx> [quick|thorough]  — run a check against a MUTATED copy of /repo without
# touching /repo or /verif: scratch worktree of /repo with the patch applied + scratch copy of /verif whose
# harness go.mod replace points at it. Prints the check's output; exit code = the check's.
set -u
PATCH=$(readlink -f "$1"); PROP=$2; TIER=${3:-quick}
S=/tmp/mut-$$; mkdir -p $S
cleanup() { git -C /repo worktree remove --force $S/repo >/dev/null 2>&1; rm -rf $S; }
trap cleanup EXIT
git -C /repo worktree add --detach $S/repo HEAD >/dev/null 2>&1 || { echo "worktree failed"; exit 3; }
git -C $S/repo apply "$PATCH" || { echo "patch does not apply"; exit 3; }
rsync -a --exclude .git --exclude replays --exclude '.build/run' /verif/ $S/verif/
sed -i "s#=> /repo\$#=> $S/repo#" $S/verif/harness/go.mod
grep -q "$S/repo" $S/verif/harness/go.mod || { echo "go.mod rewrite failed"; exit 3; }
cd $S/verif && VERIF_REPO=$S/repo VERIF_SEED=${VERIF_SEED:-1} timeout ${MUT_TIMEOUT:-1800} ./check $PROP --tier $TIER 2>&1 | tail -${MUT_TAIL:-15}
rc=${PIPESTATUS[0]}
# keep the replay for inspection
mkdir -p /verif/.build/mut && cp -r $S/verif/replays /verif/.build/mut/replays-$PROP-$(basename "$PATCH" .diff) 2>/dev/null
exit $rc
