module verif/harness

go 1.13

require (
	github.com/absolute8511/redcon v0.9.3
	github.com/coreos/etcd v3.1.15+incompatible
	github.com/siddontang/goredis v0.0.0-20180423163523-0b4019cbd7b7
	github.com/twmb/murmur3 v1.1.5
	github.com/youzan/ZanRedisDB v0.0.0
	github.com/youzan/go-zanredisdb v0.6.3
	golang.org/x/net v0.0.0-20191209160850-c0dbc17a3553
	google.golang.org/grpc v1.9.2
)

replace github.com/youzan/ZanRedisDB => /repo

replace github.com/youzan/gorocksdb => ../third_party/gorocksdb

replace github.com/ugorji/go => ../third_party/ugorji

replace github.com/hashicorp/go-immutable-radix v1.3.0 => github.com/absolute8511/go-immutable-radix v1.3.1-0.20210225131658-3dcbbb786587
