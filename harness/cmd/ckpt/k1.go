package main

import (
	"fmt"
	"os"
	"sync/atomic"
	"time"

	"github.com/youzan/ZanRedisDB/common"
	"github.com/youzan/ZanRedisDB/rockredis"
)

func openDB(dir, eng string, tune func(*rockredis.RockRedisDBConfig)) (*rockredis.RockDB, error) {
	cfg := rockredis.NewRockRedisDBConfig()
	cfg.EnableTableCounter = true
	cfg.EngineType = eng
	cfg.DataDir = dir
	cfg.ExpirationPolicy = common.WaitCompact
	cfg.DataVersion = common.ValueHeaderV1
	if tune != nil {
		tune(cfg)
	}
	return rockredis.OpenRockDB(cfg)
}

// k1Probe: does a write applied after Backup(i) has released the apply loop (BackupInfo.WaitReady
// returned) end up inside checkpoint i?  Returns (counter at backup, counter restored, incrs done while copying).
func k1Probe(eng string, mb int, incrs int) (int64, int64, int, error) {
	dir, err := os.MkdirTemp("", "verif-ckpt-k1-")
	if err != nil {
		return 0, 0, 0, err
	}
	defer os.RemoveAll(dir)
	db, err := openDB(dir, eng, nil)
	if err != nil {
		return 0, 0, 0, err
	}
	defer db.Close()
	val := make([]byte, 4096)
	for i := range val {
		val[i] = byte(i * 7)
	}
	cnt := []byte("t1:counter")
	var at int64
	for i := 0; i < mb*256; i++ {
		if err := db.KVSet(0, []byte(fmt.Sprintf("t1:fill%08d", i)), val); err != nil {
			return 0, 0, 0, err
		}
	}
	for i := 0; i < 10; i++ {
		at, _ = db.Incr(0, cnt)
	}
	bi := db.Backup(7, 100)
	if bi == nil {
		return 0, 0, 0, fmt.Errorf("backup refused")
	}
	bi.WaitReady() // this is where node.kvStoreSM.GetSnapshot returns and the apply loop continues
	t0 := time.Now()
	done := 0
	var fin int32
	go func() { bi.GetResult(); atomic.StoreInt32(&fin, 1) }()
	// the apply loop goes on applying entries i+1, i+2, ... while the checkpoint is copied
	for i := 0; (i < incrs || atomic.LoadInt32(&fin) == 0) && i < 1000000; i++ {
		db.Incr(0, cnt)
		done++
	}
	dt := time.Since(t0)
	_, err = bi.GetResult()
	if err != nil {
		return 0, 0, 0, err
	}
	_ = dt
	if err := db.Restore(7, 100); err != nil {
		return 0, 0, 0, err
	}
	v, err := db.KVGet(cnt)
	if err != nil {
		return 0, 0, 0, err
	}
	var got int64
	fmt.Sscan(string(v), &got)
	return at, got, done, nil
}
