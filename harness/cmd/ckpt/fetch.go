package main

import (
	"fmt"
	"io/ioutil"
	"net"
	"net/http"
	"os"
	"path"
	"strconv"
	"syscall"

	"github.com/youzan/ZanRedisDB/common"
	"github.com/youzan/ZanRedisDB/node"
	"github.com/youzan/ZanRedisDB/raft/raftpb"
	"verif/harness/internal/smx"
)

// pair: two replicas on the same host with different data roots, each the other's snapshot source,
// as node.GetValidBackupInfo expects them: the fetching side asks the peer over HTTP
// (/cluster/checkbackup/<ns>, body = the raft snapshot) whether it has the backup; the stub answers
// from the peer's real IsLocalBackupOK, as server.checkNodeBackup does.
type pair struct {
	base string
	st   [2]*store
	srv  [2]*http.Server
	a, b *store
}

func openPair(eng string, keep [2]int) (*pair, error) {
	base, err := os.MkdirTemp("", "verif-ckpt-pair-")
	if err != nil {
		return nil, err
	}
	return openPairAt(base, eng, keep)
}

// openPairAt opens (or reopens) the two stores under base; pair.close removes base.
func openPairAt(base, eng string, keep [2]int) (*pair, error) {
	var err error
	p := &pair{base: base}
	fullNS := smx.NS + "-0"
	var ports [2]int
	for k := 0; k < 2; k++ {
		k := k
		ln, err := net.Listen("tcp", "127.0.0.1:0")
		if err != nil {
			return nil, err
		}
		mux := http.NewServeMux()
		mux.HandleFunc("/", func(w http.ResponseWriter, r *http.Request) {
			body, _ := ioutil.ReadAll(r.Body)
			var snap raftpb.Snapshot
			if err := snap.Unmarshal(body); err != nil || p.st[k] == nil {
				w.WriteHeader(400)
				return
			}
			if ok, _ := p.st[k].db().IsLocalBackupOK(snap.Metadata.Term, snap.Metadata.Index); ok {
				w.WriteHeader(200)
			} else {
				w.WriteHeader(404)
			}
		})
		p.srv[k] = &http.Server{Handler: mux}
		go p.srv[k].Serve(ln)
		ports[k] = ln.Addr().(*net.TCPAddr).Port
	}
	for k := 0; k < 2; k++ {
		root := path.Join(base, fmt.Sprintf("node%d", k))
		peer := path.Join(base, fmt.Sprintf("node%d", 1-k))
		ci := &fakeCluster{infos: []common.SnapshotSyncInfo{{ReplicaID: 2, NodeID: 2, RemoteAddr: "127.0.0.1",
			HttpAPIPort: strconv.Itoa(ports[1-k]), DataRoot: peer}}}
		p.st[k], err = openStoreCluster(path.Join(root, fullNS), eng, keep[k],
			node.MachineConfig{BroadcastAddr: "127.0.0.1", DataRootDir: root}, ci)
		if err != nil {
			return nil, err
		}
	}
	p.a, p.b = p.st[0], p.st[1]
	return p, nil
}

func (p *pair) close() {
	for k := 0; k < 2; k++ {
		if p.st[k] != nil {
			if p.st[k].pending != nil {
				p.st[k].backupFinish()
			}
			p.st[k].close()
		}
		if p.srv[k] != nil {
			p.srv[k].Close()
		}
	}
	os.RemoveAll(p.base)
}

func lsIno(d string) {
	ents, _ := ioutil.ReadDir(d)
	for _, e := range ents {
		st, _ := e.Sys().(*syscall.Stat_t)
		fmt.Fprintf(os.Stderr, "   %-22s %8d ino=%d nlink=%d\n", e.Name(), e.Size(), st.Ino, st.Nlink)
	}
}

func fill(s *store, tag string, n int) {
	var cmds [][][]byte
	for k := 0; k < n; k++ {
		cmds = append(cmds, [][]byte{b("set"), b(fmt.Sprintf("t0:%s%04d", tag, k)), b(fmt.Sprintf("%s-value-%d", tag, k))})
	}
	s.write(cmds, true)
	s.db().CompactAllRange()
	s.reopen() // pebble only turns its WAL into an sst when it is reopened
}

// probeFetch: source lineage reset between two fetched checkpoints (F1). r1/r2 = extra reopens of the
// source in the first / second lineage (each consumes file numbers), to make an sst number collide.
func probeFetch(eng string) {
	for r1 := 0; r1 < 4; r1++ {
		for r2 := 0; r2 < 4; r2++ {
			probeFetch1(eng, r1, r2)
		}
	}
}

func sstNames(d string) map[string]int64 {
	out := map[string]int64{}
	ents, _ := ioutil.ReadDir(d)
	for _, e := range ents {
		if len(e.Name()) > 4 && e.Name()[len(e.Name())-4:] == ".sst" {
			out[e.Name()] = e.Size()
		}
	}
	return out
}

func probeFetch1(eng string, r1, r2 int) {
	out, coll := fetchScenario(eng, r1, r2)
	fmt.Fprintf(os.Stderr, "%s r1=%d r2=%d collisions:[%s] %s\n", eng, r1, r2, coll, out)
}

// fetchScenario (case kind E): B fetches C1 and C2 from A through the real PrepareSnapshot and
// restores them; A falls back to C1 (as after installing a snapshot of another leader) and goes on
// with other data, so that sst file numbers are reused with other content; B fetches C3.
// Observable: did B's older checkpoint C2 stay as it was on disk, did B's live content stay, does
// C2 still restore to its content, does C3 restore to A's content.
func fetchScenario(eng string, r1, r2 int) (string, string) {
	p, err := openPair(eng, [2]int{0, 0})
	if err != nil {
		return "openerr", ""
	}
	defer p.close()
	bk := func(s *store, t, i uint64) { s.backupStart(t, i); s.backupFinish() }
	fill(p.a, "one", 200)
	bk(p.a, 1, 10)
	p.b.prepare(1, 10)
	p.b.restore(1, 10)
	for k := 0; k < r1; k++ {
		p.a.reopen()
	}
	fill(p.a, "two", 200)
	bk(p.a, 1, 20)
	vA20 := p.a.valueID()
	p.b.prepare(1, 20)
	p.b.restore(1, 20)
	bC2 := path.Join(p.b.db().GetBackupDir(), ckName(1, 20))
	dgC2 := dirDigest(bC2)
	// the source falls back to C1 (it lagged behind another leader and installed a snapshot), then goes on differently
	p.a.restore(1, 10)
	for k := 0; k < r2; k++ {
		p.a.reopen()
	}
	fill(p.a, "three", 300)
	bk(p.a, 2, 30)
	vA30 := p.a.valueID()
	coll := ""
	b2 := sstNames(bC2)
	for n, sz := range sstNames(path.Join(p.a.db().GetBackupDir(), ckName(2, 30))) {
		if osz, ok := b2[n]; ok {
			coll += fmt.Sprintf(" %s(%d vs %d)", n, sz, osz)
		}
	}
	bi := func(x bool) int {
		if x {
			return 1
		}
		return 0
	}
	pr := p.b.prepare(2, 30)
	same := dgC2 == dirDigest(bC2)
	live := p.b.valueID() == vA20
	r2c := p.b.restore(1, 20)
	v2 := p.b.valueID() == vA20
	r3 := p.b.restore(2, 30)
	v3 := p.b.valueID() == vA30
	return fmt.Sprintf("fetch=%s ck2_unchanged=%d live_unchanged=%d restore2=%s:%d restore3=%s:%d", pr, bi(same), bi(live), r2c, bi(v2), r3, bi(v3)), coll
}
