// ckpt: C14 harness. Runs the REAL checkpoint / restore / purge code of /repo
// (node.kvStoreSM GetSnapshot / RestoreFromSnapshot / UpdateSnapshotState over rockredis.RockDB
// Backup / backupLoop / restoreFromPath / purgeOldCheckpoint / GetLatestCheckpoint /
// CheckpointSortNames / GetCheckpointDir, the engines' NewCheckpoint.Save, common.RunFileSync)
// on cases generated from one seeded PRNG and writes cases.tsv (the model's stdin) + impl.out.
//
// Case lines (tab separated, first field = id):
//
//	N term index                     checkpoint directory name
//	C nameA nameB                    CheckpointSortNames.Less
//	P keep latest names              purgeOldCheckpoint on a directory with these entries -> names left
//	L skip names matching            GetLatestCheckpoint
//	F cur ck                         restoreFromPath's file plan on crafted directories (mem engine)
//	TB keepA keepB hA hB             begin of a value-level trace on two stores (h = observed value id)
//	TO W s h | B s t i h | G s dg h | R s t i | Y s t i | S s i | O s t i | X s | Z s h    one op of the trace
//	   V s t i = copy (t,i) of store s into the other store's rocksdb_backup/remote; M s t i = RestoreFromRemoteBackup
//	(TO F s t i = store s runs kvStoreSM.PrepareSnapshot(t,i): asks the other store, reuses, copies)
//	E eng r1 r2                      fetch scenario with a lineage reset at the source (sst numbers reused)
//	K at                             K1 probe (writes racing with the checkpoint copy)
//
// Value ids (h) and checkpoint digests (dg) are OBSERVATIONS of the implementation handed to the
// model, which is parametric in what a write does. They appear on the ops that may legitimately
// change the engine content: writes, and the ops that flush the in-memory HyperLogLog write cache
// into the engine (Backup, close+reopen). Everything else on a T line is predicted, in particular
// the content after every Restore.
package main

import (
	"flag"
	"fmt"
	"go/ast"
	"go/parser"
	"go/token"
	"io/ioutil"
	"log"
	"math"
	"os"
	"path"
	"sort"
	"strconv"
	"strings"

	"github.com/youzan/ZanRedisDB/engine"
	"github.com/youzan/ZanRedisDB/rockredis"
	"verif/harness/internal/hx"
	"verif/harness/internal/smx"
)

var (
	seed    = flag.Int64("seed", 1, "seed")
	nDir    = flag.Int("ndir", 400, "number of purge/latest/compare/name cases (each kind)")
	nPlan   = flag.Int("nplan", 150, "number of restore file-plan cases")
	nTrace  = flag.Int("ntrace", 2, "value-level traces per engine and kind")
	lenTr   = flag.Int("tracelen", 40, "ops per trace")
	memType = flag.String("memtype", "", "index of the mem engine: radix (shipped default), btree, skiplist")
	junk    = flag.Int("junk", 0, "add an interleaving case on rocksdb with this many extra files in the data directory (K1R demonstration)")
	exh     = flag.Bool("exh", false, "add the exhaustive small-scope purge/latest cases")
	nInter  = flag.Int("ninter", 40, "trials of the apply-loop interleaving per engine (case kind I)")
	nHll    = flag.Int("nhll", 12, "rounds of the HyperLogLog-cache backup/restore case (HR) per engine")
	nCrash  = flag.Int("ncrash", 1, "timed kills per engine and kind (CB/CR/CF); 0 = no crash cases at all")
	nFetch  = flag.Int("nfetch", 1, "fetch-after-lineage-reset scenarios per engine")
	engines = flag.String("engines", "pebble,rocksdb,mem", "engines for the traces")
	k1engs  = flag.String("k1", "pebble", "engines for the K1 probe (comma separated, empty = none)")
	k1mb    = flag.Int("k1mb", 32, "MB of unflushed data for the K1 probe")
	outDir  = flag.String("out", ".", "output directory")
	doC     = flag.Bool("consts", false, "print Consts.v")
	probe   = flag.String("probe", "", "debug: show the checkpoint files around IsLocalBackupOK/Restore on this engine")
	replay  = flag.String("replay", "", "cases.tsv to re-run instead of generating")
)

func repoRoot() string {
	if v := os.Getenv("VERIF_REPO"); v != "" {
		return v
	}
	return "/repo"
}

// ---------- constants: compiled values + the literals of restoreFromPath / isSameSSTFile read from the source ----------

func evalInt(e ast.Expr) (int64, bool) {
	switch x := e.(type) {
	case *ast.BasicLit:
		v, err := strconv.ParseInt(x.Value, 0, 64)
		return v, err == nil
	case *ast.ParenExpr:
		return evalInt(x.X)
	case *ast.CallExpr:
		if len(x.Args) == 1 {
			return evalInt(x.Args[0])
		}
	case *ast.BinaryExpr:
		a, ok1 := evalInt(x.X)
		c, ok2 := evalInt(x.Y)
		if ok1 && ok2 {
			switch x.Op {
			case token.MUL:
				return a * c, true
			case token.ADD:
				return a + c, true
			case token.SHL:
				return a << uint(c), true
			}
		}
	}
	return 0, false
}

func sourceLiterals() (logPrefix, sstSuffix string, footerBytes int64) {
	fset := token.NewFileSet()
	f, err := parser.ParseFile(fset, path.Join(repoRoot(), "rockredis", "rockredis.go"), nil, 0)
	if err != nil {
		log.Fatalf("consts: %v", err)
	}
	pre, suf := map[string]bool{}, map[string]bool{}
	footerBytes = -1
	for _, d := range f.Decls {
		fd, ok := d.(*ast.FuncDecl)
		if !ok {
			continue
		}
		switch fd.Name.Name {
		case "restoreFromPath":
			ast.Inspect(fd, func(n ast.Node) bool {
				if c, ok := n.(*ast.CallExpr); ok {
					if se, ok := c.Fun.(*ast.SelectorExpr); ok && len(c.Args) == 2 {
						if lit, ok := c.Args[1].(*ast.BasicLit); ok && lit.Kind == token.STRING {
							v, _ := strconv.Unquote(lit.Value)
							if se.Sel.Name == "HasPrefix" {
								pre[v] = true
							}
							if se.Sel.Name == "HasSuffix" {
								suf[v] = true
							}
						}
					}
				}
				return true
			})
		case "isSameSSTFile":
			ast.Inspect(fd, func(n ast.Node) bool {
				if a, ok := n.(*ast.AssignStmt); ok && a.Tok == token.DEFINE && len(a.Lhs) == 1 {
					if id, ok := a.Lhs[0].(*ast.Ident); ok && id.Name == "rbytes" {
						if v, ok := evalInt(a.Rhs[0]); ok {
							footerBytes = v
						}
					}
				}
				return true
			})
		}
	}
	if len(pre) != 1 || len(suf) != 1 || footerBytes < 0 {
		log.Fatalf("consts: cannot read the literals of restoreFromPath/isSameSSTFile (prefixes %v suffixes %v footer %d)", pre, suf, footerBytes)
	}
	for k := range pre {
		logPrefix = k
	}
	for k := range suf {
		sstSuffix = k
	}
	return
}

func coqBytes(s string) string {
	p := make([]string, len(s))
	for i := 0; i < len(s); i++ {
		p[i] = strconv.Itoa(int(s[i]))
	}
	return "[" + strings.Join(p, "; ") + "]"
}

func consts() {
	lp, ss, fb := sourceLiterals()
	n0 := rockredis.GetCheckpointDir(0, 0)
	dash := strings.IndexAny(n0, "-")
	n1 := rockredis.GetCheckpointDir(0xabcdef, 0x1f)
	fmt.Println("(* GENERATED by harness/cmd/ckpt -consts from /repo; do not edit *)")
	fmt.Println("From Coq Require Import NArith List.")
	fmt.Println("Import ListNotations.")
	fmt.Println("Open Scope N_scope.")
	fmt.Printf("Definition max_checkpoint_num : N := %d.\n", rockredis.MaxCheckpointNum)
	fmt.Printf("Definition max_remote_checkpoint_num : N := %d.\n", rockredis.MaxRemoteCheckpointNum)
	fmt.Printf("Definition name_width : nat := %d%%nat.\n", dash)
	fmt.Printf("Definition name_sep : N := %d.\n", n0[dash])
	lower := 0
	if strings.Contains(n1, "abcdef") {
		lower = 1
	}
	fmt.Printf("Definition name_lower_hex : bool := %v.\n", lower == 1)
	fmt.Printf("Definition footer_check_bytes : N := %d.\n", fb)
	// the latestSnapIndex argument of the purge of rocksdb_backup/remote, read from the two call sites
	src, err := ioutil.ReadFile(path.Join(repoRoot(), "rockredis", "rockredis.go"))
	if err != nil {
		log.Fatalf("consts: %v", err)
	}
	if strings.Count(string(src), "purgeOldCheckpoint(MaxRemoteCheckpointNum, r.GetBackupDirForRemote(), math.MaxUint64-1)") != 2 {
		log.Fatalf("consts: the remote purge calls of backupLoop/restoreFromPath changed")
	}
	fmt.Printf("Definition remote_purge_latest : N := %d.\n", uint64(math.MaxUint64-1))
	fmt.Printf("Definition log_prefix : list N := %s.\n", coqBytes(lp))
	fmt.Printf("Definition sst_suffix : list N := %s.\n", coqBytes(ss))
}

// ---------- cases ----------

type cs struct {
	id, kind string
	f        []string
	tr       *trace
}

func generate(r *hx.Rng) []cs {
	var cases []cs
	id := 0
	next := func() string { id++; return fmt.Sprint(id) }
	// names
	edge := []uint64{0, 1, 9, 10, 15, 16, 255, 256, 1 << 32, 1<<63 - 1, 1 << 63, ^uint64(0)}
	u64 := func() uint64 {
		switch r.Pick(4) {
		case 0:
			return edge[r.Pick(len(edge))]
		case 1:
			return uint64(r.Pick(1000))
		default:
			return r.Uint64() >> uint(r.Pick(64))
		}
	}
	for i := 0; i < *nDir; i++ {
		cases = append(cases, cs{id: next(), kind: "N", f: []string{fmt.Sprintf("%x", u64()), fmt.Sprintf("%x", u64())}})
	}
	for i := 0; i < *nDir; i++ {
		var a, c string
		if r.Chance(0.7) {
			t, x := uint64(r.Pick(4)), uint64(r.Pick(20))
			a = genName(r, t, x)
			if r.Chance(0.3) {
				c = genName(r, t, x)
			} else {
				c = genName(r, uint64(r.Pick(4)), uint64(r.Pick(20)))
			}
		} else {
			l := genListing(r, 2, false, false)
			if len(l) < 2 {
				continue
			}
			a, c = l[r.Pick(2)], l[r.Pick(2)]
		}
		if !strings.Contains(a, "-") || !strings.Contains(c, "-") {
			continue // Less is only ever called on names matched by the glob "*-*"
		}
		cases = append(cases, cs{id: next(), kind: "C", f: []string{hx.H([]byte(a)), hx.H([]byte(c))}})
	}
	for i := 0; i < *nDir; i++ {
		var names []string
		switch r.Pick(4) {
		case 0:
			names = genListing(r, r.Pick(13), false, r.Chance(0.5)) // <= 12: sort.Sort is an insertion sort
		case 1:
			names = genListing(r, r.Pick(40), true, false)
		default:
			names = genListing(r, r.Pick(30), true, true)
		}
		keep := r.Pick(13)
		var latest uint64
		switch r.Pick(4) {
		case 0:
			latest = 0
		case 1:
			latest = ^uint64(0) - 1
		default:
			latest = uint64(r.Pick(400))
		}
		cases = append(cases, cs{id: next(), kind: "P", f: []string{fmt.Sprint(keep), fmt.Sprintf("%x", latest), hexNames(names)}})
	}
	for i := 0; i < *nDir/2; i++ {
		var names []string
		if r.Chance(0.3) {
			names = genListing(r, r.Pick(13), false, false)
		} else {
			names = genListing(r, r.Pick(25), true, r.Chance(0.5))
		}
		var match []string
		for _, n := range names {
			if r.Chance(0.6) {
				match = append(match, n)
			}
		}
		cases = append(cases, cs{id: next(), kind: "L", f: []string{fmt.Sprint(r.Pick(4)), hexNames(names), hexNames(match)}})
	}
	if *exh {
		// every subset of six checkpoints (two of them out of index order) x keepNum 0..6 x six latest indexes
		pool := [][2]uint64{{1, 1}, {1, 5}, {2, 3}, {2, 9}, {3, 2}, {3, 12}}
		lat := []uint64{0, 2, 4, 6, 10, ^uint64(0) - 1}
		for m := 0; m < 1<<uint(len(pool)); m++ {
			var names []string
			for k, p := range pool {
				if m&(1<<uint(k)) != 0 {
					names = append(names, rockredis.GetCheckpointDir(p[0], p[1]))
				}
			}
			sort.Strings(names)
			for keep := 0; keep <= len(pool); keep++ {
				for _, l := range lat {
					cases = append(cases, cs{id: next(), kind: "P", f: []string{fmt.Sprint(keep), fmt.Sprintf("%x", l), hexNames(names)}})
				}
			}
			for skip := 0; skip < 3; skip++ {
				cases = append(cases, cs{id: next(), kind: "L", f: []string{fmt.Sprint(skip), hexNames(names), hexNames(names)}})
			}
		}
	}
	for i := 0; i < *nDir/4; i++ {
		peers, lid, retry, rl := genPeers(r)
		rls := "0"
		if rl {
			rls = "1"
		}
		cases = append(cases, cs{id: next(), kind: "G", f: []string{fmt.Sprint(lid), fmt.Sprint(retry), rls,
			fmt.Sprintf("%x", 1+r.Pick(5)), fmt.Sprintf("%x", 1+r.Pick(500)), peersStr(peers)}})
	}
	for i := 0; i < *nDir/2; i++ {
		ents, src, t, x, skip := genReuse(r)
		cases = append(cases, cs{id: next(), kind: "H", f: []string{hx.H([]byte(src)), fmt.Sprintf("%x", t), fmt.Sprintf("%x", x), fmt.Sprint(skip), hentsStr(ents)}})
	}
	for i := 0; i < *nPlan; i++ {
		cur, ck := genPlan(r)
		cases = append(cases, cs{id: next(), kind: "F", f: []string{fentsStr(cur), fentsStr(ck)}})
	}
	for _, e := range strings.Split(*engines, ",") {
		if e == "" {
			continue
		}
		for k := 0; k < *nTrace; k++ {
			tr := genTrace(r, e, *lenTr, false)
			cases = append(cases, cs{id: next(), kind: "T", tr: &tr})
			if e != "mem" { // the purge barrier is close+reopen, which empties a mem store
				ts := genTrace(r, e, *lenTr*2/3, true)
				cases = append(cases, cs{id: next(), kind: "T", tr: &ts})
			}
		}
	}
	for _, e := range strings.Split(*engines, ",") {
		if e == "" || e == "mem" {
			continue
		}
		if *exh {
			for r1 := 0; r1 < 4; r1++ {
				for r2 := 0; r2 < 4; r2++ {
					cases = append(cases, cs{id: next(), kind: "E", f: []string{e, fmt.Sprint(r1), fmt.Sprint(r2)}})
				}
			}
		}
		for k := 0; k < *nFetch; k++ {
			cases = append(cases, cs{id: next(), kind: "E", f: []string{e, fmt.Sprint(r.Pick(6)), fmt.Sprint(r.Pick(6))}})
		}
	}
	for _, e := range strings.Split(*engines, ",") {
		if e != "" && *nInter > 0 {
			cases = append(cases, cs{id: next(), kind: "I", f: []string{e, fmt.Sprint(*nInter), fmt.Sprint(r.Int63n(1 << 40))}})
		}
	}
	for _, e := range strings.Split(*engines, ",") {
		if e == "" || *nCrash == 0 {
			continue
		}
		sd := func() string { return fmt.Sprint(r.Int63n(1 << 30)) }
		for _, pt := range []string{"ck.save.before", "ck.save.after", "ck.purge.before", "ck.purge.after"} {
			cases = append(cases, cs{id: next(), kind: "CB", f: []string{e, pt, "64", sd()}})
		}
		for _, pt := range []string{"rs.remove.after", "rs.copy.after"} {
			cases = append(cases, cs{id: next(), kind: "CR", f: []string{e, pt, "64", sd()}})
			cases = append(cases, cs{id: next(), kind: "CRR", f: []string{e, pt, "0", sd()}})
		}
		// HyperLogLog write cache around backup and restore, on a store with a 16 KB write buffer and on a default one
		cases = append(cases, cs{id: next(), kind: "HR", f: []string{e, fmt.Sprint(*nHll), sd(), "16"}})
		cases = append(cases, cs{id: next(), kind: "HR", f: []string{e, fmt.Sprint(*nHll / 2), sd(), "0"}})
		// two remote sources with a snapshot of the same (term,index)
		cases = append(cases, cs{id: next(), kind: "RS", f: []string{e, sd()}})
		// checkpoint size classes: just below / above 1 MiB, a few MiB (the mem engine's dump file is read in pieces)
		for _, tot := range []int{900 + r.Pick(100), 1030 + r.Pick(200), 2100 + r.Pick(2500)} {
			cases = append(cases, cs{id: next(), kind: "MS", f: []string{e, fmt.Sprint(tot), fmt.Sprint(60 + r.Pick(200)), sd()}})
		}
		// a transfer whose copy command fails midway while the process lives on
		cases = append(cases, cs{id: next(), kind: "FF", f: []string{e, fmt.Sprint(600 + r.Pick(1500)), sd(), []string{"efbig", "cutwal"}[r.Pick(2)]}})
		// kills at arbitrary moments of the copy / the file replacement / the transfer
		for k := 0; k < *nCrash; k++ {
			cases = append(cases, cs{id: next(), kind: "CB", f: []string{e, fmt.Sprintf("t%d", r.Pick(30000)), "16000", sd()}})
			cases = append(cases, cs{id: next(), kind: "CR", f: []string{e, fmt.Sprintf("t%d", r.Pick(8000)), "2000", sd()}})
			cases = append(cases, cs{id: next(), kind: "CF", f: []string{e, fmt.Sprintf("t%d", r.Pick(8000)), "16000", sd()}})
			cases = append(cases, cs{id: next(), kind: "CRR", f: []string{e, fmt.Sprintf("t%d", r.Pick(6000)), "0", sd()}})
		}
	}
	if *junk > 0 {
		cases = append(cases, cs{id: next(), kind: "I", f: []string{"rocksdb", "2", fmt.Sprint(r.Int63n(1 << 40)), fmt.Sprint(*junk)}})
	}
	for _, e := range strings.Split(*k1engs, ",") {
		if e != "" && e != "none" {
			cases = append(cases, cs{id: next(), kind: "K", f: []string{e, fmt.Sprint(*k1mb), "300"}})
		}
	}
	return cases
}

// skeleton lines of a trace (what a replay file carries): "<id>\tTS\t<eng>\t<keepA>\t<keepB>" then "<id>.<k>\tTX\t<op...>"
func parseReplay(file string) []cs {
	var cases []cs
	var cur *trace
	for _, l := range hx.ReadLines(file) {
		p := strings.Split(l, "\t")
		if len(p) < 2 {
			continue
		}
		switch p[1] {
		case "TS":
			tr := trace{eng: p[2]}
			tr.keep[0], _ = strconv.Atoi(p[3])
			tr.keep[1], _ = strconv.Atoi(p[4])
			cases = append(cases, cs{id: p[0], kind: "T", tr: &tr})
			cur = cases[len(cases)-1].tr
		case "TX":
			if cur == nil {
				continue
			}
			o := op{kind: p[2]}
			o.s, _ = strconv.Atoi(p[3])
			switch o.kind {
			case "W":
				o.share = p[4] == "1"
				o.cmds = decCmds(p[5])
			case "B", "R", "Y", "O", "F", "V", "M":
				o.t, _ = strconv.ParseUint(p[4], 16, 64)
				o.i, _ = strconv.ParseUint(p[5], 16, 64)
			case "S":
				o.i, _ = strconv.ParseUint(p[4], 16, 64)
			}
			cur.ops = append(cur.ops, o)
		case "TB", "TO":
			// derived lines of an earlier run: regenerated from the skeleton
		default:
			cases = append(cases, cs{id: p[0], kind: p[1], f: p[2:]})
		}
	}
	return cases
}

func main() {
	if len(os.Args) > 2 && os.Args[1] == "-child" {
		smx.Quiet()
		log.SetOutput(ioutil.Discard)
		if dn, err := os.OpenFile(os.DevNull, os.O_WRONLY, 0); err == nil {
			os.Stdout = dn
		}
		childMain(os.Args[2], os.Args[3:])
		return
	}
	flag.Parse()
	if *doC {
		consts()
		return
	}
	smx.Quiet()
	if *memType != "" && !engine.VerifSetMemType(*memType) {
		log.Fatalf("unknown mem type %q", *memType)
	}
	if *probe != "" {
		if strings.HasPrefix(*probe, "cb:") { // cb:<eng>:<point>:<fillKB>
			f := strings.Split(*probe, ":")
			kb, _ := strconv.Atoi(f[3])
			for k := 0; k < *nInter; k++ {
				fmt.Fprintln(os.Stderr, crashBackup(f[1], f[2], kb, int64(k)))
			}
			return
		}
		if strings.HasPrefix(*probe, "cr:") {
			f := strings.Split(*probe, ":")
			kb, _ := strconv.Atoi(f[3])
			for k := 0; k < *nInter; k++ {
				fmt.Fprintln(os.Stderr, crashRestore(f[1], f[2], kb, int64(k)))
			}
			return
		}
		if strings.HasPrefix(*probe, "cf:") { // cf:<eng>:<delay us>:<fillKB>
			f := strings.Split(*probe, ":")
			us, _ := strconv.Atoi(f[2])
			kb, _ := strconv.Atoi(f[3])
			for k := 0; k < *nInter; k++ {
				fmt.Fprintln(os.Stderr, crashFetch(f[1], us, kb, int64(k)))
			}
			return
		}
		if strings.HasPrefix(*probe, "fetch:") {
			probeFetch(strings.TrimPrefix(*probe, "fetch:"))
			return
		}
		probeCheck(*probe)
		return
	}
	log.SetOutput(ioutil.Discard) // common.RunFileSync logs through the standard logger
	// the mem engine prints every checkpointed value to stdout: keep the process's stdout clean
	devnull, _ := os.OpenFile(os.DevNull, os.O_WRONLY, 0)
	realStdout := os.Stdout
	os.Stdout = devnull
	defer func() { os.Stdout = realStdout }()

	var cases []cs
	if *replay != "" {
		cases = parseReplay(*replay)
	} else {
		cases = generate(hx.NewRng(*seed))
	}
	co := hx.Create(*outDir + "/cases.tsv")
	io := hx.Create(*outDir + "/impl.out")
	sk := hx.Create(*outDir + "/skeleton.tsv")
	kn := hx.Create(*outDir + "/known.out")
	defer kn.Close()
	defer co.Close()
	defer io.Close()
	defer sk.Close()
	for _, c := range cases {
		runCase(c, co, io, sk, kn)
	}
}

// runCase runs one case. A Go panic of the code under test that escapes the per-call guards ends
// the case with the outcome "panic" (a verdict for the oracle), it does not end the harness.
func runCase(c cs, co, io, sk, kn *hx.Out) {
	defer func() {
		if r := recover(); r != nil {
			fmt.Fprintf(os.Stderr, "case %s (%s): panic: %v\n", c.id, c.kind, r)
			id := c.id
			if c.kind == "T" {
				id = c.id + ".panic"
			}
			co.Printf("%s\t%s\t%s\n", id, c.kind, strings.Join(c.f, "\t"))
			io.Printf("%s\tpanic\n", id)
		}
	}()
	{
		// the case being run, unbuffered: if the process dies in it, this is the failing input
		cur := c.id + "\t" + c.kind + "\t" + strings.Join(c.f, "\t") + "\n"
		if c.kind == "T" {
			cur = fmt.Sprintf("%s\tTS\t%s\t%d\t%d\n", c.id, c.tr.eng, c.tr.keep[0], c.tr.keep[1])
			for k, o := range c.tr.ops {
				cur += fmt.Sprintf("%s.%d\tTX\t%s\n", c.id, k+1, o.skeleton())
			}
		}
		ioutil.WriteFile(*outDir+"/current.tsv", []byte(cur), 0644)
		if c.kind != "T" {
			line := c.id + "\t" + c.kind + "\t" + strings.Join(c.f, "\t")
			sk.Printf("%s\n", line)
		}
		switch c.kind {
		case "N":
			t, _ := strconv.ParseUint(c.f[0], 16, 64)
			i, _ := strconv.ParseUint(c.f[1], 16, 64)
			co.Printf("%s\tN\t%s\t%s\n", c.id, c.f[0], c.f[1])
			io.Printf("%s\t%s\n", c.id, hx.H([]byte(rockredis.GetCheckpointDir(t, i))))
		case "C":
			co.Printf("%s\tC\t%s\t%s\n", c.id, c.f[0], c.f[1])
			io.Printf("%s\t%s\n", c.id, implLess(string(hx.UnH(c.f[0])), string(hx.UnH(c.f[1]))))
		case "P":
			keep, _ := strconv.Atoi(c.f[0])
			latest, _ := strconv.ParseUint(c.f[1], 16, 64)
			co.Printf("%s\tP\t%s\t%s\t%s\n", c.id, c.f[0], c.f[1], c.f[2])
			io.Printf("%s\t%s\n", c.id, implPurge(keep, latest, unhexNames(c.f[2])))
		case "L":
			skip, _ := strconv.Atoi(c.f[0])
			co.Printf("%s\tL\t%s\t%s\t%s\n", c.id, c.f[0], c.f[1], c.f[2])
			io.Printf("%s\t%s\n", c.id, implLatest(skip, unhexNames(c.f[1]), unhexNames(c.f[2])))
		case "F":
			co.Printf("%s\tF\t%s\t%s\n", c.id, c.f[0], c.f[1])
			io.Printf("%s\t%s\n", c.id, implPlan(parseFents(c.f[0]), parseFents(c.f[1])))
		case "K":
			mb, _ := strconv.Atoi(c.f[1])
			n, _ := strconv.Atoi(c.f[2])
			at, got, _, err := k1Probe(c.f[0], mb, n)
			if err != nil {
				io.Printf("%s\terr %v\n", c.id, err)
				co.Printf("%s\tK\t0\n", c.id)
				return
			}
			co.Printf("%s\tK\t%d\n", c.id, at)
			io.Printf("%s\t%d %d\n", c.id, at, got)
		case "E":
			r1, _ := strconv.Atoi(c.f[1])
			r2, _ := strconv.Atoi(c.f[2])
			out, coll := fetchScenario(c.f[0], r1, r2)
			co.Printf("%s\tE\t%s\t%s\t%s\n", c.id, c.f[0], c.f[1], c.f[2])
			io.Printf("%s\t%s\n", c.id, out)
			if coll != "" {
				fmt.Fprintf(os.Stderr, "E %s r1=%d r2=%d sst number reused with other content:%s\n", c.f[0], r1, r2, coll)
			}
		case "H":
			t, _ := strconv.ParseUint(c.f[1], 16, 64)
			i, _ := strconv.ParseUint(c.f[2], 16, 64)
			skip, _ := strconv.Atoi(c.f[3])
			co.Printf("%s\tH\t%s\n", c.id, strings.Join(c.f, "\t"))
			io.Printf("%s\t%s\n", c.id, implReuse(parseHents(c.f[4]), string(hx.UnH(c.f[0])), t, i, skip))
		case "G":
			lid, _ := strconv.ParseUint(c.f[0], 10, 64)
			retry, _ := strconv.Atoi(c.f[1])
			t, _ := strconv.ParseUint(c.f[3], 16, 64)
			i, _ := strconv.ParseUint(c.f[4], 16, 64)
			co.Printf("%s\tG\t%s\n", c.id, strings.Join(c.f, "\t"))
			io.Printf("%s\t%s\n", c.id, implSource(parsePeers(c.f[5]), lid, retry, c.f[2] == "1", t, i))
		case "FF":
			kb, _ := strconv.Atoi(c.f[1])
			sd, _ := strconv.ParseInt(c.f[2], 10, 64)
			co.Printf("%s\tFF\t%s\n", c.id, strings.Join(c.f, "\t"))
			mode := "efbig"
			if len(c.f) > 3 {
				mode = c.f[3]
			}
			io.Printf("%s\t%s\n", c.id, failedFetch(c.f[0], kb, sd, mode))
		case "HR":
			n, _ := strconv.Atoi(c.f[1])
			sd, _ := strconv.ParseInt(c.f[2], 10, 64)
			wb, _ := strconv.Atoi(c.f[3])
			co.Printf("%s\tHR\t%s\n", c.id, strings.Join(c.f, "\t"))
			tr, bad, err := hllRestore(c.f[0], n, sd, wb)
			if err != nil {
				io.Printf("%s\terr after %d rounds: %v\n", c.id, tr, err)
			} else {
				io.Printf("%s\trounds=%d restore_differs=%d\n", c.id, tr, bad)
			}
		case "RS":
			sd, _ := strconv.ParseInt(c.f[1], 10, 64)
			co.Printf("%s\tRS\t%s\t%s\n", c.id, c.f[0], c.f[1])
			io.Printf("%s\t%s\n", c.id, remoteSources(c.f[0], sd))
		case "MS":
			tot, _ := strconv.Atoi(c.f[1])
			vk, _ := strconv.Atoi(c.f[2])
			sd, _ := strconv.ParseInt(c.f[3], 10, 64)
			co.Printf("%s\tMS\t%s\n", c.id, strings.Join(c.f, "\t"))
			io.Printf("%s\t%s\n", c.id, guard(func() string { return sizeClass(c.f[0], tot, vk, sd) }))
		case "CRR":
			sd, _ := strconv.ParseInt(c.f[3], 10, 64)
			out := crashRemoteRestore(c.f[0], c.f[1], sd)
			co.Printf("%s\tCRR\t%s\n", c.id, strings.Join(c.f, "\t"))
			io.Printf("%s\t%s\n", c.id, canonCrash("CRR", c.f[0], c.f[1], out))
			fmt.Fprintf(os.Stderr, "CRR %s %s: %s\n", c.f[0], c.f[1], out)
		case "CB", "CR", "CF":
			// crash cases: <eng> <point | t<micros>> <fillKB> <seed>
			kb, _ := strconv.Atoi(c.f[2])
			sd, _ := strconv.ParseInt(c.f[3], 10, 64)
			var out string
			switch c.kind {
			case "CB":
				out = crashBackup(c.f[0], c.f[1], kb, sd)
			case "CR":
				out = crashRestore(c.f[0], c.f[1], kb, sd)
			default:
				us, _ := strconv.Atoi(strings.TrimPrefix(c.f[1], "t"))
				out = crashFetch(c.f[0], us, kb, sd)
			}
			co.Printf("%s\t%s\t%s\t%s\t%s\t%s\n", c.id, c.kind, c.f[0], c.f[1], c.f[2], c.f[3])
			io.Printf("%s\t%s\n", c.id, canonCrash(c.kind, c.f[0], c.f[1], out))
			fmt.Fprintf(os.Stderr, "%s %s %s: %s\n", c.kind, c.f[0], c.f[1], out)
		case "I":
			n, _ := strconv.Atoi(c.f[1])
			sd, _ := strconv.ParseInt(c.f[2], 10, 64)
			jf := 0
			if len(c.f) > 3 {
				jf, _ = strconv.Atoi(c.f[3])
			}
			tr, bad, first, err := interleave(c.f[0], n, sd, jf)
			co.Printf("%s\tI\t%s\t%s\t%s\t%d\n", c.id, c.f[0], c.f[1], c.f[2], jf)
			if err != nil {
				io.Printf("%s\terr after %d trials: %v\n", c.id, tr, err)
			} else if jf > 0 {
				// the outcome depends on how long the engine needs to list that directory: reported
				// on the side (known.out), not part of the model comparison
				io.Printf("%s\ttrials=%d later_writes_visible=*\n", c.id, tr)
				kn.Printf("%s\t%s\t%d\t%d\t%d\n", c.id, c.f[0], jf, tr, bad)
			} else {
				io.Printf("%s\ttrials=%d later_writes_visible=%d\n", c.id, tr, bad)
				if bad > 0 {
					fmt.Fprintf(os.Stderr, "I %s: %d of %d checkpoints contained writes applied after their index (first: trial %d)\n", c.f[0], bad, tr, first)
				}
			}
		case "T":
			runTrace(c.id, c.tr, co, io, sk)
		}
	}
}

func runTrace(id string, tr *trace, co, io, sk *hx.Out) {
	sk.Printf("%s\tTS\t%s\t%d\t%d\n", id, tr.eng, tr.keep[0], tr.keep[1])
	pr, err := openPair(tr.eng, tr.keep)
	if err != nil {
		io.Printf("%s.0\topenerr %v\n", id, err)
		return
	}
	defer pr.close()
	st := pr.st
	obs := func(res string) string {
		d := [2]string{}
		for s := 0; s < 2; s++ {
			if st[s].pending != nil {
				d[s] = "~"
			} else {
				d[s] = st[s].digests()
				if d[s] == "" {
					d[s] = "-"
				}
			}
		}
		return fmt.Sprintf("%s %s %s %s %s %s %s", res, st[0].valueID(), st[1].valueID(), d[0], d[1], st[0].remoteDigests(), st[1].remoteDigests())
	}
	co.Printf("%s.0\tTB\t%s\t%d\t%d\t%s\t%s\n", id, tr.eng, tr.keep[0], tr.keep[1], st[0].valueID(), st[1].valueID())
	io.Printf("%s.0\t%s\n", id, obs("ok"))
	for k, o := range tr.ops {
		lid := fmt.Sprintf("%s.%d", id, k+1)
		sk.Printf("%s\tTX\t%s\n", lid, o.skeleton())
		s := st[o.s]
		res := "ok"
		switch o.kind {
		case "W":
			s.write(o.cmds, o.share)
			co.Printf("%s\tTO\tW\t%d\t%s\n", lid, o.s, s.valueID())
		case "B":
			res = s.backupStart(o.t, o.i)
			// h = the dump at the backup instant (apply loop still blocked): Backup flushes the
			// HyperLogLog write cache into the engine, which is why it is observed here
			co.Printf("%s\tTO\tB\t%d\t%x\t%x\t%s\n", lid, o.s, o.t, o.i, s.valueID())
		case "G":
			name := s.pname
			res = s.backupFinish()
			if s.keep != 0 {
				// the purge of backupLoop runs after the result is published: Close waits for it
				if err := s.reopen(); err != nil {
					res = "reopenerr"
				}
			}
			dg := "-"
			if _, err := os.Stat(path.Join(s.db().GetBackupDir(), name)); err == nil {
				dg = dirDigest(path.Join(s.db().GetBackupDir(), name))
			}
			co.Printf("%s\tTO\tG\t%d\t%s\t%s\n", lid, o.s, dg, s.valueID())
		case "R":
			res = s.restore(o.t, o.i)
			co.Printf("%s\tTO\tR\t%d\t%x\t%x\n", lid, o.s, o.t, o.i)
		case "Y":
			res = s.copyCkTo(st[1-o.s], o.t, o.i)
			co.Printf("%s\tTO\tY\t%d\t%x\t%x\n", lid, o.s, o.t, o.i)
		case "V":
			res = st[1-o.s].transferRemoteFrom(s, o.t, o.i)
			co.Printf("%s\tTO\tV\t%d\t%x\t%x\n", lid, o.s, o.t, o.i)
		case "M":
			res = s.restoreRemote(o.t, o.i)
			co.Printf("%s\tTO\tM\t%d\t%x\t%x\n", lid, o.s, o.t, o.i)
		case "F":
			res = s.prepare(o.t, o.i)
			co.Printf("%s\tTO\tF\t%d\t%x\t%x\n", lid, o.s, o.t, o.i)
		case "S":
			s.setLatest(o.i)
			co.Printf("%s\tTO\tS\t%d\t%x\n", lid, o.s, o.i)
		case "O":
			res = s.localOK(o.t, o.i)
			co.Printf("%s\tTO\tO\t%d\t%x\t%x\n", lid, o.s, o.t, o.i)
		case "X":
			s.db().CompactAllRange()
			co.Printf("%s\tTO\tX\t%d\n", lid, o.s)
		case "Z":
			if err := s.reopen(); err != nil {
				res = "reopenerr"
			}
			co.Printf("%s\tTO\tZ\t%d\t%s\n", lid, o.s, s.valueID())
		}
		io.Printf("%s\t%s\n", lid, obs(res))
	}
}
