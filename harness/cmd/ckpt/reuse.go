package main

import (
	"fmt"
	"io/ioutil"
	"os"
	"path"
	"sort"
	"strconv"
	"strings"
	"syscall"

	"github.com/youzan/ZanRedisDB/node"
	"github.com/youzan/ZanRedisDB/rockredis"
	"verif/harness/internal/hx"
)

// case kind H: node.handleReuseOldCheckpoint on a crafted backup directory.
// entry: <name hex>:<source_node_info hex or ->:<file hex>=<ino>.<file hex>=<ino>...  (files with one ino are hard links)
type hfile struct {
	name string
	ino  int
}
type hent struct {
	name, info string
	hasInfo    bool
	files      []hfile
}

func hentsStr(l []hent) string {
	if len(l) == 0 {
		return "-"
	}
	var p []string
	for _, e := range l {
		info := "-"
		if e.hasInfo {
			info = hx.H([]byte(e.info))
		}
		var fs []string
		for _, f := range e.files {
			fs = append(fs, fmt.Sprintf("%s=%d", hx.H([]byte(f.name)), f.ino))
		}
		fl := "-"
		if len(fs) > 0 {
			fl = strings.Join(fs, ".")
		}
		p = append(p, hx.H([]byte(e.name))+":"+info+":"+fl)
	}
	return strings.Join(p, ",")
}

func parseHents(s string) []hent {
	if s == "-" || s == "" {
		return nil
	}
	var out []hent
	for _, x := range strings.Split(s, ",") {
		f := strings.Split(x, ":")
		e := hent{name: string(hx.UnH(f[0]))}
		if f[1] != "-" {
			e.hasInfo = true
			e.info = string(hx.UnH(f[1]))
		}
		if f[2] != "-" {
			for _, y := range strings.Split(f[2], ".") {
				kv := strings.Split(y, "=")
				ino, _ := strconv.Atoi(kv[1])
				e.files = append(e.files, hfile{string(hx.UnH(kv[0])), ino})
			}
		}
		out = append(out, e)
	}
	return out
}

func genReuse(r *hx.Rng) (ents []hent, src string, t, i uint64, skip int) {
	infos := []string{"peerA/d1/ns-0", "peerB/m2/ns-0"}
	src = infos[r.Pick(2)]
	ino := 1
	used := map[string]bool{}
	ssts := []string{"000003.sst", "000007.sst", "000010.sst", "MANIFEST-000001", "000004.log", "x.sst.tmp"}
	last := map[string]int{} // file name -> an inode already used for it (to create shared links)
	for k := r.Pick(6); k > 0; k-- {
		nm := rockredis.GetCheckpointDir(uint64(1+r.Pick(3)), uint64(1+r.Pick(12)))
		if r.Chance(0.04) {
			nm = junkNames[r.Pick(len(junkNames))]
			if !strings.Contains(nm, "-") || strings.ContainsAny(nm, " ") {
				nm = "zz-1"
			}
		}
		if used[nm] {
			continue
		}
		used[nm] = true
		e := hent{name: nm}
		if r.Chance(0.75) {
			e.hasInfo = true
			e.info = infos[r.Pick(2)]
		}
		for _, f := range ssts {
			if r.Chance(0.5) {
				id := ino
				if prev, ok := last[f]; ok && r.Chance(0.4) {
					id = prev
				} else {
					ino++
				}
				last[f] = id
				e.files = append(e.files, hfile{f, id})
			}
		}
		ents = append(ents, e)
	}
	sort.Slice(ents, func(a, b int) bool { return ents[a].name < ents[b].name })
	t, i = uint64(1+r.Pick(3)), uint64(1+r.Pick(12))
	return ents, src, t, i, r.Pick(3) / 2
}

func implReuse(ents []hent, src string, t, i uint64, skip int) string {
	dir, err := os.MkdirTemp("", "verif-ckpt-reuse-")
	if err != nil {
		return "mkerr"
	}
	defer os.RemoveAll(dir)
	first := map[int]string{}
	for _, e := range ents {
		d := path.Join(dir, e.name)
		if err := os.Mkdir(d, 0755); err != nil {
			return "mkerr"
		}
		if e.hasInfo {
			ioutil.WriteFile(path.Join(d, "source_node_info"), []byte(e.info), 0644)
		}
		for _, f := range e.files {
			p := path.Join(d, f.name)
			if q, ok := first[f.ino]; ok {
				if err := os.Link(q, p); err != nil {
					return "mkerr"
				}
			} else {
				ioutil.WriteFile(p, []byte(fmt.Sprintf("inode %d", f.ino)), 0644)
				first[f.ino] = p
			}
		}
	}
	var reused, newPath string
	_, pn := hx.Recover(func() { reused, newPath = node.VerifHandleReuseOldCheckpoint(src, dir, t, i, skip) })
	if pn {
		return "panic"
	}
	if newPath != path.Join(dir, rockredis.GetCheckpointDir(t, i)) {
		return "wrong-newpath"
	}
	ru := "-"
	if reused != "" {
		ru = hx.H([]byte(path.Base(reused)))
	}
	// observe: every directory with its info and files; a file is labelled by the number of its
	// inode in order of first appearance
	labels := map[uint64]int{}
	var out []string
	dents, _ := ioutil.ReadDir(dir)
	for _, de := range dents {
		d := path.Join(dir, de.Name())
		info := "-"
		if b, err := ioutil.ReadFile(path.Join(d, "source_node_info")); err == nil {
			info = hx.H(b)
		}
		fents, _ := ioutil.ReadDir(d)
		var fs []string
		for _, fe := range fents {
			if fe.Name() == "source_node_info" {
				continue
			}
			st, _ := fe.Sys().(*syscall.Stat_t)
			l, ok := labels[st.Ino]
			if !ok {
				l = len(labels) + 1
				labels[st.Ino] = l
			}
			fs = append(fs, fmt.Sprintf("%s=%d", hx.H([]byte(fe.Name())), l))
		}
		fl := "-"
		if len(fs) > 0 {
			fl = strings.Join(fs, ".")
		}
		out = append(out, hx.H([]byte(de.Name()))+":"+info+":"+fl)
	}
	o := "-"
	if len(out) > 0 {
		o = strings.Join(out, ",")
	}
	return "reused=" + ru + " " + o
}
