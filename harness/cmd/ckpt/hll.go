package main

import (
	"fmt"
	"os"

	"verif/harness/internal/hx"
)

// pfBurst: PFADD on n distinct keys (the dirty write cache holds 32: more than that forces evictions,
// i.e. flushes in the middle), each with m elements
func pfBurst(r *hx.Rng, n, m int, tag string) [][][]byte {
	var cmds [][][]byte
	for k := 0; k < n; k++ {
		c := [][]byte{b("pfadd"), b(fmt.Sprintf("t%d:p%s%d", k%2, tag, k))}
		for e := 0; e < m; e++ {
			c = append(c, b(fmt.Sprintf("e%d-%d", r.Pick(1000000), e)))
		}
		cmds = append(cmds, c)
	}
	// and the keys whose count is part of the dump
	cmds = append(cmds, [][]byte{b("pfadd"), key(r, "p"), b(fmt.Sprintf("x%d", r.Pick(100000)))})
	return cmds
}

// hllRestore (case kind HR): HyperLogLog writes sit in an in-memory write cache until it is flushed
// (Backup flushes it before the checkpoint is started; closing the engine flushes it too). On a
// store with a write buffer of wbufKB kilobytes, every round:
//
//	writes incl. PFADDs that are still only in the cache; GetSnapshot (Backup + WaitReady); dump D
//	(the cache was flushed by Backup, so D contains everything PFADDed before it); GetData;
//	more writes and cached-only PFADDs on many keys; RestoreFromSnapshot; dump D'.
//
// Judged on the dumps: D' = D. Returns rounds and the number of rounds with D' <> D.
func hllRestore(eng string, rounds int, seed int64, wbufKB int) (int, int, error) {
	smallWriteBuffer = wbufKB * 1024
	defer func() { smallWriteBuffer = 0 }()
	dir, err := os.MkdirTemp("", "verif-ckpt-hr-")
	if err != nil {
		return 0, 0, err
	}
	defer os.RemoveAll(dir)
	st, err := openStore(dir, eng, 3)
	if err != nil {
		return 0, 0, err
	}
	defer st.close()
	r := hx.NewRng(seed)
	bad := 0
	idx := uint64(5)
	for t := 0; t < rounds; t++ {
		var cmds [][][]byte
		for k := 1 + r.Pick(4); k > 0; k-- {
			cmds = append(cmds, genWriteNoHLL(r))
		}
		st.write(cmds, false)
		// dirty HyperLogLog entries right before the backup: a few keys, or more than the cache holds
		n := 1 + r.Pick(32)
		if r.Chance(0.3) {
			n = 33 + r.Pick(12)
		}
		st.write(pfBurst(r, n, 1+r.Pick(60), fmt.Sprintf("a%d_", t%3)), r.Chance(0.5))
		idx += 50
		if res := st.backupStart(2, idx); res != "ok" {
			return t, bad, fmt.Errorf("backup: %s", res)
		}
		want := st.valueID()
		if res := st.backupFinish(); res != "ok" {
			return t, bad, fmt.Errorf("backup result: %s", res)
		}
		// entries after the snapshot, the HyperLogLog ones only in the cache when the restore begins
		st.write([][][]byte{genWriteNoHLL(r), genWriteNoHLL(r)}, false)
		n = 4 + r.Pick(28)
		if r.Chance(0.25) {
			n = 33 + r.Pick(12)
		}
		m := 20 + r.Pick(200)
		if r.Chance(0.4) {
			n, m = 32, 900+r.Pick(500) // dense registers: a few KB per key, more than a small write buffer in total
		}
		st.write(pfBurst(r, n, m, fmt.Sprintf("b%d_", t)), false)
		if res := st.restore(2, idx); res != "ok" {
			return t, bad, fmt.Errorf("restore: %s", res)
		}
		if st.valueID() != want {
			bad++
		}
	}
	return rounds, bad, nil
}
