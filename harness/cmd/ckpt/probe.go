package main

import (
	"crypto/sha1"
	"fmt"
	"io/ioutil"
	"os"
	"path"
)

func lsDir(d string) {
	ents, _ := ioutil.ReadDir(d)
	for _, e := range ents {
		b, _ := ioutil.ReadFile(path.Join(d, e.Name()))
		fmt.Fprintf(os.Stderr, "   %-24s %8d %x\n", e.Name(), len(b), sha1.Sum(b))
	}
}

func probeCheck(eng string) {
	dir, _ := os.MkdirTemp("", "verif-ckpt-probe-")
	defer os.RemoveAll(dir)
	st, err := openStore(dir, eng, 0)
	if err != nil {
		panic(err)
	}
	defer st.close()
	st.write([][][]byte{{b("set"), b("t0:k1"), b("v")}, {b("incr"), b("t0:c1")}}, false)
	st.backupStart(1, 5)
	st.backupFinish()
	ck := path.Join(st.db().GetBackupDir(), ckName(1, 5))
	fmt.Fprintln(os.Stderr, "after backup")
	lsDir(ck)
	st.localOK(1, 5)
	fmt.Fprintln(os.Stderr, "after IsLocalBackupOK")
	lsDir(ck)
	st.restore(1, 5)
	fmt.Fprintln(os.Stderr, "after restore")
	lsDir(ck)
}
