package main

import (
	"bytes"
	"fmt"
	"io/ioutil"
	"os"
	"path"
	"sort"
	"strconv"
	"strings"

	"github.com/youzan/ZanRedisDB/rockredis"
	"verif/harness/internal/hx"
)

// ---------- names ----------

func genName(r *hx.Rng, term, idx uint64) string {
	switch r.Pick(20) {
	case 0:
		return fmt.Sprintf("%04x-%05x", term, idx) // the widths rockredis_test.go uses
	case 1:
		return fmt.Sprintf("%x-%x", term, idx)
	case 2:
		return fmt.Sprintf("%016X-%016X", term, idx)
	default:
		return rockredis.GetCheckpointDir(term, idx)
	}
}

var junkNames = []string{"a-b-c", "-", "1-", "-1", "zz-1", "1-zz", "1-2-3", "fffffffffffffffff-1", "1-fffffffffffffffff",
	"0000000000000001-0000000000000005.tmp", "0x1-2", "+1-2", "1_0-2", " 1-2", "remote", "tmp", "000000000000000g-0000000000000001", "1--2", "Ab-Cd", ".-.", "-.sst"}

// genListing: wellFormed = canonical-ish names with distinct (term,index) keys; otherwise junk,
// duplicates of one key under different spellings and names without a dash are mixed in.
func genListing(r *hx.Rng, n int, wellFormed bool, monotone bool) []string {
	seen := map[string]bool{}
	keys := map[[2]uint64]bool{}
	var out []string
	term, idx := uint64(1+r.Pick(3)), uint64(r.Pick(20))
	for tries := 0; len(out) < n && tries < 20*n+20; tries++ {
		var nm string
		if !wellFormed && r.Chance(0.25) {
			nm = junkNames[r.Pick(len(junkNames))]
		} else {
			if monotone {
				if r.Chance(0.25) {
					term += uint64(1 + r.Pick(2))
				}
				idx += uint64(1 + r.Pick(30))
			} else {
				term = uint64(r.Pick(4))
				idx = uint64(r.Pick(64))
				if r.Chance(0.05) {
					idx = ^uint64(0) - uint64(r.Pick(3))
				}
			}
			if wellFormed {
				if keys[[2]uint64{term, idx}] {
					continue
				}
				keys[[2]uint64{term, idx}] = true
				nm = rockredis.GetCheckpointDir(term, idx)
			} else {
				nm = genName(r, term, idx)
			}
		}
		if seen[nm] {
			continue
		}
		seen[nm] = true
		out = append(out, nm)
	}
	sort.Strings(out)
	return out
}

func hexNames(l []string) string {
	p := make([][]byte, len(l))
	for i, s := range l {
		p[i] = []byte(s)
	}
	return hx.HL(p)
}

func unhexNames(s string) []string {
	var out []string
	for _, x := range hx.UnHL(s) {
		out = append(out, string(x))
	}
	return out
}

func mkListing(names []string) (string, error) {
	dir, err := os.MkdirTemp("", "verif-ckpt-ls-")
	if err != nil {
		return "", err
	}
	for k, n := range names {
		p := path.Join(dir, n)
		if k%4 == 3 {
			err = ioutil.WriteFile(p, []byte("x"), 0644)
		} else {
			err = os.Mkdir(p, 0755)
			if err == nil {
				err = ioutil.WriteFile(path.Join(p, "f"), []byte("x"), 0644)
			}
		}
		if err != nil {
			os.RemoveAll(dir)
			return "", err
		}
	}
	return dir, nil
}

func readNames(dir string) []string {
	ents, _ := ioutil.ReadDir(dir)
	var out []string
	for _, e := range ents {
		out = append(out, e.Name())
	}
	sort.Strings(out)
	return out
}

// implPurge: the real purgeOldCheckpoint on a real directory; observable = names left.
func implPurge(keep int, latest uint64, names []string) string {
	dir, err := mkListing(names)
	if err != nil {
		return "mkerr"
	}
	defer os.RemoveAll(dir)
	_, p := hx.Recover(func() { rockredis.VerifPurgeOldCheckpoint(keep, dir, latest) })
	if p {
		return "panic"
	}
	return "left=" + hexNames(readNames(dir))
}

// implLatest: the real GetLatestCheckpoint with a membership predicate.
func implLatest(skip int, names, match []string) string {
	dir, err := mkListing(names)
	if err != nil {
		return "mkerr"
	}
	defer os.RemoveAll(dir)
	ms := map[string]bool{}
	for _, m := range match {
		ms[m] = true
	}
	var res string
	_, p := hx.Recover(func() {
		res = rockredis.GetLatestCheckpoint(dir, skip, func(d string) bool { return ms[path.Base(d)] })
	})
	if p {
		return "panic"
	}
	if res == "" {
		return "none"
	}
	return hx.H([]byte(path.Base(res)))
}

func implLess(a, b string) string {
	var r bool
	_, p := hx.Recover(func() { r = rockredis.CheckpointSortNames([]string{a, b}).Less(0, 1) })
	if p {
		return "panic"
	}
	if r {
		return "1"
	}
	return "0"
}

// ---------- restore file plan on crafted directories (mem engine: any file set is a valid checkpoint) ----------

type fent struct {
	name             string
	dir              bool
	size, head, tail int
	ino              int // > 0: entries of the data dir and the checkpoint dir with the same ino are one hard-linked file
}

const footer = 256 * 1024

func content(size, head, tail int) []byte {
	bs := make([]byte, size)
	cut := size - footer
	for i := range bs {
		if i < cut {
			bs[i] = byte(head)
		} else {
			bs[i] = byte(tail)
		}
	}
	return bs
}

func (f fent) String() string {
	k := "f"
	if f.dir {
		k = "d"
	}
	return fmt.Sprintf("%s:%s:%d:%d:%d:%d", hx.H([]byte(f.name)), k, f.size, f.head, f.tail, f.ino)
}

func parseFents(s string) []fent {
	if s == "" || s == "-" {
		return nil
	}
	var out []fent
	for _, e := range strings.Split(s, ",") {
		p := strings.Split(e, ":")
		f := fent{name: string(hx.UnH(p[0])), dir: p[1] == "d"}
		f.size, _ = strconv.Atoi(p[2])
		f.head, _ = strconv.Atoi(p[3])
		f.tail, _ = strconv.Atoi(p[4])
		f.ino, _ = strconv.Atoi(p[5])
		out = append(out, f)
	}
	return out
}

func fentsStr(l []fent) string {
	if len(l) == 0 {
		return "-"
	}
	p := make([]string, len(l))
	for i, f := range l {
		p[i] = f.String()
	}
	return strings.Join(p, ",")
}

var planNames = []string{"000001.sst", "000002.sst", "000003.sst", "000004.sst", "MANIFEST-000001", "MANIFEST-000007", "CURRENT",
	"OPTIONS-000005", "LOG", "LOG.old.1", "LOGx.sst", "000004.log", "a.sst.tmp", ".sst", "IDENTITY", "x", "sstfile", "Log"}
var planDirs = []string{"sub", "LOGdir", "lost+found"}
var planSizes = []int{0, 1, 100, 4096, footer, footer + 1, footer + 100}

func genPlan(r *hx.Rng) (cur, ck []fent) {
	ino := 1
	mk := func(n string) fent {
		f := fent{name: n, size: planSizes[r.Pick(4)], tail: 1 + r.Pick(3)}
		if r.Chance(0.12) {
			f.size = planSizes[4+r.Pick(3)]
		}
		if f.size > footer {
			f.head = 1 + r.Pick(3)
		}
		if f.size == 0 {
			f.tail = 0
		}
		return f
	}
	for _, n := range planNames {
		if r.Chance(0.45) {
			ck = append(ck, mk(n))
		}
	}
	if r.Chance(0.06) {
		ck = append(ck, fent{name: planDirs[r.Pick(len(planDirs))], dir: true})
	}
	for _, n := range planNames {
		if !r.Chance(0.5) {
			continue
		}
		f := mk(n)
		for k := range ck {
			if ck[k].name == n && !ck[k].dir {
				switch r.Pick(4) {
				case 0: // the same file (hard link), as after a backup or an earlier restore
					f = ck[k]
					f.ino = ino
					ck[k].ino = ino
					ino++
				case 1: // same size and footer, different inode; the body may differ
					f.size, f.tail = ck[k].size, ck[k].tail
					if f.size > footer {
						f.head = 1 + r.Pick(3)
					} else {
						f.head = 0
					}
				}
			}
		}
		cur = append(cur, f)
	}
	for _, n := range planDirs {
		if r.Chance(0.15) {
			cur = append(cur, fent{name: n, dir: true})
		}
	}
	sortFents(cur)
	sortFents(ck)
	return
}

func sortFents(l []fent) { sort.Slice(l, func(i, j int) bool { return l[i].name < l[j].name }) }

func materialise(dir string, l []fent, linkFrom string, other []fent) error {
	for _, f := range l {
		p := path.Join(dir, f.name)
		if f.dir {
			if err := os.Mkdir(p, 0755); err != nil {
				return err
			}
			ioutil.WriteFile(path.Join(p, "inner"), []byte("x"), 0644)
			continue
		}
		linked := false
		if f.ino > 0 && linkFrom != "" {
			for _, o := range other {
				if o.ino == f.ino {
					if err := os.Link(path.Join(linkFrom, o.name), p); err != nil {
						return err
					}
					linked = true
				}
			}
		}
		if !linked {
			if err := ioutil.WriteFile(p, content(f.size, f.head, f.tail), 0644); err != nil {
				return err
			}
		}
	}
	return nil
}

// observe: read a directory back into the abstract form; L (ino field) = 1 when the entry is the
// same file as the entry of that name in ref.
func observe(dir, ref string) string {
	ents, err := ioutil.ReadDir(dir)
	if err != nil {
		return "unreadable"
	}
	var out []string
	for _, e := range ents {
		if e.Name() == "mem.dat" {
			continue
		}
		if e.IsDir() {
			out = append(out, fmt.Sprintf("%s:d", hx.H([]byte(e.Name()))))
			continue
		}
		bs, err := ioutil.ReadFile(path.Join(dir, e.Name()))
		if err != nil {
			out = append(out, hx.H([]byte(e.Name()))+":unreadable")
			continue
		}
		head, tail := 0, 0
		if len(bs) > 0 {
			tail = int(bs[len(bs)-1])
		}
		if len(bs) > footer {
			head = int(bs[0])
		}
		if !bytes.Equal(bs, content(len(bs), head, tail)) {
			out = append(out, hx.H([]byte(e.Name()))+":corrupt")
			continue
		}
		l := 0
		if ref != "" {
			a, e1 := os.Stat(path.Join(dir, e.Name()))
			b, e2 := os.Stat(path.Join(ref, e.Name()))
			if e1 == nil && e2 == nil && os.SameFile(a, b) {
				l = 1
			}
		}
		out = append(out, fmt.Sprintf("%s:f:%d:%d:%d:%d", hx.H([]byte(e.Name())), len(bs), head, tail, l))
	}
	if len(out) == 0 {
		return "-"
	}
	return strings.Join(out, ",")
}

// implPlan: the real RockDB.Restore (restoreFromPath) on a mem-engine store whose data directory
// and checkpoint directory hold the given files.
func implPlan(cur, ck []fent) string {
	dir, err := os.MkdirTemp("", "verif-ckpt-plan-")
	if err != nil {
		return "mkerr"
	}
	defer os.RemoveAll(dir)
	st, err := openStore(dir, "mem", 0)
	if err != nil {
		return "openerr"
	}
	defer st.close()
	dataDir := st.db().GetDataDir()
	ckDir := path.Join(st.db().GetBackupDir(), ckName(1, 1))
	if err := os.MkdirAll(ckDir, 0755); err != nil {
		return "mkerr"
	}
	if err := materialise(ckDir, ck, "", nil); err != nil {
		return "mkerr " + err.Error()
	}
	if err := materialise(dataDir, cur, ckDir, ck); err != nil {
		return "mkerr " + err.Error()
	}
	res := "ok"
	_, p := hx.Recover(func() {
		if err := st.db().Restore(1, 1); err != nil {
			res = "err"
		}
	})
	if p {
		res = "panic"
	}
	return res + " data=" + observe(dataDir, ckDir) + " ck=" + observe(ckDir, "")
}
