package main

import (
	"fmt"
	"io/ioutil"
	"os"
	"path"
	"strings"
	"time"

	"verif/harness/internal/hx"
)

// fillBig: n keys with values of valKB kilobytes (set commands), plus a few typed writes
func fillBig(st *store, tag string, n, valKB int, seed int64) {
	r := hx.NewRng(seed)
	for k := 0; k < n; k++ {
		val := r.Bytes(valKB*1024+r.Pick(512), []byte("abcdefghijklmnopqrstuvwxyz0123456789"))
		st.write([][][]byte{{b("set"), b(fmt.Sprintf("t0:%s%04d", tag, k)), val}}, false)
	}
	var cmds [][][]byte
	for k := 0; k < 8; k++ {
		cmds = append(cmds, genWriteNoHLL(r))
	}
	st.write(cmds, false)
}

// remoteSources (case kind RS): stores A and B (two source clusters) each hold a checkpoint named
// (2,7) with different content. Store C gets ProposeOp_TransferRemoteSnap + ProposeOp_ApplyRemoteSnap
// from A; the request from A is repeated after A's checkpoint is gone (must not fetch, must still
// apply A's); then the same from B. Output: from<X>=<transfer>/<apply>:<whose content C holds>.
func remoteSources(eng string, seed int64) string {
	base, err := os.MkdirTemp("", "verif-ckpt-rs-")
	if err != nil {
		return "mkerr"
	}
	defer os.RemoveAll(base)
	var st [3]*store
	for k := range st {
		st[k], err = openStore(path.Join(base, fmt.Sprintf("n%d", k), "ns-0"), eng, 0)
		if err != nil {
			return "openerr"
		}
		defer st[k].close()
	}
	a, bb, c := st[0], st[1], st[2]
	childFill(a, 40, seed)
	childFill(bb, 70, seed+1)
	childFill(c, 10, seed+2)
	va, vb := a.valueID(), bb.valueID()
	for _, s := range []*store{a, bb} {
		if s.backupStart(2, 7) != "ok" || s.backupFinish() != "ok" {
			return "setup-failed"
		}
	}
	who := func() string {
		switch c.valueID() {
		case va:
			return "A"
		case vb:
			return "B"
		}
		return "other"
	}
	t1 := c.transferRemoteFrom(a, 2, 7)
	a1 := c.restoreRemote(2, 7)
	w1 := who()
	os.RemoveAll(path.Join(a.db().GetBackupDir(), ckName(2, 7)))
	childFill(c, 5, seed+3)
	t2 := c.transferRemoteFrom(a, 2, 7)
	a2 := c.restoreRemote(2, 7)
	w2 := who()
	childFill(c, 5, seed+4)
	t3 := c.transferRemoteFrom(bb, 2, 7)
	a3 := c.restoreRemote(2, 7)
	w3 := who()
	return fmt.Sprintf("fromA=%s/%s:%s repeatA=%s/%s:%s fromB=%s/%s:%s", t1, a1, w1, t2, a2, w2, t3, a3, w3)
}

// sizeClass (case kind MS): a store whose checkpoint is about totalKB big (values of valKB KB): Backup,
// further writes, Restore, dump; further writes, Restore again, dump. For the mem engine the
// checkpoint is one dump file: sizes just below / above 1 MiB and of a few MiB are the classes.
func sizeClass(eng string, totalKB, valKB int, seed int64) string {
	dir, err := os.MkdirTemp("", "verif-ckpt-ms-")
	if err != nil {
		return "mkerr"
	}
	defer os.RemoveAll(dir)
	st, err := openStore(dir, eng, 0)
	if err != nil {
		return "openerr"
	}
	defer st.close()
	fillBig(st, "big", totalKB/valKB, valKB, seed)
	want := st.valueID()
	bk := st.backupStart(3, 9)
	if bk == "ok" {
		bk = st.backupFinish()
	}
	one := func() string {
		fillBig(st, "more", 2, valKB, seed+9)
		r := st.restore(3, 9)
		if r == "ok" {
			if st.valueID() == want {
				return "ok:exact"
			}
			return "ok:WRONG-content"
		}
		return r + ":-"
	}
	r1 := one()
	r2 := one()
	return fmt.Sprintf("backup=%s restore=%s again=%s", bk, r1, r2)
}

// crashRemoteRestore (case kind CRR): store C holds its OWN checkpoint (2,7) (content L) and, in
// rocksdb_backup/remote, the snapshot (2,7) transferred from store A (content R). A child process
// applies the remote snapshot (ProposeOp_ApplyRemoteSnap = RestoreFromRemoteBackup) and is killed
// inside restoreFromPath. The reopened store must hold all of its old content or all of R — not L.
func crashRemoteRestore(eng, point string, seed int64) string {
	base, err := os.MkdirTemp("", "verif-ckpt-crr-")
	if err != nil {
		return "mkerr"
	}
	defer os.RemoveAll(base)
	dirA, dirC := path.Join(base, "n0", "ns-0"), path.Join(base, "n2", "ns-0")
	a, err := openStore(dirA, eng, 0)
	if err != nil {
		return "openerr"
	}
	c, err := openStore(dirC, eng, 0)
	if err != nil {
		a.close()
		return "openerr"
	}
	childFill(a, 300, seed)
	childFill(c, 200, seed+1)
	vr, vl := a.valueID(), c.valueID()
	ok := a.backupStart(2, 7) == "ok" && a.backupFinish() == "ok" && c.backupStart(2, 7) == "ok" && c.backupFinish() == "ok" &&
		c.transferRemoteFrom(a, 2, 7) == "ok"
	remoteCk := path.Join(c.db().GetBackupDirForRemote(), ckName(2, 7))
	a.close()
	c.close()
	if !ok {
		return "setup-failed"
	}
	dg := dirDigest(remoteCk)
	var env []string
	var delay time.Duration = -1
	if strings.HasPrefix(point, "t") {
		var us int
		fmt.Sscan(point[1:], &us)
		delay = time.Duration(us) * time.Microsecond
	} else {
		env = []string{"VERIF_CRASH=" + point + ":1"}
	}
	ch, err := startChild(env, "restoreremote", dirC, eng, fmt.Sprint(seed))
	if err != nil {
		return "starterr"
	}
	if delay >= 0 && waitFile(path.Join(dirC, "ready"), 60*time.Second) {
		time.Sleep(delay)
		ch.kill()
	}
	how := ch.wait(120 * time.Second)
	st, err := openStore(dirC, eng, 0)
	if err != nil {
		return how + " store-does-not-open"
	}
	defer st.close()
	pre := readStr(path.Join(dirC, "prerestore.txt"))
	atOpen := "open=OTHER-content"
	switch v := st.valueID(); {
	case v == vr:
		atOpen = "open=restored"
	case v == pre:
		atOpen = "open=pre-restore"
	case v == vl:
		atOpen = "open=LOCAL-checkpoint-content"
	case eng == "mem":
		atOpen = "open=mem"
	}
	// the raft log replays the apply request after the restart
	if r := st.restoreRemote(2, 7); r != "ok" {
		return how + " " + atOpen + " apply-again-" + r
	}
	res := "restart-restores-exactly"
	if st.valueID() != vr {
		res = "restart-WRONG-content"
	}
	ck := "checkpoint-unchanged"
	if dirDigest(remoteCk) != dg {
		ck = "checkpoint-CHANGED"
	}
	return how + " " + atOpen + " " + res + " " + ck
}

func childRestoreRemote(a []string) {
	dir, eng := a[0], a[1]
	var seed int64
	fmt.Sscan(a[2], &seed)
	st, err := openStore(dir, eng, 0)
	if err != nil {
		os.Exit(3)
	}
	childFill(st, 64, seed+7)
	ioutil.WriteFile(path.Join(dir, "prerestore.txt"), []byte(st.valueID()), 0644)
	ioutil.WriteFile(path.Join(dir, "ready"), nil, 0644)
	res := st.restoreRemote(2, 7)
	ioutil.WriteFile(path.Join(dir, "done"), []byte(res), 0644)
	st.close()
}
