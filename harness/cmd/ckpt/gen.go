package main

import (
	"fmt"
	"strconv"
	"strings"

	"verif/harness/internal/hx"
)

func b(s string) []byte { return []byte(s) }

func key(r *hx.Rng, kind string) []byte {
	return b(fmt.Sprintf("t%d:%s%d", r.Pick(2), kind, r.Pick(3)))
}

func val(r *hx.Rng) []byte {
	switch r.Pick(4) {
	case 0:
		return b(strconv.Itoa(r.Pick(1000)))
	case 1:
		return r.Bytes(1+r.Pick(12), nil)
	case 2:
		return r.Bytes(200+r.Pick(800), []byte("abcdefgh"))
	default:
		return b(fmt.Sprintf("v%d", r.Pick(50)))
	}
}

func ttl(r *hx.Rng) []byte { return b(strconv.Itoa(7200 + r.Pick(100000))) }

// genWrite: one redis write command of a random data type (KV incl. INCR counters and TTLs,
// hash, list, set, zset, HyperLogLog, bitmap), args[1] = "table:key".
func genWrite(r *hx.Rng) [][]byte {
	m := func(i int) []byte { return b(fmt.Sprintf("m%d", r.Pick(i))) }
	switch r.Pick(40) {
	case 0, 1, 2:
		return [][]byte{b("set"), key(r, "k"), val(r)}
	case 3:
		return [][]byte{b("setex"), key(r, "k"), ttl(r), val(r)}
	case 4, 5, 6:
		return [][]byte{b("incr"), key(r, "c")}
	case 7:
		return [][]byte{b("incrby"), key(r, "c"), b(strconv.Itoa(r.Pick(2000) - 1000))}
	case 8:
		return [][]byte{b("del"), key(r, "k")}
	case 9:
		return [][]byte{b("expire"), key(r, "k"), ttl(r)}
	case 10:
		return [][]byte{b("persist"), key(r, "k")}
	case 11:
		return [][]byte{b("append"), key(r, "k"), val(r)}
	case 12, 13:
		return [][]byte{b("hset"), key(r, "h"), m(5), val(r)}
	case 14:
		return [][]byte{b("hmset"), key(r, "h"), m(5), val(r), m(5), val(r)}
	case 15:
		return [][]byte{b("hdel"), key(r, "h"), m(5)}
	case 16:
		return [][]byte{b("hincrby"), key(r, "h"), b("cnt"), b(strconv.Itoa(r.Pick(100)))}
	case 17:
		return [][]byte{b("hexpire"), key(r, "h"), ttl(r)}
	case 18:
		return [][]byte{b("hclear"), key(r, "h")}
	case 19, 20:
		return [][]byte{b("lpush"), key(r, "l"), val(r)}
	case 21:
		return [][]byte{b("rpush"), key(r, "l"), val(r), val(r)}
	case 22:
		return [][]byte{b("lpop"), key(r, "l")}
	case 23:
		return [][]byte{b("rpop"), key(r, "l")}
	case 24:
		return [][]byte{b("ltrim"), key(r, "l"), b("0"), b(strconv.Itoa(r.Pick(4)))}
	case 25:
		return [][]byte{b("lexpire"), key(r, "l"), ttl(r)}
	case 26, 27:
		return [][]byte{b("sadd"), key(r, "s"), m(6), m(6)}
	case 28:
		return [][]byte{b("srem"), key(r, "s"), m(6)}
	case 29:
		return [][]byte{b("sexpire"), key(r, "s"), ttl(r)}
	case 30:
		return [][]byte{b("sclear"), key(r, "s")}
	case 31, 32:
		return [][]byte{b("zadd"), key(r, "z"), b(strconv.Itoa(r.Pick(100))), m(6)}
	case 33:
		return [][]byte{b("zincrby"), key(r, "z"), b(strconv.Itoa(r.Pick(10))), m(6)}
	case 34:
		return [][]byte{b("zrem"), key(r, "z"), m(6)}
	case 35:
		return [][]byte{b("zexpire"), key(r, "z"), ttl(r)}
	case 36, 37:
		return [][]byte{b("pfadd"), key(r, "p"), val(r), m(50)}
	case 38:
		return [][]byte{b("setbit"), key(r, "b"), b(strconv.Itoa(r.Pick(5000))), b("1")}
	default:
		return [][]byte{b("getset"), key(r, "k"), val(r)}
	}
}

func encCmds(cmds [][][]byte) string {
	p := make([]string, len(cmds))
	for i, c := range cmds {
		q := make([]string, len(c))
		for j, a := range c {
			q[j] = hx.H(a)
		}
		p[i] = strings.Join(q, ".")
	}
	return strings.Join(p, ";")
}

func decCmds(s string) [][][]byte {
	if s == "" || s == "-" {
		return nil
	}
	var out [][][]byte
	for _, c := range strings.Split(s, ";") {
		var cmd [][]byte
		for _, a := range strings.Split(c, ".") {
			cmd = append(cmd, hx.UnH(a))
		}
		out = append(out, cmd)
	}
	return out
}

// op of a value-level trace. Kinds: W writes, B backup start (+WaitReady), G backup result,
// R restore, Y copy checkpoint to the other store, S set latest snapshot index, O IsLocalBackupOK,
// X compact all, Z close+reopen.
type op struct {
	kind  string
	s     int // store 0/1
	t, i  uint64
	cmds  [][][]byte
	share bool
}

func (o op) skeleton() string {
	switch o.kind {
	case "W":
		sh := "0"
		if o.share {
			sh = "1"
		}
		return fmt.Sprintf("W\t%d\t%s\t%s", o.s, sh, encCmds(o.cmds))
	case "B", "R", "Y", "O", "F", "V", "M":
		return fmt.Sprintf("%s\t%d\t%x\t%x", o.kind, o.s, o.t, o.i)
	case "S":
		return fmt.Sprintf("S\t%d\t%x", o.s, o.i)
	default:
		return fmt.Sprintf("%s\t%d", o.kind, o.s)
	}
}

type trace struct {
	eng  string
	keep [2]int
	ops  []op
}

// genTrace: random history on two stores. small=true uses a small KeepBackup so that the purge in
// backupLoop / restoreFromPath really removes checkpoints; every G is then followed by Z (close +
// reopen waits for the asynchronous purge, so the directory listing is observed at a quiescent point).
func genTrace(r *hx.Rng, eng string, n int, small bool) trace {
	tr := trace{eng: eng}
	if small {
		tr.keep = [2]int{1 + r.Pick(3), 1 + r.Pick(3)}
	}
	type ck struct{ t, i uint64 }
	var made [2][]ck
	var rmade [2][]ck // checkpoints copied into the store's directory for remote checkpoints
	var pend [2]bool
	term := uint64(1 + r.Pick(3))
	idx := [2]uint64{uint64(1 + r.Pick(5)), uint64(1 + r.Pick(5))}
	nb := [2]int{}
	wr := func(s int) op {
		var cmds [][][]byte
		for k := 1 + r.Pick(6); k > 0; k-- {
			cmds = append(cmds, genWrite(r))
		}
		idx[s] += uint64(len(cmds))
		return op{kind: "W", s: s, cmds: cmds, share: r.Chance(0.3)}
	}
	pick := func(s int) (ck, bool) {
		if len(made[s]) == 0 || r.Chance(0.08) {
			return ck{uint64(1 + r.Pick(3)), uint64(1 + r.Pick(40))}, false
		}
		return made[s][r.Pick(len(made[s]))], true
	}
	tr.ops = append(tr.ops, wr(0), wr(1))
	for len(tr.ops) < n {
		s := 0
		if r.Chance(0.35) {
			s = 1
		}
		c := r.Pick(100)
		switch {
		case pend[s]:
			if c < 55 {
				tr.ops = append(tr.ops, wr(s))
			} else {
				tr.ops = append(tr.ops, op{kind: "G", s: s})
				pend[s] = false
				if small {
					tr.ops = append(tr.ops, op{kind: "Z", s: s})
				}
			}
		case c < 32:
			tr.ops = append(tr.ops, wr(s))
		case c < 48:
			if !small && nb[s] >= 8 {
				tr.ops = append(tr.ops, wr(s))
				continue
			}
			if r.Chance(0.2) {
				term++
			}
			k := ck{term, idx[s]}
			if r.Chance(0.1) && len(made[s]) > 0 {
				k = made[s][r.Pick(len(made[s]))] // overwrite an existing checkpoint name
			}
			if small && r.Chance(0.7) {
				// the latest snapshot index recorded so far: without it nothing is ever purged
				li := uint64(r.Pick(int(idx[s]) + 3))
				if r.Chance(0.5) {
					li = idx[s] + uint64(r.Pick(50))
				}
				tr.ops = append(tr.ops, op{kind: "S", s: s, i: li})
			}
			if r.Chance(0.6) {
				// HyperLogLog writes that are still only in the write cache when the backup begins
				tr.ops = append(tr.ops, op{kind: "W", s: s, cmds: pfBurst(r, 1+r.Pick(10), 1+r.Pick(20), "w")})
			}
			tr.ops = append(tr.ops, op{kind: "B", s: s, t: k.t, i: k.i})
			made[s] = append(made[s], k)
			nb[s]++
			pend[s] = true
		case c < 66:
			if len(made[s]) == 0 && !r.Chance(0.15) {
				tr.ops = append(tr.ops, wr(s)) // nothing to restore yet
				continue
			}
			k, _ := pick(s)
			if r.Chance(0.3) {
				// and right before a restore (closing the engine flushes the cache)
				tr.ops = append(tr.ops, op{kind: "W", s: s, cmds: pfBurst(r, 1+r.Pick(34), 1+r.Pick(40), "r")})
			}
			tr.ops = append(tr.ops, op{kind: "R", s: s, t: k.t, i: k.i})
			if r.Chance(0.3) {
				tr.ops = append(tr.ops, op{kind: "R", s: s, t: k.t, i: k.i}) // repeated restore
			}
		case c < 72:
			if pend[1-s] || (!small && nb[1-s] >= 8) {
				continue
			}
			k, _ := pick(s)
			tr.ops = append(tr.ops, op{kind: "Y", s: s, t: k.t, i: k.i})
			made[1-s] = append(made[1-s], k)
			nb[1-s]++
			if r.Chance(0.7) {
				tr.ops = append(tr.ops, op{kind: "R", s: 1 - s, t: k.t, i: k.i})
			}
		case c < 75:
			k, _ := pick(s)
			tr.ops = append(tr.ops, op{kind: "O", s: s, t: k.t, i: k.i})
		case c < 81:
			// fetch through PrepareSnapshot from the other store: only names the source really holds
			// (a peer without the backup makes PrepareSnapshot retry for seconds)
			if small || pend[1-s] || len(made[1-s]) == 0 || nb[s] >= 8 {
				continue
			}
			k := made[1-s][r.Pick(len(made[1-s]))]
			tr.ops = append(tr.ops, op{kind: "F", s: s, t: k.t, i: k.i})
			made[s] = append(made[s], k)
			nb[s]++
			if r.Chance(0.8) {
				tr.ops = append(tr.ops, op{kind: "R", s: s, t: k.t, i: k.i})
			}
		case c < 86:
			// transfer into the other store's remote directory and apply it there. At most 3 per
			// store unless the trace has the purge barrier: the purge of that directory keeps 3.
			if pend[1-s] || len(made[s]) == 0 || (!small && len(rmade[1-s]) >= 3) {
				continue
			}
			k, _ := pick(s)
			tr.ops = append(tr.ops, op{kind: "V", s: s, t: k.t, i: k.i})
			rmade[1-s] = append(rmade[1-s], k)
			if r.Chance(0.7) {
				tr.ops = append(tr.ops, op{kind: "M", s: 1 - s, t: k.t, i: k.i})
			}
		case c < 88:
			if len(rmade[s]) == 0 {
				continue
			}
			k := rmade[s][r.Pick(len(rmade[s]))]
			tr.ops = append(tr.ops, op{kind: "M", s: s, t: k.t, i: k.i})
		case c < 92:
			tr.ops = append(tr.ops, op{kind: "X", s: s})
		case c < 96:
			if eng == "mem" {
				continue // the mem engine keeps nothing across a reopen (only a restore writes its data file)
			}
			tr.ops = append(tr.ops, op{kind: "Z", s: s})
		default:
			tr.ops = append(tr.ops, op{kind: "S", s: s, i: uint64(r.Pick(60))})
		}
	}
	for s := 0; s < 2; s++ {
		if pend[s] {
			tr.ops = append(tr.ops, op{kind: "G", s: s})
			if small {
				tr.ops = append(tr.ops, op{kind: "Z", s: s})
			}
		}
	}
	return tr
}
