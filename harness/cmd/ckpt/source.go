package main

import (
	"fmt"
	"io/ioutil"
	"net"
	"net/http"
	"strconv"
	"strings"

	"github.com/youzan/ZanRedisDB/common"
	"github.com/youzan/ZanRedisDB/node"
	"github.com/youzan/ZanRedisDB/raft/raftpb"
	"verif/harness/internal/hx"
)

// case kind G: node.GetValidBackupInfo — which peer a replica fetches a snapshot from.
// A peer: replica id, address ("127.0.0.1" = this host, "localhost" = another host that the sandbox
// can still reach), data root, rsync module, answer (1 = has the backup of exactly the requested
// (term,index), 0 = 404, x = nobody listens on its port).
type gpeer struct {
	replica      uint64
	addr, root   string
	module, answ string
}

func genPeers(r *hx.Rng) (peers []gpeer, localID uint64, retry int, rsyncLocal bool) {
	localID = uint64(1 + r.Pick(3))
	for k := r.Pick(6); k > 0; k-- {
		p := gpeer{replica: uint64(1 + r.Pick(5)), addr: "127.0.0.1", root: []string{"/mine", "/d1", "/d2"}[r.Pick(3)],
			module: []string{"m1", "m2", "mod3"}[r.Pick(3)], answ: "1"}
		if r.Chance(0.4) {
			p.addr = "localhost"
		}
		if r.Chance(0.3) {
			p.answ = "0"
		} else if r.Chance(0.1) {
			p.answ = "x"
		}
		peers = append(peers, p)
	}
	return peers, localID, r.Pick(7), r.Chance(0.3)
}

func peersStr(l []gpeer) string {
	if len(l) == 0 {
		return "-"
	}
	p := make([]string, len(l))
	for i, g := range l {
		p[i] = fmt.Sprintf("%d:%s:%s:%s:%s", g.replica, hx.H([]byte(g.addr)), hx.H([]byte(g.root)), hx.H([]byte(g.module)), g.answ)
	}
	return strings.Join(p, ",")
}

func parsePeers(s string) []gpeer {
	if s == "-" || s == "" {
		return nil
	}
	var out []gpeer
	for _, e := range strings.Split(s, ",") {
		f := strings.Split(e, ":")
		id, _ := strconv.ParseUint(f[0], 10, 64)
		out = append(out, gpeer{replica: id, addr: string(hx.UnH(f[1])), root: string(hx.UnH(f[2])), module: string(hx.UnH(f[3])), answ: f[4]})
	}
	return out
}

// implSource runs the real GetValidBackupInfo against one HTTP stub per peer. A stub answers 200
// only when the request is the one the production code must send: GET /cluster/checkbackup/<ns>
// with the marshalled raft snapshot of exactly (term,index).
func implSource(peers []gpeer, localID uint64, retry int, rsyncLocal bool, term, index uint64) string {
	ns := "ns-0"
	var infos []common.SnapshotSyncInfo
	var srvs []*http.Server
	defer func() {
		for _, s := range srvs {
			s.Close()
		}
	}()
	wrong := false
	// all listeners first: the port of an unreachable peer (closed below) must not be handed to another stub
	lns := make([]net.Listener, len(peers))
	for k := range peers {
		ln, err := net.Listen("tcp", "127.0.0.1:0")
		if err != nil {
			return "listenerr"
		}
		lns[k] = ln
	}
	for k, p := range peers {
		p := p
		ln := lns[k]
		port := ln.Addr().(*net.TCPAddr).Port
		if p.answ == "x" {
			// a peer that cannot be talked to: the connection is dropped without an answer (the port
			// stays bound, so that nobody else can appear behind it)
			go func() {
				for {
					c, err := ln.Accept()
					if err != nil {
						return
					}
					c.Close()
				}
			}()
			defer ln.Close()
		} else {
			mux := http.NewServeMux()
			mux.HandleFunc("/", func(w http.ResponseWriter, r *http.Request) {
				body, _ := ioutil.ReadAll(r.Body)
				var snap raftpb.Snapshot
				if r.Method != "GET" || r.URL.Path != common.APICheckBackup+"/"+ns || snap.Unmarshal(body) != nil ||
					snap.Metadata.Term != term || snap.Metadata.Index != index {
					wrong = true
					w.WriteHeader(400)
					return
				}
				if p.answ == "1" {
					w.WriteHeader(200)
				} else {
					w.WriteHeader(404)
				}
			})
			s := &http.Server{Handler: mux}
			srvs = append(srvs, s)
			go s.Serve(ln)
		}
		infos = append(infos, common.SnapshotSyncInfo{ReplicaID: p.replica, NodeID: p.replica, RemoteAddr: p.addr,
			HttpAPIPort: strconv.Itoa(port), DataRoot: p.root, RsyncModule: p.module})
	}
	var snap raftpb.Snapshot
	snap.Metadata.Term, snap.Metadata.Index = term, index
	mc := node.MachineConfig{BroadcastAddr: "127.0.0.1", DataRootDir: "/mine"}
	var a, d string
	_, pn := hx.Recover(func() {
		a, d = node.GetValidBackupInfo(mc, &fakeCluster{infos: infos}, ns, localID, make(chan struct{}), snap, retry, rsyncLocal)
	})
	if pn {
		return "panic"
	}
	if wrong {
		return "wrong-request"
	}
	if a == "" && d == "" {
		return "none"
	}
	return hx.H([]byte(a)) + " " + hx.H([]byte(d))
}
