package main

import (
	"crypto/sha1"
	"encoding/hex"
	"fmt"
	"io/ioutil"
	"os"
	"path"
	"sort"
	"strings"
	"time"

	"github.com/youzan/ZanRedisDB/common"
	"github.com/youzan/ZanRedisDB/engine"
	"github.com/youzan/ZanRedisDB/node"
	"github.com/youzan/ZanRedisDB/pkg/wait"
	"github.com/youzan/ZanRedisDB/raft/raftpb"
	"github.com/youzan/ZanRedisDB/rockredis"
	"verif/harness/internal/hx"
	"verif/harness/internal/smx"
)

// store is one REAL node.StateMachine (kvStoreSM over rockredis.RockDB) in its own directory.
// Writes go through ApplyRaftRequest (smx.Apply), snapshots through GetSnapshot /
// RestoreFromSnapshot / UpdateSnapshotState, exactly the calls the raft apply loop makes.
type store struct {
	dir     string
	eng     string
	keep    int
	x       *smx.SM
	pending *node.KVSnapInfo // backup started (WaitReady returned), result not collected yet
	pname   string
	latest  uint64 // last value given to UpdateSnapshotState (kept in memory only by RockDB)
	mc      node.MachineConfig
	ci      common.IClusterInfo
	reqID   uint64
}

// smallWriteBuffer > 0: stores are opened with this write buffer size (set around the HR cases only)
var smallWriteBuffer = 0

var baseTs = time.Now().UnixNano()
var tsCounter int64

func nextTs() int64 { tsCounter++; return baseTs + tsCounter*1000 }

// cluster view of a follower: where the snapshot source keeps its data (same host, other data root)
type fakeCluster struct{ infos []common.SnapshotSyncInfo }

func (f *fakeCluster) GetClusterName() string { return "verif" }
func (f *fakeCluster) GetSnapshotSyncInfo(fullNS string) ([]common.SnapshotSyncInfo, error) {
	return f.infos, nil
}
func (f *fakeCluster) UpdateMeForNamespaceLeader(fullNS string) (bool, error) { return true, nil }

func openStore(dir, eng string, keep int) (*store, error) {
	return openStoreCluster(dir, eng, keep, node.MachineConfig{}, nil)
}

func openStoreCluster(dir, eng string, keep int, mc node.MachineConfig, ci common.IClusterInfo) (st *store, err error) {
	// a Go panic while the store opens (for example while the engine loads a restored checkpoint)
	// is an outcome of the code under test, not a reason for the harness to die
	defer func() {
		if r := recover(); r != nil {
			st, err = nil, fmt.Errorf("panic while opening the store: %v", r)
		}
	}()
	return openStoreCluster0(dir, eng, keep, mc, ci)
}

func openStoreCluster0(dir, eng string, keep int, mc node.MachineConfig, ci common.IClusterInfo) (*store, error) {
	opts := &node.KVOptions{
		DataDir:          dir,
		EngType:          rockredis.EngType,
		KeepBackup:       keep,
		ExpirationPolicy: common.WaitCompact,
		DataVersion:      common.ValueHeaderV1,
	}
	opts.RockOpts.EngineType = eng
	engine.FillDefaultOptions(&opts.RockOpts)
	if smallWriteBuffer > 0 {
		// a write buffer of a few KB: the memtable fills (and the engine rolls to a new WAL file) after a handful of writes
		opts.RockOpts.WriteBufferSize = smallWriteBuffer
	}
	w := wait.New()
	var sm node.StateMachine
	var err error
	if ci == nil {
		sm, err = node.NewStateMachine(opts, mc, 1, smx.NS+"-0", nil, w, nil)
	} else {
		sm, err = node.NewStateMachine(opts, mc, 1, smx.NS+"-0", ci, w, nil)
	}
	if err != nil {
		return nil, err
	}
	x := &smx.SM{SM: sm, W: w, Dir: dir, Engine: eng, Policy: "compact"}
	x.Store = node.VerifStore(sm)
	x.RN = node.VerifReadNode(sm)
	if x.Store == nil || x.RN == nil {
		return nil, fmt.Errorf("not a kv state machine")
	}
	return &store{dir: dir, eng: eng, keep: keep, x: x, mc: mc, ci: ci}, nil
}

func (s *store) close() {
	func() {
		defer func() { recover() }()
		s.x.SM.Close()
	}()
}

// reopen: Close waits for the backup goroutine (its purge included), then the same directory is opened again.
func (s *store) reopen() (err error) {
	defer func() {
		if r := recover(); r != nil {
			err = fmt.Errorf("panic: %v", r)
		}
	}()
	s.close()
	n, err := openStoreCluster(s.dir, s.eng, s.keep, s.mc, s.ci)
	if err != nil {
		return err
	}
	s.x = n.x
	// the raft layer tells the state machine the latest snapshot again when it reloads it
	s.x.SM.UpdateSnapshotState(1, s.latest)
	return nil
}

func (s *store) setLatest(i uint64) {
	s.latest = i
	s.x.SM.UpdateSnapshotState(1, i)
}

func (s *store) db() *rockredis.RockDB { return s.x.Store.RockDB }

// write applies redis write commands (args[1] is "table:key") through the production apply path.
func (s *store) write(cmds [][][]byte, shared bool) {
	reqs := make([]smx.Req, len(cmds))
	for i, c := range cmds {
		reqs[i] = smx.Req{Args: c, Ts: nextTs()}
	}
	mode := smx.OnePerCall
	if shared {
		mode = smx.SharedBatch
	}
	s.x.Apply(mode, reqs)
}

// valueID: hash of the full logical content of the store: every engine key/value pair (all data
// types, expiry meta, table counters, index meta) plus the reads that may be served from an
// in-memory cache (HyperLogLog counts).
func (s *store) valueID() string {
	h := sha1.New()
	for _, l := range s.x.RawDump() {
		h.Write([]byte(l))
		h.Write([]byte{'\n'})
	}
	for t := 0; t < 2; t++ {
		for k := 0; k < 3; k++ {
			n, err := s.db().PFCount(baseTs, []byte(fmt.Sprintf("t%d:p%d", t, k)))
			fmt.Fprintf(h, "pf %d %v\n", n, err != nil)
		}
	}
	return hex.EncodeToString(h.Sum(nil))[:12]
}

func ckName(t, i uint64) string { return rockredis.GetCheckpointDir(t, i) }

// backupStart = kvStoreSM.GetSnapshot: Backup + WaitReady. A refusal ("too much backup running",
// the backup goroutine still finishing the previous request) is retried: it is not an outcome the
// property speaks about and depends on goroutine timing.
func (s *store) backupStart(t, i uint64) string {
	return guard(func() string { return s.backupStart0(t, i) })
}

func (s *store) backupStart0(t, i uint64) string {
	if s.pending != nil {
		return "busy"
	}
	for try := 0; try < 2000; try++ {
		si, err := s.x.SM.GetSnapshot(t, i)
		if err == nil {
			s.pending = si
			s.pname = ckName(t, i)
			return "ok"
		}
		time.Sleep(time.Millisecond)
	}
	return "refused"
}

// backupFinish = KVSnapInfo.GetData: wait for the copy.
func (s *store) backupFinish() string {
	return guard(func() string { return s.backupFinish0() })
}

func (s *store) backupFinish0() string {
	if s.pending == nil {
		return "none"
	}
	_, err := s.pending.GetData()
	s.pending = nil
	if err != nil {
		return "err"
	}
	return "ok"
}

// guard runs a store call; a Go panic inside the code under test becomes the outcome "panic"
func guard(f func() string) (res string) {
	defer func() {
		if r := recover(); r != nil {
			res = "panic"
		}
	}()
	return f()
}

func (s *store) restore(t, i uint64) string {
	return guard(func() string { return s.restore0(t, i) })
}

func (s *store) restore0(t, i uint64) string {
	var snap raftpb.Snapshot
	snap.Metadata.Term = t
	snap.Metadata.Index = i
	err := s.x.SM.RestoreFromSnapshot(snap, make(chan struct{}))
	if err == nil {
		return "ok"
	}
	if err.Error() == "no backup for restore" {
		return "nobackup"
	}
	return "err"
}

// prepare = kvStoreSM.PrepareSnapshot: what a lagging replica does before RestoreFromSnapshot when it
// has no local checkpoint of that (term,index): find a peer that has it, reuse, copy, mark the source.
func (s *store) prepare(t, i uint64) string {
	return guard(func() string { return s.prepare0(t, i) })
}

func (s *store) prepare0(t, i uint64) string {
	var snap raftpb.Snapshot
	snap.Metadata.Term = t
	snap.Metadata.Index = i
	if err := s.x.SM.PrepareSnapshot(snap, make(chan struct{})); err != nil {
		if strings.Contains(err.Error(), "no backup available") {
			return "nosrc"
		}
		return "err"
	}
	return "ok"
}

func (s *store) localOK(t, i uint64) string {
	ok, _ := s.db().IsLocalBackupOK(t, i)
	if ok {
		return "1"
	}
	return "0"
}

// listing of the backup directory: names matching the code's own glob "*-*", sorted.
func (s *store) listing() []string {
	ents, _ := ioutil.ReadDir(s.db().GetBackupDir())
	var out []string
	for _, e := range ents {
		if strings.Contains(e.Name(), "-") {
			out = append(out, e.Name())
		}
	}
	sort.Strings(out)
	return out
}

// dirDigest: hash over (name, size, content hash) of every non-LOG file of a directory.
func dirDigest(dir string) string {
	ents, err := ioutil.ReadDir(dir)
	if err != nil {
		return "unreadable"
	}
	h := sha1.New()
	for _, e := range ents {
		// LOG*: never restored; LOCK: empty lock file an engine creates when the directory is opened
		// (CheckDBEngForRead); source_node_info: written by the transfer code next to the checkpoint
		if strings.HasPrefix(e.Name(), "LOG") || e.Name() == "LOCK" || e.Name() == "source_node_info" {
			continue
		}
		if e.IsDir() {
			fmt.Fprintf(h, "%s dir\n", e.Name())
			continue
		}
		b, err := ioutil.ReadFile(path.Join(dir, e.Name()))
		if err != nil {
			fmt.Fprintf(h, "%s unreadable\n", e.Name())
			continue
		}
		fmt.Fprintf(h, "%s %d %x\n", e.Name(), len(b), sha1.Sum(b))
	}
	return hex.EncodeToString(h.Sum(nil))[:10]
}

func (s *store) digests() string {
	var p []string
	for _, n := range s.listing() {
		p = append(p, hx.H([]byte(n))+"="+dirDigest(path.Join(s.db().GetBackupDir(), n)))
	}
	return strings.Join(p, ",")
}

// remoteDigests: the directory for checkpoints transferred from another cluster (rocksdb_backup/remote)
func (s *store) remoteDigests() string {
	base := s.db().GetBackupDirForRemote()
	ents, _ := ioutil.ReadDir(base)
	var p []string
	for _, e := range ents {
		if strings.Contains(e.Name(), "-") {
			p = append(p, hx.H([]byte(e.Name()))+"="+dirDigest(path.Join(base, e.Name())))
		}
	}
	sort.Strings(p)
	if len(p) == 0 {
		return "-"
	}
	return strings.Join(p, ",")
}

// copyCkToRemote: the transfer of ProposeOp_TransferRemoteSnap with a local source: the checkpoint
// lands in the destination's rocksdb_backup/remote.
func (s *store) copyCkToRemote(d *store, t, i uint64) string {
	name := ckName(t, i)
	src := path.Join(s.db().GetBackupDir(), name)
	dstBase := d.db().GetBackupDirForRemote()
	os.MkdirAll(dstBase, common.DIR_PERM)
	os.RemoveAll(path.Join(dstBase, name))
	if _, err := os.Stat(src); err != nil {
		return "nosrc"
	}
	if err := common.RunFileSync("", src, dstBase, make(chan struct{})); err != nil {
		return "err"
	}
	return "ok"
}

// custom applies a custom raft request (node.CustomReq) through ApplyRaftRequest, as the raft apply
// loop does for the cluster-syncer's snapshot requests; returns the error ApplyRaftRequest reports.
func (s *store) custom(op int, syncAddr, syncPath string, t, i uint64) string {
	return guard(func() string {
		data := fmt.Sprintf(`{"ProposeOp":%d,"SyncAddr":%q,"SyncPath":%q,"RemoteTerm":%d,"RemoteIndex":%d}`, op, syncAddr, syncPath, t, i)
		s.reqID++
		id := 1<<40 + s.reqID
		wr := s.x.W.Register(id)
		var rl node.BatchInternalRaftRequest
		rl.ReqNum = 1
		rl.Timestamp = nextTs()
		rl.Reqs = []node.InternalRaftRequest{{Header: node.RequestHeader{ID: id, DataType: int32(node.CustomReq), Timestamp: rl.Timestamp}, Data: []byte(data)}}
		b := s.x.SM.GetBatchOperator()
		_, err := s.x.SM.ApplyRaftRequest(false, b, rl, 1, id, make(chan struct{}))
		b.CommitBatch()
		if s.x.W.IsRegistered(id) {
			s.x.W.Trigger(id, nil)
		}
		select {
		case <-wr.WaitC():
		default:
		}
		if err != nil {
			return "err"
		}
		if e, ok := wr.GetResult().(error); ok && e != nil {
			return "err"
		}
		return "ok"
	})
}

// transferRemoteFrom: ProposeOp_TransferRemoteSnap naming store src (same host) as the source
func (s *store) transferRemoteFrom(src *store, t, i uint64) string {
	return s.custom(node.ProposeOp_TransferRemoteSnap, "", src.dir, t, i)
}

// restoreRemote: ProposeOp_ApplyRemoteSnap = RockDB.RestoreFromRemoteBackup
func (s *store) restoreRemote(t, i uint64) string {
	return s.custom(node.ProposeOp_ApplyRemoteSnap, "", "", t, i)
}

// copyCkTo: what prepareSnapshotForStore does for a local source: a stale directory of the same
// name is cleaned, the checkpoint is copied with common.RunFileSync("", src, dstBackupDir).
func (s *store) copyCkTo(d *store, t, i uint64) string {
	name := ckName(t, i)
	src := path.Join(s.db().GetBackupDir(), name)
	dstBase := d.db().GetBackupDir()
	os.RemoveAll(path.Join(dstBase, name))
	if _, err := os.Stat(src); err != nil {
		return "nosrc"
	}
	// RunFileSync logs through the standard logger; silenced in main
	err := common.RunFileSync("", src, dstBase, make(chan struct{}))
	if err != nil {
		return "err"
	}
	return "ok"
}
