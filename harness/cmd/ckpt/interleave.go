package main

import (
	"fmt"
	"os"
	"sync/atomic"

	"verif/harness/internal/hx"
)

// genWriteNoHLL: like genWrite but never a HyperLogLog command, so that the content before Backup
// (whose cache flush would otherwise change the engine content) is the content at the backup instant.
func genWriteNoHLL(r *hx.Rng) [][]byte {
	for {
		c := genWrite(r)
		if string(c[0]) != "pfadd" {
			return c
		}
	}
}

// interleave (case kind I): the schedule of the production apply loop around a snapshot, many times
// on one small store:
//
//	apply some entries; dump D (= content at index i)
//	kvStoreSM.GetSnapshot(term, i)  = Backup + WaitReady       <- the apply loop is blocked in here
//	IMMEDIATELY go on applying entries i+1, i+2, ... (first through the fastest path, RockDB calls,
//	then through ApplyRaftRequest) until the copy is reported done (KVSnapInfo.GetData)
//	RestoreFromSnapshot(term, i); dump D'
//
// Judged only on the final dumps: D' = D. Returns trials, number of bad trials, first bad trial.
// junkFiles > 0: that many empty files are put into the engine's data directory before every trial
// (a restore removes them): they stand in for a very large number of sst files and make the
// engine's directory listing slow (demonstration of the rocksdb 20 ms timer, known finding K1R).
func interleave(eng string, trials int, seed int64, junkFiles int) (int, int, int, error) {
	dir, err := os.MkdirTemp("", "verif-ckpt-il-")
	if err != nil {
		return 0, 0, -1, err
	}
	defer os.RemoveAll(dir)
	st, err := openStore(dir, eng, 2)
	if err != nil {
		return 0, 0, -1, err
	}
	defer st.close()
	r := hx.NewRng(seed)
	bad, first := 0, -1
	idx := uint64(10)
	marker := []byte("t0:marker")
	cnt := []byte("t0:ilcounter")
	for t := 0; t < trials; t++ {
		if n := junkFiles; n > 0 {
			// experiment: a data directory with very many files (stands in for very many sst files);
			// a restore removes them, so they are put back before every trial
			for k := 0; k < n; k++ {
				os.WriteFile(fmt.Sprintf("%s/zz-junk-%07d.tmp", st.db().GetDataDir(), k), nil, 0644)
			}
		}
		var cmds [][][]byte
		for k := 1 + r.Pick(5); k > 0; k-- {
			cmds = append(cmds, genWriteNoHLL(r))
		}
		cmds = append(cmds, [][]byte{b("set"), marker, b(fmt.Sprintf("before-%d", t))}, [][]byte{b("incr"), cnt})
		st.write(cmds, r.Chance(0.3))
		idx += uint64(len(cmds))
		want := st.valueID()
		if res := st.backupStart(1, idx); res != "ok" {
			return t, bad, first, fmt.Errorf("backup not accepted: %s", res)
		}
		// the apply loop has been released: entries i+1.. are applied at once
		db := st.db()
		db.KVSet(nextTs(), marker, []byte(fmt.Sprintf("after-%d", t)))
		db.Incr(nextTs(), cnt)
		var fin int32
		pend := st.pending
		go func() { pend.GetData(); atomic.StoreInt32(&fin, 1) }()
		for k := 0; k < 200 && (k < 6 || atomic.LoadInt32(&fin) == 0); k++ {
			if k%2 == 0 {
				db.Incr(nextTs(), cnt)
			} else {
				st.write([][][]byte{genWriteNoHLL(r)}, false)
			}
		}
		if res := st.backupFinish(); res != "ok" {
			return t, bad, first, fmt.Errorf("backup failed: %s", res)
		}
		if res := st.restore(1, idx); res != "ok" {
			return t, bad, first, fmt.Errorf("restore failed: %s", res)
		}
		if st.valueID() != want {
			bad++
			if first < 0 {
				first = t
			}
		}
		idx++
	}
	return trials, bad, first, nil
}
