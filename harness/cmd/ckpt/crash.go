package main

import (
	"fmt"
	"io/ioutil"
	"os"
	"os/exec"
	"path"
	"strings"
	"syscall"
	"time"

	"verif/harness/internal/hx"
)

// ---------- child processes: the real code runs here and is killed (SIGKILL) by itself at a named
// crash point (common.VerifCrashPoint through VERIF_CRASH) or by the parent at a chosen moment ----------

// childMain dispatches "-child <scenario>"; args are positional.
func childMain(sc string, a []string) {
	switch sc {
	case "backup": // <dir> <eng> <fillKB> <seed>: write, record the dump, Backup(7,100), wait for the result
		dir, eng := a[0], a[1]
		var kb int
		var seed int64
		fmt.Sscan(a[2], &kb)
		fmt.Sscan(a[3], &seed)
		st, err := openStore(dir, eng, 0)
		if err != nil {
			os.Exit(3)
		}
		childFill(st, kb, seed)
		ioutil.WriteFile(path.Join(dir, "expect.txt"), []byte(st.valueID()), 0644)
		ioutil.WriteFile(path.Join(dir, "ready"), nil, 0644)
		st.backupStart(7, 100)
		res := st.backupFinish()
		ioutil.WriteFile(path.Join(dir, "done"), []byte(res), 0644)
		st.close()
	case "restore": // <dir> <eng> <seed>: more writes, then RestoreFromSnapshot(7,100)
		dir, eng := a[0], a[1]
		var seed int64
		fmt.Sscan(a[2], &seed)
		st, err := openStore(dir, eng, 0)
		if err != nil {
			os.Exit(3)
		}
		childFill(st, 64, seed+1)
		ioutil.WriteFile(path.Join(dir, "prerestore.txt"), []byte(st.valueID()), 0644)
		ioutil.WriteFile(path.Join(dir, "ready"), nil, 0644)
		res := st.restore(7, 100)
		ioutil.WriteFile(path.Join(dir, "done"), []byte(res), 0644)
		st.close()
	case "restoreremote": // <dir> <eng> <seed>: more writes, then ProposeOp_ApplyRemoteSnap (2,7)
		childRestoreRemote(a)
	case "fetch": // <base> <eng>: store 1 fetches (7,100) from store 0 through PrepareSnapshot
		p, err := openPairAt(a[0], a[1], [2]int{0, 0})
		if err != nil {
			os.Exit(3)
		}
		ioutil.WriteFile(path.Join(a[0], "ready"), nil, 0644)
		res := p.st[1].prepare(7, 100)
		ioutil.WriteFile(path.Join(a[0], "done"), []byte(res), 0644)
		p.st[0].close()
		p.st[1].close()
	default:
		os.Exit(4)
	}
}

func childFill(st *store, kb int, seed int64) {
	r := hx.NewRng(seed)
	val := make([]byte, 1024)
	for i := range val {
		val[i] = byte('a' + (i*7+int(seed))%26)
	}
	var cmds [][][]byte
	for k := 0; k < kb; k++ {
		cmds = append(cmds, [][]byte{b("set"), b(fmt.Sprintf("t0:fill%06d", k)), val})
		if len(cmds) == 256 {
			st.write(cmds, true)
			cmds = nil
		}
	}
	for k := 0; k < 12; k++ {
		cmds = append(cmds, genWriteNoHLL(r))
	}
	cmds = append(cmds, [][]byte{b("incr"), b("t0:crashcounter")})
	st.write(cmds, false)
}

type childRun struct {
	cmd  *exec.Cmd
	done chan error
}

func startChild(env []string, args ...string) (*childRun, error) {
	cmd := exec.Command(os.Args[0], append([]string{"-child"}, args...)...)
	cmd.Env = append(os.Environ(), env...)
	cmd.Stdout, cmd.Stderr = nil, nil
	cmd.SysProcAttr = &syscall.SysProcAttr{Setpgid: true} // own process group: a kill takes its cp/rsync children along
	if err := cmd.Start(); err != nil {
		return nil, err
	}
	c := &childRun{cmd: cmd, done: make(chan error, 1)}
	go func() { c.done <- cmd.Wait() }()
	return c, nil
}

// kill: SIGKILL to the whole process group (the node and the copy it started die together, as when the machine goes down)
func (c *childRun) kill() { syscall.Kill(-c.cmd.Process.Pid, syscall.SIGKILL) }

// wait returns "killed" (SIGKILL), "exit0", "exitN" or "timeout" (the child is then killed).
func (c *childRun) wait(d time.Duration) string {
	select {
	case err := <-c.done:
		if err == nil {
			return "exit0"
		}
		if ee, ok := err.(*exec.ExitError); ok {
			if ws, ok := ee.Sys().(syscall.WaitStatus); ok && ws.Signaled() {
				return "killed"
			}
			return fmt.Sprintf("exit%d", ee.ExitCode())
		}
		return "exit?"
	case <-time.After(d):
		c.kill()
		<-c.done
		return "timeout"
	}
}

func waitFile(p string, d time.Duration) bool {
	end := time.Now().Add(d)
	for time.Now().Before(end) {
		if _, err := os.Stat(p); err == nil {
			return true
		}
		time.Sleep(200 * time.Microsecond)
	}
	return false
}

func readStr(p string) string {
	b, _ := ioutil.ReadFile(p)
	return strings.TrimSpace(string(b))
}

// crashBackup (case kind CB): a process is killed while it takes checkpoint (7,100) — at the named
// crash point, or (point = "t<micros>") by the parent that many microseconds after the checkpoint
// directory appeared. The store is reopened the way a restarting node does and the checkpoint is
// judged: either it is refused (IsLocalBackupOK false / Restore: no backup) or it restores exactly
// to the content recorded before Backup. Returns "<how the child ended> <verdict>".
func crashBackup(eng, point string, fillKB int, seed int64) string {
	dir, err := os.MkdirTemp("", "verif-ckpt-cb-")
	if err != nil {
		return "mkerr"
	}
	defer os.RemoveAll(dir)
	var env []string
	var delay time.Duration = -1
	if strings.HasPrefix(point, "t") {
		var us int
		fmt.Sscan(point[1:], &us)
		delay = time.Duration(us) * time.Microsecond
	} else {
		env = []string{"VERIF_CRASH=" + point + ":1"}
	}
	c, err := startChild(env, "backup", dir, eng, fmt.Sprint(fillKB), fmt.Sprint(seed))
	if err != nil {
		return "starterr"
	}
	if delay >= 0 {
		ck := path.Join(dir, "rocksdb_backup", ckName(7, 100))
		if waitFile(path.Join(dir, "ready"), 60*time.Second) {
			// rocksdb builds the checkpoint in "<name>.tmp" and renames it
			end := time.Now().Add(20 * time.Second)
			for time.Now().Before(end) {
				if _, e1 := os.Stat(ck); e1 == nil {
					break
				}
				if _, e2 := os.Stat(ck + ".tmp"); e2 == nil {
					break
				}
				time.Sleep(100 * time.Microsecond)
			}
			time.Sleep(delay)
			c.kill()
		}
	}
	how := c.wait(120 * time.Second)
	return how + " " + judgeCheckpoint(dir, eng, readStr(path.Join(dir, "expect.txt")))
}

// judgeCheckpoint reopens the store and tries the checkpoint (7,100).
func judgeCheckpoint(dir, eng, expect string) string {
	st, err := openStore(dir, eng, 0)
	if err != nil {
		return "store-does-not-open"
	}
	defer st.close()
	live := "live-other"
	if st.valueID() == expect {
		live = "live-kept"
	}
	if st.localOK(7, 100) == "0" {
		return live + " checkpoint-refused"
	}
	switch st.restore(7, 100) {
	case "ok":
		if st.valueID() == expect {
			return live + " checkpoint-restores-exactly"
		}
		return live + " checkpoint-restores-WRONG-content"
	case "nobackup":
		return live + " checkpoint-refused"
	default:
		return live + " restore-error"
	}
}

// crashRestore (case kind CR): checkpoint (7,100) is taken, the content moves on, then a process is
// killed while it restores (7,100) — at a named point of restoreFromPath or by the parent after a
// delay. A restarting node then opens the store and restores from its newest recorded snapshot
// (node/raft.go startRaft: UpdateSnapshotState, PrepareSnapshot, RestoreFromSnapshot), which is
// (7,100) because the raft layer persists the snapshot before the state machine restores it.
// Verdict: the restart must end with exactly the checkpoint's content, twice in a row.
func crashRestore(eng, point string, fillKB int, seed int64) string {
	dir, err := os.MkdirTemp("", "verif-ckpt-cr-")
	if err != nil {
		return "mkerr"
	}
	defer os.RemoveAll(dir)
	c, err := startChild(nil, "backup", dir, eng, fmt.Sprint(fillKB), fmt.Sprint(seed))
	if err != nil {
		return "starterr"
	}
	if how := c.wait(120 * time.Second); how != "exit0" || readStr(path.Join(dir, "done")) != "ok" {
		return "setup-failed " + how
	}
	expect := readStr(path.Join(dir, "expect.txt"))
	os.Remove(path.Join(dir, "ready"))
	os.Remove(path.Join(dir, "done"))
	ckDir := path.Join(dir, "rocksdb_backup", ckName(7, 100))
	dg := dirDigest(ckDir)
	var env []string
	var delay time.Duration = -1
	if strings.HasPrefix(point, "t") {
		var us int
		fmt.Sscan(point[1:], &us)
		delay = time.Duration(us) * time.Microsecond
	} else {
		env = []string{"VERIF_CRASH=" + point + ":1"}
	}
	c, err = startChild(env, "restore", dir, eng, fmt.Sprint(seed))
	if err != nil {
		return "starterr"
	}
	if delay >= 0 && waitFile(path.Join(dir, "ready"), 60*time.Second) {
		time.Sleep(delay)
		c.kill()
	}
	how := c.wait(120 * time.Second)
	// restart
	st, err := openStore(dir, eng, 0)
	if err != nil {
		if os.Getenv("VERIF_CKPT_DEBUG") != "" {
			fmt.Fprintf(os.Stderr, "open error: %v\n", err)
			ents, _ := ioutil.ReadDir(path.Join(dir, eng))
			for _, e := range ents {
				fmt.Fprintf(os.Stderr, "   %s %d\n", e.Name(), e.Size())
			}
		}
		return how + " store-does-not-open"
	}
	defer st.close()
	// what the reopened store holds before the node's startup restore: all of the old content or
	// all of the checkpoint's (the mem engine keeps nothing across a restart by itself)
	pre := readStr(path.Join(dir, "prerestore.txt"))
	atOpen := "open=OTHER-content"
	switch v := st.valueID(); {
	case v == expect:
		atOpen = "open=restored"
	case v == pre:
		atOpen = "open=pre-restore"
	case eng == "mem":
		atOpen = "open=mem"
	}
	how += " " + atOpen
	st.setLatest(100)
	res := ""
	for k := 0; k < 2; k++ {
		if p := st.prepare(7, 100); p != "ok" {
			return how + " prepare-" + p
		}
		if r := st.restore(7, 100); r != "ok" {
			return how + " restore-" + r
		}
		if st.valueID() != expect {
			return how + fmt.Sprintf(" restart-%d-WRONG-content", k+1)
		}
		res = how + " restart-restores-exactly"
	}
	if dirDigest(ckDir) != dg {
		return res + " checkpoint-CHANGED"
	}
	return res + " checkpoint-unchanged"
}

// crashFetch (case kind CF): store 0 holds checkpoint (7,100); a process in which store 1 fetches it
// through kvStoreSM.PrepareSnapshot is killed by the parent some microseconds after the destination
// directory appeared. After the restart store 1 prepares and restores (7,100) again, as a lagging
// replica whose leader sends that snapshot again does. Verdict: the fetch is redone or the half
// directory is refused — never a restore to other content.
func crashFetch(eng string, delayUs int, fillKB int, seed int64) string {
	base, err := os.MkdirTemp("", "verif-ckpt-cf-")
	if err != nil {
		return "mkerr"
	}
	defer os.RemoveAll(base)
	dirA := path.Join(base, "node0", "ns-0")
	os.MkdirAll(path.Dir(dirA), 0755)
	c, err := startChild(nil, "backup", dirA, eng, fmt.Sprint(fillKB), fmt.Sprint(seed))
	if err != nil {
		return "starterr"
	}
	if how := c.wait(120 * time.Second); how != "exit0" || readStr(path.Join(dirA, "done")) != "ok" {
		return "setup-failed " + how
	}
	expect := readStr(path.Join(dirA, "expect.txt"))
	c, err = startChild(nil, "fetch", base, eng)
	if err != nil {
		return "starterr"
	}
	dst := path.Join(base, "node1", "ns-0", "rocksdb_backup", ckName(7, 100))
	if waitFile(path.Join(base, "ready"), 60*time.Second) && waitFile(dst, 30*time.Second) {
		time.Sleep(time.Duration(delayUs) * time.Microsecond)
		c.kill()
	}
	how := c.wait(120 * time.Second)
	os.Remove(path.Join(base, "ready"))
	p, err := openPairAt(base, eng, [2]int{0, 0})
	if err != nil {
		return how + " stores-do-not-open"
	}
	defer func() { p.st[0].close(); p.st[1].close(); p.srv[0].Close(); p.srv[1].Close() }()
	b := p.st[1]
	half := "half-dir-absent"
	if _, err := os.Stat(dst); err == nil {
		half = "half-dir-present"
		if b.localOK(7, 100) == "1" {
			half = "half-dir-ACCEPTED-as-backup"
		}
	}
	if pr := b.prepare(7, 100); pr != "ok" {
		return how + " " + half + " prepare-" + pr
	}
	if r := b.restore(7, 100); r != "ok" {
		return how + " " + half + " restore-" + r
	}
	if b.valueID() != expect {
		return how + " " + half + " restores-WRONG-content"
	}
	return how + " " + half + " restores-exactly"
}

// canonCrash projects the outcome of a crash case to what the model predicts. Named crash points
// have one outcome; for timed kills the property allows two (refused or exact, old or new content)
// and they are collapsed.
func canonCrash(kind, eng, point, out string) string {
	timed := strings.HasPrefix(point, "t")
	f := strings.Fields(out)
	switch kind {
	case "CB": // <how> <live> <verdict>
		if len(f) != 3 {
			return "bad " + out
		}
		v := f[2]
		if timed {
			if f[0] == "exit0" && v == "checkpoint-restores-exactly" || f[0] == "killed" && (v == "checkpoint-refused" || v == "checkpoint-restores-exactly") {
				return "checkpoint-refused-or-exact"
			}
			return f[0] + " " + v
		}
		return f[0] + " " + v
	case "CR", "CRR": // <how> open=<..> restart-restores-exactly checkpoint-unchanged
		if len(f) != 4 {
			return "bad " + out
		}
		o := f[1]
		if timed || eng == "mem" {
			if o == "open=restored" || o == "open=pre-restore" || o == "open=mem" {
				o = "open=complete"
			}
			return o + " " + f[2] + " " + f[3]
		}
		return f[0] + " " + o + " " + f[2] + " " + f[3]
	default: // CF: <how> <half..> <result>
		if len(f) != 3 {
			return "bad " + out
		}
		// a kill that lands after the transfer has completed finds a complete, accepted directory:
		// what counts is what the retry + restore bring back
		return f[2]
	}
}

// failedFetch (case kind FF): a snapshot transfer whose copy command FAILS midway while the process
// lives on. The copy is made to fail by a "cp" found first on PATH that runs the real cp under a
// 64 KB file size limit (EFBIG / SIGXFSZ on the first bigger file), so some files arrive whole, one
// is cut short, the rest is missing, and RunFileSync returns its error. Then, with the normal cp:
// is the half directory refused, does the next PrepareSnapshot fetch again, does RestoreFromSnapshot
// end with the source's content. mode "cutwal": the copy completes, the WAL is then cut in half and
// the command still reports failure. Output: first=<res> half=<refused|ACCEPTED|absent> second=<res> restore=<exact|WRONG|res>.
func failedFetch(eng string, fillKB int, seed int64, mode string) string {
	p, err := openPair(eng, [2]int{0, 0})
	if err != nil {
		return "openerr"
	}
	defer p.close()
	a, b := p.st[0], p.st[1]
	childFill(a, fillKB, seed)
	if eng != "mem" {
		a.reopen() // sst files as well as a WAL in the checkpoint
		childFill(a, fillKB/2+64, seed+5)
	}
	want := a.valueID()
	if a.backupStart(7, 100) != "ok" || a.backupFinish() != "ok" {
		return "setup-failed"
	}
	wrap, err := os.MkdirTemp("", "verif-ckpt-cpwrap-")
	if err != nil {
		return "mkerr"
	}
	defer os.RemoveAll(wrap)
	realCp, err := exec.LookPath("cp")
	if err != nil {
		return "nocp"
	}
	script := "#!/bin/sh\nulimit -f 128\nexec " + realCp + " \"$@\"\n"
	if mode == "cutwal" {
		// everything is copied, then the biggest write-ahead log of the destination is cut in half and
		// the command reports failure: a half checkpoint that every engine still opens
		script = "#!/bin/sh\n" + realCp + " \"$@\"\nfor a in \"$@\"; do d=\"$a\"; done\n" +
			"f=$(ls -S \"$d\"/*/*.log 2>/dev/null | head -1)\n" +
			"[ -n \"$f\" ] && truncate -s $(( $(stat -c %s \"$f\") / 2 )) \"$f\"\nexit 1\n"
	}
	if err := ioutil.WriteFile(path.Join(wrap, "cp"), []byte(script), 0755); err != nil {
		return "mkerr"
	}
	oldPath := os.Getenv("PATH")
	os.Setenv("PATH", wrap+":"+oldPath)
	first := b.prepare(7, 100)
	os.Setenv("PATH", oldPath)
	half := "absent"
	if _, err := os.Stat(path.Join(b.db().GetBackupDir(), ckName(7, 100))); err == nil {
		half = "refused"
		if b.localOK(7, 100) == "1" {
			half = "ACCEPTED"
		}
	}
	second := b.prepare(7, 100)
	rs := b.restore(7, 100)
	if rs == "ok" {
		if b.valueID() == want {
			rs = "exact"
		} else {
			rs = "WRONG-content"
		}
	}
	return fmt.Sprintf("first=%s half=%s second=%s restore=%s", first, half, second, rs)
}
