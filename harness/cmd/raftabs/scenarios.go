package main

// Directed schedules replayed through raftdrv on the real raft code (raftabs -scenario NAME|all).
// They are the schedules of the demos under /verif/seeded/C0x-aK (which drive raft through their own
// small simulators) expressed in raftdrv events, so that the acceptor sees them on every run: on the
// unchanged tree every one of them must be accepted; with the corresponding seeded change applied the
// acceptor must reject.

import (
	"bufio"
	"encoding/json"
	"fmt"
	"math"
	"os"
	"path/filepath"

	"verif/harness/internal/raftdrv"

	pb "github.com/youzan/ZanRedisDB/raft/raftpb"
)

type pred func(m pb.Message) bool

type scen struct {
	c    *raftdrv.Cluster
	sink func(*raftdrv.Record)
	done map[int]bool // delivered or dropped
	log  []string
	fail string
}

func typ(t pb.MessageType, from, to uint64) pred {
	return func(m pb.Message) bool { return m.Type == t && m.From == from && m.To == to }
}
func among(ids ...uint64) pred {
	in := map[uint64]bool{}
	for _, i := range ids {
		in[i] = true
	}
	return func(m pb.Message) bool { return in[m.From] && in[m.To] }
}
func touching(id uint64) pred { return func(m pb.Message) bool { return m.From == id || m.To == id } }
func from(id uint64) pred     { return func(m pb.Message) bool { return m.From == id } }
func to(id uint64) pred       { return func(m pb.Message) bool { return m.To == id } }
func anyMsg(m pb.Message) bool { return true }
func and(ps ...pred) pred {
	return func(m pb.Message) bool {
		for _, p := range ps {
			if !p(m) {
				return false
			}
		}
		return true
	}
}
func not(p pred) pred { return func(m pb.Message) bool { return !p(m) } }
func isType(t pb.MessageType) pred {
	return func(m pb.Message) bool { return m.Type == t }
}

func (s *scen) ev(e raftdrv.Event) *raftdrv.Record {
	rec := s.c.Apply(e)
	s.sink(rec)
	if rec.Panic != "" && s.fail == "" {
		s.fail = "panic: " + rec.Panic
	}
	return rec
}

// run lets node n process everything it has queued: step, the whole Ready, the application.
func (s *scen) run(n uint64) {
	for i := 0; i < 50; i++ {
		v := s.c.View(n)
		if !v.Alive || s.c.Panic != "" {
			return
		}
		progress := false
		if !v.InFlight {
			if rec := s.ev(raftdrv.Event{K: "step", N: n}); rec.Rd != nil {
				progress = true
			}
		}
		if s.c.View(n).InFlight {
			s.ev(raftdrv.Event{K: "ready", N: n, All: true})
			progress = true
		}
		if v2 := s.c.View(n); v2.Alive && v2.ApplyQ > 0 && !v2.Blocked && !v2.Removed {
			s.ev(raftdrv.Event{K: "apply", N: n})
			progress = true
		}
		if !progress {
			return
		}
	}
}

func (s *scen) tick(n uint64, k int) {
	for i := 0; i < k; i++ {
		s.ev(raftdrv.Event{K: "tick", N: n})
	}
	s.run(n)
}

// campaign: tick node n until its election timeout fires (all steps use rnd 0, so the randomized
// timeout equals the election tick)
func (s *scen) campaign(n uint64) {
	v := s.c.View(n)
	k := v.RandTmo - v.ElectionElapsed
	if k < 1 {
		k = 1
	}
	for i := 0; i < k; i++ {
		s.ev(raftdrv.Event{K: "tick", N: n})
	}
	s.run(n)
}

func (s *scen) pending(p pred) []int {
	var out []int
	for _, id := range s.c.NetIDs() {
		if s.done[id] {
			continue
		}
		if m, ok := s.c.Msg(id); ok && p(m) {
			out = append(out, id)
		}
	}
	return out
}

// deliver hands every not yet delivered message matching p to its destination, which then runs.
func (s *scen) deliver(p pred) int {
	n := 0
	for _, id := range s.pending(p) {
		m, _ := s.c.Msg(id)
		s.done[id] = true
		if !s.c.View(m.To).Alive {
			continue
		}
		s.ev(raftdrv.Event{K: "deliver", N: m.To, M: id})
		s.run(m.To)
		n++
	}
	return n
}

func (s *scen) must(n int, what string) {
	if n == 0 && s.fail == "" {
		s.fail = "scenario setup: nothing to deliver for " + what
	}
}

func (s *scen) drop(p pred) {
	for _, id := range s.pending(p) {
		s.done[id] = true
		s.ev(raftdrv.Event{K: "drop", M: id})
	}
}

// settle: messages among the given nodes are delivered until nothing is left
func (s *scen) settle(ids ...uint64) {
	p := among(ids...)
	for i := 0; i < 40; i++ {
		for _, id := range ids {
			s.run(id)
		}
		if s.deliver(p) == 0 {
			return
		}
	}
}

func (s *scen) propose(n uint64, pad int) {
	s.ev(raftdrv.Event{K: "propose", N: n, P: s.c.NewPayload(), Pad: pad})
	s.run(n)
}

func (s *scen) conf(n uint64, cc string, x uint64) {
	s.ev(raftdrv.Event{K: "conf", N: n, CC: cc, X: x})
	s.run(n)
}

func (s *scen) expect(ok bool, what string) {
	if !ok && s.fail == "" {
		s.fail = "scenario setup: " + what
	}
}

// show prints the node views (RAFTABS_SCEN_DEBUG=1), for writing scenarios
func (s *scen) show(label string) {
	if os.Getenv("RAFTABS_SCEN_DEBUG") == "" {
		return
	}
	fmt.Fprintf(os.Stderr, "-- %s\n", label)
	for _, id := range s.c.IDs() {
		v := s.c.View(id)
		if v.Born {
			fmt.Fprintf(os.Stderr, "   %d alive=%v role=%d term=%d lead=%d commit=%d last=%d voters=%v learners=%v appl=%d\n", id, v.Alive, v.Role, v.Term, v.Lead, v.Commit, v.Last, v.Voters, v.Learners, v.AppApplied)
		}
	}
	for _, id := range s.pending(anyMsg) {
		m, _ := s.c.Msg(id)
		fmt.Fprintf(os.Stderr, "   net %d: %v %d->%d term %d idx %d commit %d ents %d rej %v\n", id, m.Type, m.From, m.To, m.Term, m.Index, m.Commit, len(m.Entries), m.Reject)
	}
}

func (s *scen) leader(n uint64) bool { v := s.c.View(n); return v.Alive && v.Role == 2 }

type scenario struct {
	name string
	opt  raftdrv.Options
	run  func(s *scen)
}

func baseOpt(universe, voters int, prevote, cq bool) raftdrv.Options {
	return raftdrv.Options{Universe: universe, Voters: voters, PreVote: prevote, CheckQuorum: cq,
		MaxSizePerMsg: math.MaxUint64, ElectionTick: 10, HeartbeatTick: 1, MaxInflight: 16, Storage: "mem"}
}

var scenarios = []scenario{
	{"C01-a2-vote-only-hardstate", baseOpt(3, 3, true, true), func(s *scen) {
		// replica 1 learns term 2 without voting, then grants 2, crashes, restarts, is asked by 3
		s.settle(1, 2, 3)
		s.campaign(2)
		s.drop(typ(pb.MsgPreVote, 2, 1))
		s.must(s.deliver(typ(pb.MsgPreVote, 2, 3)), "prevote 2->3")
		s.must(s.deliver(typ(pb.MsgPreVoteResp, 3, 2)), "prevoteresp 3->2")
		s.campaign(3)
		s.drop(typ(pb.MsgPreVote, 3, 2))
		s.must(s.deliver(typ(pb.MsgPreVote, 3, 1)), "prevote 3->1")
		s.must(s.deliver(typ(pb.MsgPreVoteResp, 1, 3)), "prevoteresp 1->3")
		s.campaign(1)
		s.drop(typ(pb.MsgPreVote, 1, 3))
		s.must(s.deliver(typ(pb.MsgPreVote, 1, 2)), "prevote 1->2")
		s.must(s.deliver(typ(pb.MsgPreVoteResp, 2, 1)), "prevoteresp 2->1")
		s.expect(s.c.View(1).Term == 2, "replica 1 should have learnt term 2")
		s.must(s.deliver(typ(pb.MsgVote, 2, 1)), "vote 2->1")
		s.must(s.deliver(typ(pb.MsgVoteResp, 1, 2)), "voteresp 1->2")
		s.ev(raftdrv.Event{K: "crash", N: 1})
		s.ev(raftdrv.Event{K: "restart", N: 1})
		s.run(1)
		s.must(s.deliver(typ(pb.MsgVote, 3, 1)), "vote 3->1")
		s.deliver(typ(pb.MsgVoteResp, 1, 3))
		s.settle(1, 2, 3)
	}},
	{"C02-a2-vote-forgotten-at-same-term", baseOpt(3, 3, true, true), func(s *scen) {
		s.settle(1, 2, 3)
		s.campaign(1)
		s.campaign(2)
		s.drop(among(1, 2))
		s.must(s.deliver(typ(pb.MsgPreVote, 1, 3)), "prevote 1->3")
		s.must(s.deliver(typ(pb.MsgPreVote, 2, 3)), "prevote 2->3")
		s.must(s.deliver(typ(pb.MsgPreVoteResp, 3, 1)), "prevoteresp 3->1")
		s.must(s.deliver(typ(pb.MsgPreVoteResp, 3, 2)), "prevoteresp 3->2")
		s.drop(among(1, 2))
		s.must(s.deliver(typ(pb.MsgVote, 1, 3)), "vote 1->3")
		s.must(s.deliver(typ(pb.MsgVoteResp, 3, 1)), "voteresp 3->1")
		s.expect(s.leader(1), "node 1 should lead")
		s.drop(typ(pb.MsgApp, 1, 2))
		s.drop(typ(pb.MsgApp, 1, 3))
		s.campaign(3)
		s.drop(and(from(3), isType(pb.MsgPreVote)))
		s.tick(1, 1)
		s.drop(typ(pb.MsgHeartbeat, 1, 2))
		s.must(s.deliver(typ(pb.MsgHeartbeat, 1, 3)), "heartbeat 1->3")
		s.deliver(typ(pb.MsgHeartbeatResp, 3, 1))
		s.drop(typ(pb.MsgApp, 1, 3))
		s.campaign(3)
		s.drop(and(from(3), isType(pb.MsgPreVote)))
		s.must(s.deliver(typ(pb.MsgVote, 2, 3)), "vote 2->3")
		s.deliver(typ(pb.MsgVoteResp, 3, 2))
		s.propose(1, 0)
		s.propose(2, 0)
		s.drop(among(1, 2))
		for i := 0; i < 3; i++ {
			s.tick(1, 1)
			s.drop(among(1, 2))
			s.settle(1, 3)
		}
		for i := 0; i < 3; i++ {
			s.settle(2, 3)
			if s.leader(2) {
				s.tick(2, 1)
			}
			s.drop(among(1, 2))
		}
		for i := 0; i < 4; i++ {
			for _, id := range []uint64{1, 2, 3} {
				if s.leader(id) {
					s.tick(id, 1)
				}
			}
			s.settle(1, 2, 3)
		}
	}},
	{"C03-a2-heartbeat-commit-over-stale-tail", baseOpt(3, 3, true, true), func(s *scen) {
		s.settle(1, 2, 3)
		s.campaign(1)
		s.settle(1, 2, 3)
		s.expect(s.leader(1), "replica 1 should lead")
		s.propose(1, 0)
		s.settle(1, 2, 3)
		s.tick(1, 1)
		s.settle(1, 2, 3)
		// two more proposals stay on replica 1 only; it crashes
		s.propose(1, 0)
		s.propose(1, 0)
		s.ev(raftdrv.Event{K: "crash", N: 1})
		s.drop(touching(1))
		// the lease runs out; 2 is elected and commits an entry
		s.tick(2, 10)
		s.tick(3, 10)
		s.drop(touching(1))
		s.campaign(2)
		s.drop(touching(1))
		s.settle(2, 3)
		if !s.leader(2) {
			s.campaign(2)
			s.drop(touching(1))
			s.settle(2, 3)
		}
		s.expect(s.leader(2), "replica 2 should lead")
		s.propose(2, 0)
		s.drop(touching(1))
		s.settle(2, 3)
		s.tick(2, 1)
		s.drop(touching(1))
		s.settle(2, 3)
		// leadership moves to 3 (it starts leading with a log as long as the stale one of 1)
		s.ev(raftdrv.Event{K: "transfer", N: 2, X: 3})
		s.run(2)
		s.drop(touching(1))
		s.settle(2, 3)
		s.expect(s.leader(3), "replica 3 should lead")
		s.drop(touching(1))
		// 1 restarts; the first thing it hears from leader 3 is a heartbeat
		s.ev(raftdrv.Event{K: "restart", N: 1})
		s.run(1)
		s.tick(3, 1)
		s.drop(and(to(1), not(isType(pb.MsgHeartbeat))))
		s.deliver(typ(pb.MsgHeartbeat, 3, 1))
		s.settle(1, 2, 3)
		for i := 0; i < 3; i++ {
			s.tick(3, 1)
			s.settle(1, 2, 3)
		}
	}},
	{"C02-a1-learner-in-commit-quorum", baseOpt(4, 3, false, false), func(s *scen) {
		s.settle(1, 2, 3)
		s.campaign(1)
		s.settle(1, 2, 3)
		s.expect(s.leader(1), "node 1 should lead")
		s.conf(1, "addlearner", 4)
		for i := 0; i < 4; i++ {
			s.settle(1, 2, 3, 4)
			s.tick(1, 1)
		}
		s.settle(1, 2, 3, 4)
		s.propose(1, 0)
		s.settle(1, 2, 3, 4)
		s.tick(1, 1)
		s.settle(1, 2, 3, 4)
		// partition {1, learner 4} | {2, 3}
		s.propose(1, 0)
		s.settle(1, 4)
		s.tick(1, 1)
		s.settle(1, 4)
		s.drop(and(touching(1), not(among(1, 4))))
		s.campaign(2)
		s.drop(and(not(among(2, 3)), not(among(1, 4))))
		s.settle(2, 3)
		s.expect(s.leader(2), "node 2 should lead")
		s.propose(2, 0)
		s.drop(and(not(among(2, 3)), not(among(1, 4))))
		s.settle(2, 3)
		s.tick(2, 1)
		s.drop(and(not(among(2, 3)), not(among(1, 4))))
		s.settle(2, 3)
		for i := 0; i < 5; i++ {
			s.tick(2, 1)
			s.settle(1, 2, 3, 4)
		}
	}},
	{"C02-a3-paged-handout-gap", func() raftdrv.Options {
		o := baseOpt(3, 3, false, false)
		o.MaxCommitted = 200
		return o
	}(), func(s *scen) {
		s.settle(1, 2, 3)
		s.campaign(1)
		s.settle(1, 2, 3)
		s.tick(1, 1)
		s.settle(1, 2, 3)
		s.expect(s.leader(1), "node 1 should lead")
		s.propose(1, 0)
		s.propose(1, 0)
		s.propose(1, 292)
		s.deliver(and(isType(pb.MsgApp), to(3)))
		s.drop(from(3))
		s.propose(1, 0)
		s.drop(and(isType(pb.MsgApp), to(3)))
		s.settle(1, 2)
		s.settle(1, 3)
		for i := 0; i < 3; i++ {
			s.tick(1, 1)
			s.settle(1, 2, 3)
		}
	}},
	{"C01-a3-paged-campaign-check", func() raftdrv.Options {
		o := baseOpt(5, 3, false, false)
		o.MaxCommitted = 200
		return o
	}(), func(s *scen) {
		s.settle(1, 2, 3)
		s.campaign(3)
		s.settle(1, 2, 3)
		s.expect(s.leader(3), "replica 3 should lead")
		// from now on the application of replica 2 is busy: it steps with moreEntriesToApply=false and never applies
		slow2 := func() {
			for i := 0; i < 10; i++ {
				v := s.c.View(2)
				if !v.Alive {
					return
				}
				progress := false
				if !v.InFlight {
					if rec := s.ev(raftdrv.Event{K: "step", N: 2, NoMore: true}); rec.Rd != nil {
						progress = true
					}
				}
				if s.c.View(2).InFlight {
					s.ev(raftdrv.Event{K: "ready", N: 2, All: true})
					progress = true
				}
				if !progress {
					return
				}
			}
		}
		deliverSlow := func(p pred) {
			for i := 0; i < 40; i++ {
				n := 0
				for _, id := range s.pending(p) {
					m, _ := s.c.Msg(id)
					s.done[id] = true
					if !s.c.View(m.To).Alive {
						continue
					}
					s.ev(raftdrv.Event{K: "deliver", N: m.To, M: id})
					if m.To == 2 {
						slow2()
					} else {
						s.run(m.To)
					}
					n++
				}
				if n == 0 {
					return
				}
			}
		}
		s.propose(3, 142)
		s.propose(3, 142)
		s.conf(3, "addnode", 4)
		deliverSlow(among(1, 2, 3))
		s.tick(3, 1)
		deliverSlow(among(1, 2, 3))
		s.conf(3, "addnode", 5)
		deliverSlow(and(among(2, 3, 4), not(among(2, 4))))
		s.tick(3, 1)
		s.drop(typ(pb.MsgHeartbeat, 3, 1))
		deliverSlow(and(among(2, 3, 4, 5), not(among(2, 4)), not(among(2, 5))))
		s.tick(3, 1)
		s.drop(typ(pb.MsgHeartbeat, 3, 1))
		deliverSlow(and(among(2, 3, 4, 5), not(among(2, 4)), not(among(2, 5))))
		// replica 2 times out with its stale configuration
		v := s.c.View(2)
		k := v.RandTmo - v.ElectionElapsed
		if k < 1 {
			k = 1
		}
		for i := 0; i < k; i++ {
			s.ev(raftdrv.Event{K: "tick", N: 2})
		}
		slow2()
		if n := s.deliver(typ(pb.MsgVote, 2, 1)); n > 0 {
			for _, id := range s.pending(typ(pb.MsgVoteResp, 1, 2)) {
				s.done[id] = true
				s.ev(raftdrv.Event{K: "deliver", N: 2, M: id})
				slow2()
			}
		}
		s.drop(typ(pb.MsgVote, 2, 3))
		s.campaign(4)
		s.deliver(typ(pb.MsgVote, 4, 5))
		s.deliver(typ(pb.MsgVote, 4, 3))
		s.deliver(typ(pb.MsgVoteResp, 5, 4))
		s.deliver(typ(pb.MsgVoteResp, 3, 4))
	}},
	{"C01-c3-uptodate-vs-commit-index", baseOpt(5, 3, false, false), func(s *scen) {
		// {1,2,3} leader 3; add 4 (1 stores it, then cut off), add 5 (2 stores it but never learns commit);
		// 1 (config {1,2,3}, log short by one) and 4 (config {1..5}) run for the same term
		s.settle(1, 2, 3)
		s.campaign(3)
		s.settle(1, 2, 3)
		s.expect(s.leader(3), "3 should lead")
		s.conf(3, "addnode", 4)
		s.must(s.deliver(and(isType(pb.MsgApp), to(1))), "append 3->1")
		cut1 := func() { s.drop(touching(1)) }
		cut1()
		for i := 0; i < 6; i++ {
			s.settle(2, 3, 4)
			cut1()
			s.tick(3, 1)
			cut1()
		}
		s.settle(2, 3, 4)
		cut1()
		s.expect(len(s.c.View(3).Voters) == 4 && len(s.c.View(4).Voters) == 4, "3 and 4 should have applied add 4")
		lastBefore := s.c.View(3).Last
		s.conf(3, "addnode", 5)
		cut1()
		newIdx := lastBefore + 1
		// 2 stores the new entry and acknowledges it, but nothing that carries commit >= newIdx reaches it
		noCommitTo2 := func(m pb.Message) bool {
			return m.To == 2 && (m.Type == pb.MsgApp || m.Type == pb.MsgHeartbeat) && m.Commit >= newIdx
		}
		for i := 0; i < 8; i++ {
			s.drop(noCommitTo2)
			cut1()
			if s.deliver(and(among(2, 3, 4, 5), not(noCommitTo2))) == 0 {
				s.tick(3, 1)
				s.drop(noCommitTo2)
				cut1()
				if s.deliver(and(among(2, 3, 4, 5), not(noCommitTo2))) == 0 && i > 3 {
					break
				}
			}
		}
		s.drop(noCommitTo2)
		cut1()
		s.expect(s.c.View(2).Commit == newIdx-1 && s.c.View(2).Last == newIdx, "2 should hold the entry without knowing it is committed")
		s.expect(len(s.c.View(1).Voters) == 3 && len(s.c.View(4).Voters) == 5 && len(s.c.View(3).Voters) == 5, "configurations {1,2,3} at 1 and {1..5} at 3,4")
		// the network heals; 1 and 4 run for the next term
		s.campaign(1)
		s.must(s.deliver(typ(pb.MsgVote, 1, 2)), "vote 1->2")
		s.deliver(typ(pb.MsgVoteResp, 2, 1))
		s.campaign(4)
		s.deliver(typ(pb.MsgVote, 4, 5))
		s.deliver(typ(pb.MsgVote, 4, 3))
		s.deliver(typ(pb.MsgVoteResp, 5, 4))
		s.deliver(typ(pb.MsgVoteResp, 3, 4))
		s.settle(1, 2, 3, 4, 5)
	}},
	{"C02-b2-figure8-old-term-commit", func() raftdrv.Options {
		o := baseOpt(3, 3, true, true)
		o.MaxSizePerMsg = 0 // one entry per MsgApp
		return o
	}(), func(s *scen) {
		isVoteMsg := func(m pb.Message) bool {
			return m.Type == pb.MsgVote || m.Type == pb.MsgVoteResp || m.Type == pb.MsgPreVote || m.Type == pb.MsgPreVoteResp
		}
		// elect c with the help of v: only election messages between the two are delivered
		elect := func(c, v uint64, other uint64) {
			for try := 0; try < 4 && !s.leader(c); try++ {
				s.campaign(c)
				for i := 0; i < 6; i++ {
					s.drop(touching(other))
					if s.deliver(and(among(c, v), isVoteMsg)) == 0 {
						break
					}
				}
			}
		}
		s.settle(1, 2, 3)
		s.campaign(1)
		s.settle(1, 2, 3)
		s.expect(s.leader(1), "A=1 should lead term 2")
		s.propose(1, 0)
		for i := 0; i < 3; i++ {
			s.settle(1, 2, 3)
			s.tick(1, 1)
		}
		s.settle(1, 2, 3)
		// A is cut off and appends a1 locally
		s.propose(1, 0)
		s.drop(touching(1))
		// the leases on A run out; B is elected by C; its entries never leave B
		s.tick(2, 10)
		s.tick(3, 10)
		s.drop(anyMsg)
		elect(2, 3, 1)
		s.expect(s.leader(2), "B=2 should lead term 3")
		s.drop(from(2))
		s.propose(2, 0)
		s.drop(anyMsg)
		// A steps down for lack of a quorum, C's lease on B runs out, A is elected by C for term 4
		s.tick(1, 21)
		s.drop(anyMsg)
		s.tick(3, 10)
		s.drop(anyMsg)
		elect(1, 3, 2)
		s.expect(s.leader(1) && s.c.View(1).Term == 4, "A should lead term 4")
		s.show("A leads term 4")
		aLast := s.c.View(1).Last // A's own empty entry of term 4
		// A's probe replicates the old entry (term 2) to C; the append carrying A's term-4 entry is lost
		lostApp := func(m pb.Message) bool {
			if m.Type != pb.MsgApp || m.From != 1 || m.To != 3 || m.Index > s.c.View(3).Last {
				return false
			}
			for _, e := range m.Entries {
				if e.Index >= aLast {
					return true
				}
			}
			return false
		}
		for i := 0; i < 6; i++ {
			s.drop(touching(2))
			s.drop(lostApp)
			if s.deliver(and(among(1, 3), not(lostApp))) == 0 {
				break
			}
		}
		s.drop(lostApp)
		s.show("after probe")
		s.expect(s.c.View(3).Last == aLast-1, "C should hold exactly up to the old entry")
		s.drop(anyMsg)
		// B reaches C: its heartbeat is answered from term 4, it steps down; C's lease runs out; B wins term 5
		s.tick(3, 10)
		s.drop(anyMsg)
		s.tick(2, 1)
		s.drop(touching(1))
		s.settle(2, 3)
		s.drop(touching(1))
		elect(2, 3, 1)
		s.expect(s.leader(2) && s.c.View(2).Term == 5, "B should lead term 5")
		for i := 0; i < 4; i++ {
			s.drop(touching(1))
			s.settle(2, 3)
			s.tick(2, 1)
		}
		s.drop(touching(1))
		s.show("B replicated")
		// the partition heals
		for i := 0; i < 6; i++ {
			for _, id := range []uint64{1, 2, 3} {
				s.tick(id, 1)
			}
			s.settle(1, 2, 3)
		}
		s.show("end")
	}},
}

// oracleSched / oracleSummary mirror the part of raftsim's summary.json that props/_raft.py reads
// (collect_failures): schedules[].violations, .scenario (file with {name,opt,events}), .sched, .profile.
type oracleSched struct {
	Index   int                 `json:"sched"`
	Profile string              `json:"profile"`
	Opt     raftdrv.Options     `json:"opt"`
	Records int                 `json:"records"`
	Viol    []raftdrv.Violation `json:"violations,omitempty"`
	Scen    string              `json:"scenario,omitempty"`
	Name    string              `json:"name"`
}
type oracleSummary struct {
	Mode       string        `json:"mode"`
	Seed       int64         `json:"seed"`
	Storage    string        `json:"storage"`
	Schedules  []oracleSched `json:"schedules"`
	Violations int           `json:"violations"`
	Order      string        `json:"order"`
}

// runScenarios runs the directed schedules; every record goes to the acceptor trace (w) AND to the
// direct C01/C02/C03 oracles of raftdrv. If oracleOut != "" a raftsim-style summary.json and, for
// every schedule with violations, a replayable scenario file (raftsim -mode replay) are written there.
func runScenarios(which string, w *bufio.Writer, dir string, oracleOut string) (int, []string) {
	n := 0
	var problems []string
	sum := oracleSummary{Mode: "raftabs-scenario", Storage: "mem"}
	for idx, sc := range scenarios {
		if which != "all" && which != sc.name {
			continue
		}
		n++
		opt := sc.opt
		opt.Dir = dir
		c, rec0, err := raftdrv.NewCluster(opt)
		fmt.Fprintf(w, "T\tscenario-%s\t0\t0\tscenario\n", sc.name)
		sentInReady = map[uint64]bool{}
		orc := raftdrv.NewOracle()
		var evs []raftdrv.Event
		nrec := 0
		sink := func(rec *raftdrv.Record) {
			nrec++
			if rec.S > 0 {
				evs = append(evs, rec.Ev)
			}
			orc.Feed(rec)
			emit(w, rec)
		}
		sink(rec0)
		if err == nil {
			s := &scen{c: c, sink: sink, done: map[int]bool{}}
			sc.run(s)
			if s.fail != "" {
				problems = append(problems, sc.name+": "+s.fail)
			}
		} else {
			problems = append(problems, sc.name+": "+err.Error())
		}
		if c != nil {
			c.Close()
		}
		fmt.Fprintf(w, "Z\n")
		osch := oracleSched{Index: idx, Profile: "scenario:" + sc.name, Opt: sc.opt, Records: nrec, Name: sc.name}
		if len(orc.V) > 0 {
			osch.Viol = orc.V
			sum.Violations += len(orc.V)
			for _, v := range orc.V {
				b, _ := json.Marshal(v)
				fmt.Printf("VIOL scenario-%s %s\n", sc.name, b)
			}
			if oracleOut != "" {
				osch.Scen = filepath.Join(oracleOut, "scenario-"+sc.name+".scenario.json")
				b, _ := json.MarshalIndent(raftdrv.Scenario{Name: "raftabs-" + sc.name, Opt: sc.opt, Events: evs}, "", " ")
				osWriteFile(osch.Scen, b)
			}
		}
		sum.Schedules = append(sum.Schedules, osch)
	}
	if oracleOut != "" {
		sum.Order = raftdrv.CurrentOrder.String()
		b, _ := json.MarshalIndent(sum, "", " ")
		osWriteFile(filepath.Join(oracleOut, "summary.json"), b)
	}
	return n, problems
}

func osWriteFile(path string, b []byte) {
	os.MkdirAll(filepath.Dir(path), 0755)
	os.WriteFile(path, b, 0644)
}
