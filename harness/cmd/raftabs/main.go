// raftabs: runs real raft.Node clusters of /repo under seeded schedules through package raftdrv
// and flattens the recorded global-state traces into the line format read by the extracted
// abstract-protocol acceptor (coq/RaftAbs/extract/driver.ml).  Field renaming only.
//
//	raftabs -seed S -n N -events E -out FILE [-storage mem] [-profile P] [-from I]
//	raftabs -crashpoints -seed S -n N -events E -out FILE   (every step/ready event of N base schedules followed by a
//	                                                  crash of that node, a restart and 150 more generated events)
//	raftabs -scenario NAME|all -out FILE          (directed schedules, see scenarios.go)
//	raftabs -json trace.jsonl... -out FILE        (flatten traces written by raftsim -trace)
//
// Line format (tab separated):
//
//	T tid seed sched profile                       start of a trace
//	E seq kind node subs x                          event (subs: comma separated sub-steps of a ready event, or -)
//	N id alive term vote role commit first dummy voters learners sendpending appapplied log
//	                                                a node whose projected state changed in this event; role
//	                                                0 follower 1 candidate 2 leader 3 precandidate; first = raftLog
//	                                                first index, dummy = term at first-1; voters/learners comma
//	                                                separated or -; sendpending = the in-flight Ready still has its
//	                                                send sub-step to run; appapplied = the application's cursor;
//	                                                log = entries first.. as t:k:p:x (p in hex; k: 0 empty 1 normal 2 conf
//	                                                3 other) comma separated or -
//	S from type to term index reject commit logterm match snapi snapt ents
//	                                                a message put on the network in this event (match = the sender's
//	                                                Progress.Match for the destination or -1; ents as in N)
//	A node i t k p x                                an entry (k as above) or snapshot (k = 9, up to i) applied by the application
//	P text                                          recovered Go panic
//	X                                               end of event
//	Z                                               end of trace
package main

import (
	"bufio"
	"encoding/json"
	"flag"
	"fmt"
	"math/rand"
	"os"
	"strings"

	"verif/harness/internal/raftdrv"
)

func kindCode(k string) int {
	switch k {
	case "E":
		return 0
	case "N":
		return 1
	case "C":
		return 2
	case "S":
		return 9
	}
	return 3
}

func ids(x []uint64) string {
	if len(x) == 0 {
		return "-"
	}
	s := make([]string, len(x))
	for i, v := range x {
		s[i] = fmt.Sprint(v)
	}
	return strings.Join(s, ",")
}

func ents(es []raftdrv.EntProj) string {
	if len(es) == 0 {
		return "-"
	}
	var b strings.Builder
	for i, e := range es {
		if i > 0 {
			b.WriteByte(',')
		}
		fmt.Fprintf(&b, "%d:%d:%x:%d", e.T, kindCode(e.K), e.P, e.X)
	}
	return b.String()
}

func b2i(b bool) int {
	if b {
		return 1
	}
	return 0
}

// per node: did the in-flight Ready already put a message on the network?
var sentInReady = map[uint64]bool{}

// per node: Progress.Match per peer as last recorded
var lastMatch = map[uint64]map[uint64]uint64{}

func emit(w *bufio.Writer, rec *raftdrv.Record) {
	if rec.Ev.K == "step" || rec.Ev.K == "init" || rec.Ev.K == "crash" || rec.Ev.K == "restart" {
		sentInReady[rec.Ev.N] = false
	}
	for _, m := range rec.Add {
		sentInReady[m.Msg.From] = true
	}
	sub := rec.Sub
	if sub == "" {
		sub = "-"
	}
	fmt.Fprintf(w, "E\t%d\t%s\t%d\t%s\t%d\n", rec.S, rec.Ev.K, rec.Ev.N, strings.ReplaceAll(sub, " ", ","), rec.Ev.X)
	if rec.Panic != "" {
		fmt.Fprintf(w, "P\t%s\n", strings.ReplaceAll(strings.ReplaceAll(rec.Panic, "\n", " "), "\t", " "))
	}
	for _, n := range rec.Nodes {
		if n.Alive {
			pm := map[uint64]uint64{}
			for _, p := range n.Prs {
				pm[p.ID] = p.Match
			}
			lastMatch[n.ID] = pm
		} else {
			delete(lastMatch, n.ID)
		}
		// sendpending: the effects of the in-flight Ready are not yet visible outside the node: its send
		// sub-step has not run, or it ran without putting anything on the network (the Ready in which a
		// node turns leader sends first) and the Ready is not yet persisted
		sp := 0
		persisting := false
		for _, st := range n.InFlight {
			if st == "send" {
				sp = 1
			}
			if st == "psnap" || st == "pents" || st == "phs" {
				persisting = true
			}
		}
		if persisting && !sentInReady[n.ID] {
			sp = 1
		}
		if n.LogErr != "" {
			fmt.Fprintf(w, "P\tlogerr node %d: %s\n", n.ID, n.LogErr)
		}
		// consistency of the projection itself: the log must start at first
		if n.Alive && len(n.Log) > 0 && n.Log[0].I != n.First {
			fmt.Fprintf(w, "P\tprojection: node %d log starts at %d, first %d\n", n.ID, n.Log[0].I, n.First)
		}
		fmt.Fprintf(w, "N\t%d\t%d\t%d\t%d\t%d\t%d\t%d\t%d\t%s\t%s\t%d\t%d\t%s\n", n.ID, b2i(n.Alive), n.Term, n.Vote, n.Role,
			n.Commit, n.First, n.Dummy, ids(n.Voters), ids(n.Learners), sp, n.App.Applied, ents(n.Log))
	}
	for _, m := range rec.Add {
		si, st := uint64(0), uint64(0)
		if m.Msg.Snap != nil {
			si, st = m.Msg.Snap.I, m.Msg.Snap.T
		}
		match := int64(-1) // the sender's Progress.Match for the destination, if the sender has one
		if pm, ok := lastMatch[m.Msg.From]; ok {
			if v, ok := pm[m.Msg.To]; ok {
				match = int64(v)
			}
		}
		fmt.Fprintf(w, "S\t%d\t%d\t%d\t%d\t%d\t%d\t%d\t%d\t%d\t%d\t%d\t%s\n", m.Msg.From, m.Msg.Type, m.Msg.To, m.Msg.Term, m.Msg.Index,
			b2i(m.Msg.Reject), m.Msg.Commit, m.Msg.LogTerm, match, si, st, ents(m.Msg.Ents))
	}
	for _, a := range rec.Applied {
		fmt.Fprintf(w, "A\t%d\t%d\t%d\t%d\t%x\t%d\n", a.N, a.E.I, a.E.T, kindCode(a.E.K), a.E.P, a.E.X)
	}
	fmt.Fprintf(w, "X\n")
}

func main() {
	seed := flag.Int64("seed", 1, "seed")
	n := flag.Int("n", 10, "schedules")
	from := flag.Int("from", 0, "first schedule index")
	events := flag.Int("events", 300, "events per schedule")
	out := flag.String("out", "traces.txt", "output file")
	storage := flag.String("storage", "mem", "mem | rocks-mem | rocks-pebble")
	profile := flag.String("profile", "", "force a generator profile")
	jsonMode := flag.Bool("json", false, "flatten JSONL trace files given as arguments")
	cpMode := flag.Bool("crashpoints", false, "crash at every step/ready event of the base schedules")
	sleepW := flag.Float64("sleep", 0, "weight of the generator's sleeping-node events in every profile (0 = as configured)")
	oracleOut := flag.String("oracle-out", "", "with -scenario: directory for the raftsim-style summary.json and replayable scenario files of the direct oracles")
	scName := flag.String("scenario", "", "run the directed scenario NAME (or all) instead of generated schedules")
	flag.Parse()
	// follow the processReady operation order of the repository's node/raft.go (as raftsim does)
	raftdrv.CurrentOrder = raftdrv.ExtractOrder(raftdrv.RepoPath())
	f, err := os.Create(*out)
	if err != nil {
		fmt.Fprintln(os.Stderr, err)
		os.Exit(2)
	}
	defer f.Close()
	w := bufio.NewWriterSize(f, 1<<20)
	defer w.Flush()
	if *sleepW > 0 {
		for k, p := range raftdrv.Profiles {
			p.Sleep = *sleepW
			raftdrv.Profiles[k] = p
		}
	}
	if *jsonMode {
		for _, fn := range flag.Args() {
			in, err := os.Open(fn)
			if err != nil {
				fmt.Fprintln(os.Stderr, err)
				os.Exit(2)
			}
			sc := bufio.NewScanner(in)
			sc.Buffer(make([]byte, 1<<20), 1<<28)
			first := true
			for sc.Scan() {
				if first {
					first = false
					var h raftdrv.Header
					json.Unmarshal(sc.Bytes(), &h)
					fmt.Fprintf(w, "T\t%s\t%d\t%d\t%s\n", fn, h.Hdr.Seed, h.Hdr.Index, h.Hdr.Profile)
					continue
				}
				var rec raftdrv.Record
				if err := json.Unmarshal(sc.Bytes(), &rec); err != nil {
					fmt.Fprintln(os.Stderr, fn, err)
					os.Exit(2)
				}
				emit(w, &rec)
			}
			in.Close()
			fmt.Fprintf(w, "Z\n")
		}
		return
	}
	hist := map[string]int{}
	recs := 0
	if *scName != "" {
		dir, _ := os.MkdirTemp("", "raftabs")
		n, problems := runScenarios(*scName, w, dir, *oracleOut)
		os.RemoveAll(dir)
		for _, p := range problems {
			fmt.Printf("SCENARIO-PROBLEM %s\n", p)
		}
		fmt.Printf("raftabs scenarios=%d problems=%d\n", n, len(problems))
		return
	}
	if *cpMode {
		ntr := 0
		for i := *from; i < *from+*n; i++ {
			s, r := raftdrv.PlanSchedule(*seed, i, *events, *storage, *profile)
			dir, _ := os.MkdirTemp("", "raftabs")
			base, _, _ := raftdrv.RunGenerated(s, r, dir, func(rec *raftdrv.Record) {})
			os.RemoveAll(dir)
			for p := 0; p < len(base); p++ {
				ev := base[p]
				if ev.N == 0 || (ev.K != "ready" && ev.K != "step") {
					continue
				}
				rng2 := rand.New(rand.NewSource(*seed*7919 + int64(i)*104729 + int64(p)))
				dir, _ := os.MkdirTemp("", "raftabs")
				fmt.Fprintf(w, "T\tcp-%d-%d-%d\t%d\t%d\t%s+crashpoint\n", *seed, i, p, *seed, i, s.Profile)
				raftdrv.RunPrefixThenGenerate(s, base[:p+1], []raftdrv.Event{{K: "crash", N: ev.N}, {K: "restart", N: ev.N}}, rng2, 150, dir,
					func(rec *raftdrv.Record) { recs++; emit(w, rec) })
				fmt.Fprintf(w, "Z\n")
				os.RemoveAll(dir)
				ntr++
			}
		}
		fmt.Printf("raftabs crashpoints traces=%d records=%d\n", ntr, recs)
		return
	}
	for i := *from; i < *from+*n; i++ {
		s, r := raftdrv.PlanSchedule(*seed, i, *events, *storage, *profile)
		dir, _ := os.MkdirTemp("", "raftabs")
		fmt.Fprintf(w, "T\t%d-%d\t%d\t%d\t%s\n", *seed, i, *seed, i, s.Profile)
		_, h, _ := raftdrv.RunGenerated(s, r, dir, func(rec *raftdrv.Record) { recs++; emit(w, rec) })
		for k, v := range h {
			hist[k] += v
		}
		fmt.Fprintf(w, "Z\n")
		os.RemoveAll(dir)
	}
	hb, _ := json.Marshal(hist)
	fmt.Printf("raftabs traces=%d records=%d hist=%s\n", *n, recs, hb)
}
