#!/bin/bash
# harness/cmd/raftabs/mutants.sh — sanity check of the acceptor itself (not part of any registered check):
# applies small semantic mutations to a scratch worktree of the repository's raft package, regenerates
# traces with the mutated code and reports how many the extracted acceptor rejects.
# usage: mutants.sh [seeds] ; needs /verif/.build/bin built once (./check C01) and coq/RaftAbs/extract/modelrun
set -u
REPO=${VERIF_REPO:-/repo}; V=$(cd "$(dirname "$0")/../../.." && pwd); W=/tmp/raftabs-mut-$$
export GOFLAGS=-mod=mod GOPROXY=off GOSUMDB=off GOTOOLCHAIN=local
git -C $REPO worktree add --detach $W HEAD >/dev/null 2>&1 || exit 3
trap 'git -C $REPO worktree remove --force $W >/dev/null 2>&1; rm -f $W.mod $W.sum $W.bin $W.txt' EXIT
sed "s#=> $REPO\$#=> $W#" $V/harness/go.mod > $W.mod; cp $V/harness/go.sum $W.sum
mut() { # name file sed-expression
  ( cd $W && git checkout -q -- . && sed -i "$3" $2 && git diff --quiet && echo "MUTANT $1: patch did not apply" && exit 1
    cd $V/harness && go build -modfile=$W.mod -tags verif -o $W.bin ./cmd/raftabs || exit 1
    rej=0; tot=0
    for s in ${SEEDS:-1 2 3}; do
      timeout 120 $W.bin -seed $s -n 30 -events 1000 -out $W.txt >/dev/null 2>&1
      r=$($V/coq/RaftAbs/extract/modelrun < $W.txt | grep -c REJECT); rej=$((rej+r)); tot=$((tot+30))
    done
    echo "MUTANT $1: rejected $rej of $tot traces" )
}
mut doublevote raft/raft.go 's/canVote := r.Vote == m.From ||/canVote := true || r.Vote == m.From ||/'
mut uptodate raft/log.go 's/return term > l.lastTerm() || (term == l.lastTerm() \&\& lasti >= l.lastIndex())/return true/'
mut commitoldterm raft/log.go 's/if maxIndex > l.committed \&\& l.zeroTermOnErrCompacted(l.term(maxIndex)) == term {/if maxIndex > l.committed {/'
mut learnervote raft/raft.go 's/if r.isLearner {/if false \&\& r.isLearner {/'
mut nomatchterm raft/log.go 's/if l.matchTerm(index, logTerm) {/if true || l.matchTerm(index, logTerm) {/'
mut quorum raft/raft.go 's|func (r \*raft) quorum() int { return len(r.prs)/2 + 1 }|func (r *raft) quorum() int { if len(r.prs) > 2 { return len(r.prs)/2 }; return len(r.prs)/2 + 1 }|'
mut hbcommit raft/raft.go 's/commit := min(pr.Match, r.raftLog.committed)/commit := r.raftLog.committed/'
mut snapbehind raft/raft.go 's/if s.Metadata.Index <= r.raftLog.committed {/if false \&\& s.Metadata.Index <= r.raftLog.committed {/'
mut selfvotetwice raft/raft.go 's/if _, ok := r.votes\[id\]; !ok {/if true {/'
mut removenodecommit raft/raft.go 's/if r.state == StateLeader \&\& r.maybeCommit() {/if r.maybeCommit() {/'
