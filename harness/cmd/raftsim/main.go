// raftsim: runs real raft.Node clusters of /repo under seeded schedules (package raftdrv),
// evaluates the C01/C02/C03 oracles on the recorded traces and writes traces/summaries.
package main

import (
	"bufio"
	"encoding/json"
	"flag"
	"fmt"
	"os"
	"path/filepath"
	"time"

	"verif/harness/internal/raftdrv"
)

func main() {
	mode := flag.String("mode", "sim", "sim | log | consts | replay")
	seed := flag.Int64("seed", 1, "seed")
	n := flag.Int("n", 20, "schedules")
	events := flag.Int("events", 300, "events per schedule")
	out := flag.String("out", "", "output directory")
	ntrace := flag.Int("trace", 0, "write the full JSONL trace of the first K schedules")
	storage := flag.String("storage", "mem", "mem | rocks-mem | rocks-pebble")
	profile := flag.String("profile", "", "force a generator profile")
	flag.Parse()
	switch *mode {
	case "sim":
		sim(*seed, *n, *events, *out, *ntrace, *storage, *profile)
	default:
		fmt.Fprintln(os.Stderr, "unknown mode")
		os.Exit(2)
	}
}

func sim(seed int64, n, events int, out string, ntrace int, storage, profile string) {
	if out == "" {
		out = "."
	}
	os.MkdirAll(out, 0755)
	tmp, _ := os.MkdirTemp("", "raftsim")
	defer os.RemoveAll(tmp)
	t0 := time.Now()
	total := 0
	hist := map[string]int{}
	for i := 0; i < n; i++ {
		s, r := raftdrv.PlanSchedule(seed, i, events, storage, profile)
		var w *bufio.Writer
		var f *os.File
		if i < ntrace {
			f, _ = os.Create(filepath.Join(out, fmt.Sprintf("trace-%d-%d.jsonl", seed, i)))
			w = bufio.NewWriterSize(f, 1<<20)
			b, _ := json.Marshal(raftdrv.Header{Hdr: s})
			w.Write(b)
			w.WriteByte('\n')
		}
		leaders := 0
		maxc, napp := uint64(0), 0
		var pan string
		_, h, _ := raftdrv.RunGenerated(s, r, filepath.Join(tmp, fmt.Sprint(i)), func(rec *raftdrv.Record) {
			total++
			if rec.Panic != "" {
				pan = rec.Panic
			}
			if rec.Rd != nil && rec.Rd.NewLeader {
				leaders++
			}
			napp += len(rec.Applied)
			for _, ns := range rec.Nodes {
				if ns.Commit > maxc {
					maxc = ns.Commit
				}
			}
			if w != nil {
				b, _ := json.Marshal(rec)
				w.Write(b)
				w.WriteByte('\n')
			}
		})
		for k, v := range h {
			hist[k] += v
		}
		if w != nil {
			w.Flush()
			f.Close()
		}
		fmt.Printf("sched %d profile=%s voters=%d pv=%v cq=%v max=%d etick=%d leaders=%d commit=%d applied=%d panic=%q\n", i, s.Profile, s.Opt.Voters,
			s.Opt.PreVote, s.Opt.CheckQuorum, s.Opt.MaxSizePerMsg, s.Opt.ElectionTick, leaders, maxc, napp, pan)
	}
	fmt.Printf("records=%d wall=%v hist=%v\n", total, time.Since(t0), hist)
}
