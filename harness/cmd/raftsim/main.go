// raftsim: runs real raft.Node clusters of /repo under seeded schedules (package raftdrv),
// evaluates the C01/C02/C03 direct oracles on the recorded traces and writes traces/summaries.
//
//	raftsim -mode sim    -seed S -n N -events E -out DIR [-trace K] [-storage mem|rocks-mem|rocks-pebble] [-profile P]
//	raftsim -mode replay -out DIR file.json...      (Scenario files: corpus entries, replays)
//	raftsim -mode crashpoints -seed S -n N -events E -out DIR   (every crash point of N base schedules)
//	raftsim -mode log    -seed S -n N -out DIR      (pure raftLog/storage op sequences: cases.tsv + impl.out)
//	raftsim -consts                                  (prints coq/Raft/Consts.v)
package main

import (
	"bufio"
	"encoding/json"
	"flag"
	"fmt"
	"math/rand"
	"os"
	"path/filepath"
	"sort"
	"time"

	"verif/harness/internal/raftdrv"
)

type schedSummary struct {
	Index   int                 `json:"sched"`
	Profile string              `json:"profile"`
	Opt     raftdrv.Options     `json:"opt"`
	Records int                 `json:"records"`
	Leaders int                 `json:"leaders"`
	Commit  uint64              `json:"commit"`
	Applied int                 `json:"applied"`
	Hash    string              `json:"hash"`
	Viol    []raftdrv.Violation `json:"violations,omitempty"`
	File    string              `json:"file,omitempty"`
	Scen    string              `json:"scenario,omitempty"`
}

type summary struct {
	Mode       string         `json:"mode"`
	Seed       int64          `json:"seed"`
	Storage    string         `json:"storage"`
	Schedules  []schedSummary `json:"schedules"`
	Stats      raftdrv.Stats  `json:"stats"`
	Hist       map[string]int `json:"hist"`
	Profiles   map[string]int `json:"profiles"`
	Configs    map[string]int `json:"configs"`
	Violations int            `json:"violations"`
	Order      string         `json:"order"`
	WallS      float64        `json:"wall_s"`
}

func main() {
	mode := flag.String("mode", "sim", "sim | replay | crashpoints | log")
	consts := flag.Bool("consts", false, "print Consts.v")
	seed := flag.Int64("seed", 1, "seed")
	n := flag.Int("n", 20, "schedules")
	events := flag.Int("events", 300, "events per schedule")
	out := flag.String("out", ".", "output directory")
	ntrace := flag.Int("trace", 0, "write the full JSONL trace of the first K schedules")
	storage := flag.String("storage", "mem", "mem | rocks-mem | rocks-pebble")
	profile := flag.String("profile", "", "force a generator profile")
	flag.Parse()
	if *consts {
		printConsts()
		return
	}
	os.MkdirAll(*out, 0755)
	raftdrv.CurrentOrder = raftdrv.ExtractOrder(raftdrv.RepoPath())
	fmt.Printf("ORDER %s\n", raftdrv.CurrentOrder.String())
	switch *mode {
	case "sim":
		sim(*seed, *n, *events, *out, *ntrace, *storage, *profile)
	case "replay":
		replay(flag.Args(), *out, *storage)
	case "crashpoints":
		crashpoints(*seed, *n, *events, *out, *storage, *profile)
	case "log":
		logMode(*seed, *n, *out)
	case "core":
		coreMode(*seed, *n, *events, *out, *profile)
	default:
		fmt.Fprintln(os.Stderr, "unknown mode")
		os.Exit(2)
	}
}

func writeTrace(path string, hdr interface{}, recs []*raftdrv.Record) {
	f, err := os.Create(path)
	if err != nil {
		return
	}
	w := bufio.NewWriterSize(f, 1<<20)
	b, _ := json.Marshal(hdr)
	w.Write(b)
	w.WriteByte('\n')
	for _, rec := range recs {
		b, _ := json.Marshal(rec)
		w.Write(b)
		w.WriteByte('\n')
	}
	w.Flush()
	f.Close()
}

func writeJSON(path string, v interface{}) {
	b, _ := json.MarshalIndent(v, "", " ")
	os.WriteFile(path, b, 0644)
}

type runner struct {
	out   string
	tmp   string
	sum   summary
	agg   raftdrv.Stats
	count int
}

func newRunner(mode string, seed int64, out, storage string) *runner {
	tmp, _ := os.MkdirTemp("", "raftsim")
	r := &runner{out: out, tmp: tmp}
	r.sum = summary{Mode: mode, Seed: seed, Storage: storage, Hist: map[string]int{}, Profiles: map[string]int{}, Configs: map[string]int{}}
	r.agg = raftdrv.Stats{CrashStage: map[string]int{}}
	return r
}

// observe runs one schedule through the oracle. run must call sink for every record and
// return the concrete events executed.
func (r *runner) observe(name string, idx int, profile string, opt raftdrv.Options, keepTrace bool,
	run func(dir string, sink func(*raftdrv.Record)) []raftdrv.Event) schedSummary {
	orc := raftdrv.NewOracle()
	var recs []*raftdrv.Record
	ss := schedSummary{Index: idx, Profile: profile, Opt: opt}
	h := uint64(1469598103934665603)
	r.count++
	evs := run(filepath.Join(r.tmp, fmt.Sprint(r.count)), func(rec *raftdrv.Record) {
		orc.Feed(rec)
		recs = append(recs, rec)
		ss.Records++
		if rec.Rd != nil && rec.Rd.NewLeader {
			ss.Leaders++
		}
		ss.Applied += len(rec.Applied)
		for _, ns := range rec.Nodes {
			if ns.Commit > ss.Commit {
				ss.Commit = ns.Commit
			}
			h = (h ^ (ns.Term*31 + ns.Commit*7 + ns.Last + uint64(ns.Role))) * 1099511628211
		}
		r.sum.Hist[rec.Ev.K]++
	})
	ss.Hash = fmt.Sprintf("%016x", h)
	addStats(&r.agg, orc.S)
	if len(orc.V) > 0 || keepTrace {
		hdr := raftdrv.Header{Hdr: raftdrv.Schedule{Seed: r.sum.Seed, Index: idx, Profile: profile, Opt: opt, Events: len(evs)}}
		ss.File = filepath.Join(r.out, name+".jsonl")
		writeTrace(ss.File, hdr, recs)
	}
	if len(orc.V) > 0 {
		ss.Viol = orc.V
		r.sum.Violations += len(orc.V)
		ss.Scen = filepath.Join(r.out, name+".scenario.json")
		writeJSON(ss.Scen, raftdrv.Scenario{Name: name, Opt: opt, Events: evs})
		for _, v := range orc.V {
			b, _ := json.Marshal(v)
			fmt.Printf("VIOL %s %s\n", name, b)
		}
	}
	r.sum.Profiles[profile]++
	r.sum.Configs[fmt.Sprintf("v%d pv=%v cq=%v max=%v et=%d", opt.Voters, opt.PreVote, opt.CheckQuorum, opt.MaxSizePerMsg != 0, opt.ElectionTick)]++
	r.sum.Schedules = append(r.sum.Schedules, ss)
	return ss
}

func (r *runner) finish(t0 time.Time) {
	r.sum.Stats = r.agg
	r.sum.Order = raftdrv.CurrentOrder.String()
	r.sum.WallS = time.Since(t0).Seconds()
	writeJSON(filepath.Join(r.out, "summary.json"), r.sum)
	sb, _ := json.Marshal(r.agg)
	fmt.Printf("STATS %s\nschedules=%d violations=%d wall=%.1fs\n", sb, len(r.sum.Schedules), r.sum.Violations, r.sum.WallS)
	os.RemoveAll(r.tmp)
}

func sim(seed int64, n, events int, out string, ntrace int, storage, profile string) {
	t0 := time.Now()
	r := newRunner("sim", seed, out, storage)
	for i := 0; i < n; i++ {
		s, rng := raftdrv.PlanSchedule(seed, i, events, storage, profile)
		r.observe(fmt.Sprintf("sched-%d-%d", seed, i), i, s.Profile, s.Opt, i < ntrace, func(dir string, sink func(*raftdrv.Record)) []raftdrv.Event {
			evs, _, _ := raftdrv.RunGenerated(s, rng, dir, sink)
			return evs
		})
	}
	r.finish(t0)
}

func replay(files []string, out, storage string) {
	t0 := time.Now()
	r := newRunner("replay", 0, out, storage)
	sort.Strings(files)
	for i, fn := range files {
		b, err := os.ReadFile(fn)
		if err != nil {
			fmt.Fprintln(os.Stderr, err)
			os.Exit(2)
		}
		var sc raftdrv.Scenario
		if err := json.Unmarshal(b, &sc); err != nil {
			fmt.Fprintln(os.Stderr, fn, err)
			os.Exit(2)
		}
		if sc.Opt.Storage == "" {
			sc.Opt.Storage = storage
		}
		name := "replay-" + filepath.Base(fn)
		ss := r.observe(name, i, "scenario:"+sc.Name, sc.Opt, true, func(dir string, sink func(*raftdrv.Record)) []raftdrv.Event {
			return raftdrv.RunScenario(sc, dir, sink)
		})
		fmt.Printf("scenario %s records=%d leaders=%d commit=%d applied=%d violations=%d\n", fn, ss.Records, ss.Leaders, ss.Commit, ss.Applied, len(ss.Viol))
	}
	r.finish(t0)
}

// crashpoints: for each base schedule, re-run its event list once per position p with a
// "crash n" inserted after event p (n = the node event p touched), followed by a restart and
// the rest of the schedule. Events that became impossible are no-ops (res != "").
func crashpoints(seed int64, n, events int, out, storage, profile string) {
	t0 := time.Now()
	more := 150
	r := newRunner("crashpoints", seed, out, storage)
	for i := 0; i < n; i++ {
		s, rng := raftdrv.PlanSchedule(seed, i, events, storage, profile)
		// every processReady sub-step is its own event in the base schedule, so that a crash is
		// inserted at every sub-step boundary
		fine := raftdrv.Profiles[s.Profile]
		fine.PAll = 0
		fine.Name = s.Profile + "-fine"
		raftdrv.Profiles[fine.Name] = fine
		s.Profile = fine.Name
		var base []raftdrv.Event
		r.observe(fmt.Sprintf("base-%d-%d", seed, i), i, s.Profile, s.Opt, false, func(dir string, sink func(*raftdrv.Record)) []raftdrv.Event {
			base, _, _ = raftdrv.RunGenerated(s, rng, dir, sink)
			return base
		})
		for p := 0; p < len(base); p++ {
			ev := base[p]
			if ev.N == 0 || (ev.K != "ready" && ev.K != "step") {
				continue
			}
			p := p
			name := fmt.Sprintf("cp-%d-%d-%d", seed, i, p)
			rng2 := rand.New(rand.NewSource(seed*7919 + int64(i)*104729 + int64(p)))
			r.observe(name, i, s.Profile+"+crashpoint", s.Opt, false, func(dir string, sink func(*raftdrv.Record)) []raftdrv.Event {
				return raftdrv.RunPrefixThenGenerate(s, base[:p+1], []raftdrv.Event{{K: "crash", N: ev.N}}, rng2, more, dir, sink)
			})
		}
	}
	r.finish(t0)
}

func addStats(a *raftdrv.Stats, b raftdrv.Stats) {
	a.Records += b.Records
	a.Steps += b.Steps
	a.Readys += b.Readys
	a.LeadersElected += b.LeadersElected
	a.Terms += b.Terms
	if b.MaxTerm > a.MaxTerm {
		a.MaxTerm = b.MaxTerm
	}
	a.Chosen += b.Chosen
	a.HandOuts += b.HandOuts
	a.Applies += b.Applies
	a.Crashes += b.Crashes
	a.CrashesMidReady += b.CrashesMidReady
	for k, v := range b.CrashStage {
		a.CrashStage[k] += v
	}
	a.Restarts += b.Restarts
	a.SnapshotsInstalled += b.SnapshotsInstalled
	a.ReadySnapWithCommitted += b.ReadySnapWithCommitted
	a.StorageTailStates += b.StorageTailStates
	a.Compactions += b.Compactions
	a.ConfApplied += b.ConfApplied
	a.LearnerSeen = a.LearnerSeen || b.LearnerSeen
	a.VoteReqToLearner += b.VoteReqToLearner
	a.LeaderChecks += b.LeaderChecks
	a.AppliedAfterRestartCompared += b.AppliedAfterRestartCompared
	a.MsgSnapSent += b.MsgSnapSent
	a.Delivered += b.Delivered
	a.Drops += b.Drops
	a.StaleLeaderSteps += b.StaleLeaderSteps
	a.EmptyRestarts += b.EmptyRestarts
	a.VoteGrantsSent += b.VoteGrantsSent
	a.AcksSent += b.AcksSent
	a.CommitQuorumChecks += b.CommitQuorumChecks
	a.HeartbeatsChecked += b.HeartbeatsChecked
	a.AppendsChecked += b.AppendsChecked
}

// coreMode: generated schedules on MemoryStorage with the handler-level case sink on: writes
// core-cases.tsv (the model's stdin) and core-impl.out, plus core-stats.json
func coreMode(seed int64, n, events int, out, profile string) {
	tmp, _ := os.MkdirTemp("", "raftcore")
	defer os.RemoveAll(tmp)
	cf, _ := os.Create(filepath.Join(out, "core-cases.tsv"))
	of, _ := os.Create(filepath.Join(out, "core-impl.out"))
	cw := bufio.NewWriterSize(cf, 1<<20)
	ow := bufio.NewWriterSize(of, 1<<20)
	agg := map[string]map[string]int{"emitted": {}, "skipped": {}, "msg_in": {}, "msg_in_unknown_sender": {}}
	total := 0
	for i := 0; i < n; i++ {
		s, rng := raftdrv.PlanSchedule(seed, i, events, "mem", profile)
		pre := fmt.Sprintf("c%d.", i)
		stats := raftdrv.RunGeneratedCore(s, rng, filepath.Join(tmp, fmt.Sprint(i)), func(id, caseLine, implLine string) {
			cw.WriteString(pre + caseLine + "\n")
			ow.WriteString(pre + implLine + "\n")
			total++
		})
		if stats != nil {
			for k, v := range stats.Emitted {
				agg["emitted"][k] += v
			}
			for k, v := range stats.Skipped {
				agg["skipped"][k] += v
			}
			for k, v := range stats.MsgIn {
				agg["msg_in"][fmt.Sprint(k)] += v
			}
			for k, v := range stats.MsgInUnknown {
				agg["msg_in_unknown_sender"][fmt.Sprint(k)] += v
			}
		}
	}
	cw.Flush()
	ow.Flush()
	cf.Close()
	of.Close()
	writeJSON(filepath.Join(out, "core-stats.json"), agg)
	fmt.Printf("core cases=%d stats=%v\n", total, agg)
}
