package main

// Log and variant generation (every random choice from one seeded PRNG).

import (
	"fmt"
	"strconv"
	"strings"

	"verif/harness/internal/hx"
)

// Req is one log entry payload. Kind: 'R' redis command, 'X' request of an unknown data type,
// 'G' redis request whose bytes do not parse. Ts is the offset (ns) from the run's base time.
type Req struct {
	Kind byte
	Args [][]byte
	Ts   int64
}

// Log is a command log on a fresh store under one expiry policy.
type Log struct {
	ID     string
	Policy string
	Reqs   []Req
}

// Call is one ApplyRaftRequest invocation: N consecutive requests in one BatchInternalRaftRequest;
// Flag = the list carries a ReqId > 0 (the state machine commits the batch at the end of the call).
type Call struct {
	Flag bool
	N    int
}

// Variant says how the log reaches the state machine.
type Variant struct {
	ID         string
	Engine     string
	Replay     bool
	Shift      int      // index into shifts
	Cut        int      // -1: none; otherwise backup after Cut requests, restore into a new store, replay the tail
	Part       [][]Call // operator lifetimes (one applyEntries event each) -> calls
	compactSet bool     // (generation only) Compact was set on purpose
	Rewind     int      // >= 0 (with Cut >= 0): go on applying live up to this position on the SAME store, then install the checkpoint taken at Cut on it and replay from Cut
	rewindSet  bool     // (generation only) Rewind was set on purpose
	Compact    int      // >= 0: force a full compaction of the store after this many requests (-1: never)
	Syncer     bool     // the entries carry Type = FromClusterSyncer (conflict pre-check when applied live)
	Expire     int      // local-deletion policy only: run the node-local expiry sweep after this many requests (-1: never)
}

// years relative to the wall clock at which the log's base time is placed
var shifts = []int64{3, 6, -3, -6}

// long runs of one byte (size-limit probes) travel as r<count>x<hexbyte>
func encArgs(args [][]byte) string {
	p := make([]string, len(args))
	for i, a := range args {
		p[i] = hx.H(a)
		if len(a) > 1024 {
			same := true
			for _, c := range a {
				if c != a[0] {
					same = false
					break
				}
			}
			if same {
				p[i] = fmt.Sprintf("r%dx%02x", len(a), a[0])
			}
		}
	}
	return strings.Join(p, ",")
}

func decArgs(s string) [][]byte {
	if s == "" {
		return nil
	}
	parts := strings.Split(s, ",")
	out := make([][]byte, len(parts))
	for i, p := range parts {
		if len(p) > 1 && p[0] == 'r' {
			var n int
			var c int
			if _, err := fmt.Sscanf(p, "r%dx%02x", &n, &c); err == nil {
				out[i] = []byte(strings.Repeat(string([]byte{byte(c)}), n))
				continue
			}
		}
		out[i] = hx.UnH(p)
	}
	return out
}

func (l *Log) line() string {
	p := make([]string, len(l.Reqs))
	for i, r := range l.Reqs {
		p[i] = fmt.Sprintf("%c:%d:%s", r.Kind, r.Ts, encArgs(r.Args))
	}
	return fmt.Sprintf("%s\tLOG\t%s\t%d\t%s", l.ID, l.Policy, len(l.Reqs), strings.Join(p, ";"))
}

func parseLog(f []string) (*Log, error) {
	if len(f) < 5 {
		return nil, fmt.Errorf("bad LOG line")
	}
	l := &Log{ID: f[0], Policy: f[2]}
	if f[4] == "" {
		return l, nil
	}
	for _, rs := range strings.Split(f[4], ";") {
		q := strings.SplitN(rs, ":", 3)
		if len(q) != 3 || len(q[0]) != 1 {
			return nil, fmt.Errorf("bad request %q", rs)
		}
		ts, err := strconv.ParseInt(q[1], 10, 64)
		if err != nil {
			return nil, err
		}
		l.Reqs = append(l.Reqs, Req{Kind: q[0][0], Ts: ts, Args: decArgs(q[2])})
	}
	return l, nil
}

func partString(p [][]Call) string {
	ops := make([]string, len(p))
	for i, op := range p {
		cs := make([]string, len(op))
		for j, c := range op {
			cs[j] = strconv.Itoa(c.N)
			if c.Flag {
				cs[j] = "!" + cs[j]
			}
		}
		ops[i] = strings.Join(cs, ";")
	}
	return strings.Join(ops, "|")
}

func parsePart(s string) ([][]Call, error) {
	var out [][]Call
	if s == "" {
		return out, nil
	}
	for _, op := range strings.Split(s, "|") {
		var cs []Call
		for _, c := range strings.Split(op, ";") {
			if c == "" {
				continue
			}
			fl := false
			if c[0] == '!' {
				fl = true
				c = c[1:]
			}
			n, err := strconv.Atoi(c)
			if err != nil || n <= 0 {
				return nil, fmt.Errorf("bad call %q", c)
			}
			cs = append(cs, Call{Flag: fl, N: n})
		}
		out = append(out, cs)
	}
	return out, nil
}

func (v *Variant) line() string {
	rp := "0"
	if v.Replay {
		rp = "1"
	}
	fl := ""
	if v.Syncer {
		fl += "s"
	}
	if v.Compact >= 0 {
		fl += "c" + strconv.Itoa(v.Compact)
	}
	if v.Rewind >= 0 && v.Cut >= 0 {
		fl += "w" + strconv.Itoa(v.Rewind)
	}
	if fl == "" {
		fl = "-"
	}
	return fmt.Sprintf("%s\tVAR\t%s\t%s\t%d\t%d\t%d\t%s\t%s", v.ID, v.Engine, rp, v.Shift, v.Cut, v.Expire, partString(v.Part), fl)
}

func parseVariant(f []string) (*Variant, error) {
	if len(f) < 8 {
		return nil, fmt.Errorf("bad VAR line")
	}
	v := &Variant{ID: f[0], Engine: f[2], Replay: f[3] == "1"}
	var err error
	if v.Shift, err = strconv.Atoi(f[4]); err != nil || v.Shift < 0 || v.Shift > len(shifts) {
		return nil, fmt.Errorf("bad shift")
	}
	if v.Cut, err = strconv.Atoi(f[5]); err != nil {
		return nil, err
	}
	if v.Expire, err = strconv.Atoi(f[6]); err != nil {
		return nil, err
	}
	if v.Part, err = parsePart(f[7]); err != nil {
		return nil, err
	}
	v.Compact = -1
	v.Rewind = -1
	if len(f) > 8 {
		fl := f[8]
		if i := strings.Index(fl, "w"); i >= 0 {
			if n, err := strconv.Atoi(fl[i+1:]); err == nil {
				v.Rewind = n
			}
			fl = fl[:i]
		}
		if strings.HasPrefix(fl, "s") {
			v.Syncer = true
			fl = fl[1:]
		}
		if strings.HasPrefix(fl, "c") {
			if n, err := strconv.Atoi(fl[1:]); err == nil {
				v.Compact = n
			}
		}
	}
	return v, nil
}

// ------------------------------------------------------------------ partitions

func partOne(n int) [][]Call {
	p := make([][]Call, n)
	for i := range p {
		p[i] = []Call{{N: 1}}
	}
	return p
}

// one operator lifetime for every `per` requests, one request per call (what applyEntries does
// with `per` committed entries delivered together)
func partGiant(n, per int) [][]Call {
	var p [][]Call
	for i := 0; i < n; i += per {
		m := per
		if i+m > n {
			m = n - i
		}
		op := make([]Call, m)
		for j := range op {
			op[j] = Call{N: 1}
		}
		p = append(p, op)
	}
	return p
}

// random lifetimes, every call a single request (no ReqId)
func partGiantRandom(r *hx.Rng, n int) [][]Call {
	var p [][]Call
	for i := 0; i < n; {
		m := 1 + r.Intn(30)
		if i+m > n {
			m = n - i
		}
		op := make([]Call, m)
		for j := range op {
			op[j] = Call{N: 1}
		}
		p = append(p, op)
		i += m
	}
	return p
}

func partRandom(r *hx.Rng, n int) [][]Call {
	var p [][]Call
	i := 0
	for i < n {
		// entries delivered together
		var m int
		switch r.Intn(6) {
		case 0:
			m = 1
		case 1:
			m = 2
		case 2, 3:
			m = 2 + r.Intn(8)
		case 4:
			m = 10 + r.Intn(40)
		default:
			m = 100 + r.Intn(60) // crosses maxDBBatchCmdNum
		}
		if i+m > n {
			m = n - i
		}
		var op []Call
		left := m
		for left > 0 {
			c := 1
			if r.Chance(0.12) {
				c = 2 + r.Intn(4)
			}
			if c > left {
				c = left
			}
			op = append(op, Call{N: c, Flag: r.Chance(0.04)})
			left -= c
		}
		p = append(p, op)
		i += m
	}
	return p
}

// ------------------------------------------------------------------ logs

type gen struct {
	r    *hx.Rng
	ts   int64
	keys []string
	mems []string
	vals []string
	fams string
	bad  float64
}

var (
	poolKeys  = []string{"t:k", "t:kk", "t:k:k", "t2:k", "t:abcdefghi", "t2:abcdefghijklmnopq", "tt:k\x00", "t:\xff"}
	poolMems  = []string{"m", "a", "b", "", "k", "m:m", "\x00", "\xff", "abcdefghi"}
	poolVals  = []string{"", "0", "1", "-1", "v", "w", "007", "9223372036854775807", "1.5", "abc", "\x00\xff", "123456789abcdefgh"}
	poolIncr  = []string{"1", "-1", "0", "10", "9223372036854775807", "x"}
	poolScore = []string{"0", "-0", "1", "1", "2", "3", "-1", "10", "+inf", "-inf", "1e3"}
	poolIdx   = []string{"-3", "-2", "-1", "0", "1", "2", "3"}
	poolSR    = []string{"-inf", "+inf", "0", "1", "2", "(0", "(1", "3"}
	poolLex   = []string{"-", "+", "[a", "(a", "[m", "(m", "[b"}
	poolDur   = []string{"1", "1", "2", "3", "1000000"} // the longest TTL (11 days) never reaches across the 3-year distance to the wall clock
	poolJPath = []string{"", "a", "b", "a.b", "arr", "arr.0"}
	poolJVal  = []string{`1`, `"s"`, `{"a":1}`, `{"a":{"b":2},"arr":[1,2]}`, `[1,2,3]`, `[]`, `null`, `{bad`}
	poolBit   = []string{"0", "1", "7", "8", "9", "8191", "8192", "65536"}
	allFams   = "khslzbpj"
)

const sec = int64(1000000000)

func (g *gen) pick(l []string) string { return l[g.r.Intn(len(l))] }
func (g *gen) key() string            { return g.pick(g.keys) }
func (g *gen) mem() string            { return g.pick(g.mems) }
func (g *gen) val() string            { return g.pick(g.vals) }
func (g *gen) subset(l []string, n int) []string {
	if n > len(l) {
		n = len(l)
	}
	p := g.r.Perm(len(l))
	o := make([]string, n)
	for i := 0; i < n; i++ {
		o[i] = l[p[i]]
	}
	return o
}
func (g *gen) memsN() []string {
	n := 1 + g.r.Intn(3)
	o := make([]string, n)
	for i := range o {
		o[i] = g.mem()
	}
	return o
}

// nextTs: adversarially close timestamps: +1 ns, just before / exactly at / just after the next
// second boundary (expiry is decided on whole seconds of the log timestamp), whole seconds,
// and occasionally a step backwards (a new leader with a slower clock).
func (g *gen) nextTs() int64 {
	toB := sec - g.ts%sec
	switch g.r.Intn(12) {
	case 0, 1:
		g.ts += 1
	case 2:
		g.ts += toB - 1
	case 3, 4:
		g.ts += toB
	case 5:
		g.ts += toB + 1
	case 6:
		g.ts += sec
	case 7:
		g.ts += 2*sec - 1
	case 8:
		g.ts += int64(g.r.Intn(1000)) + 1
	case 9:
		if g.r.Chance(0.3) && g.ts > 3*sec {
			g.ts -= int64(g.r.Intn(int(2 * sec)))
		} else {
			g.ts += 3 * sec
		}
	default:
		g.ts += int64(g.r.Intn(int(3*sec))) + 1
	}
	if g.ts%sec == 0 && g.r.Chance(0.5) {
		// stay on the boundary: next command 1 ns before or after is chosen by the cases above
	}
	return g.ts
}

func (g *gen) log(id string, policy string, n int, fams string, bad float64) *Log {
	g.ts = int64(g.r.Intn(5))*sec + int64(g.r.Intn(3))*(sec-1)
	g.keys = g.subset(poolKeys, 2+g.r.Intn(4))
	g.mems = g.subset(poolMems, 2+g.r.Intn(3))
	g.vals = g.subset(poolVals, 2+g.r.Intn(4))
	nf := 1 + g.r.Intn(3)
	if g.r.Chance(0.2) {
		nf = len(fams)
	}
	g.fams = strings.Join(g.subset(strings.Split(fams, ""), nf), "")
	// most logs get a heavy share of batchable commands so that batches really form
	bshare := []float64{0.2, 0.5, 0.8}[g.r.Intn(3)]
	g.bad = bad
	l := &Log{ID: id, Policy: policy}
	for i := 0; i < n; i++ {
		var a []string
		kind := byte('R')
		switch {
		case g.r.Chance(0.006):
			kind = 'X'
		case g.r.Chance(0.004):
			kind = 'G'
		case g.r.Chance(bshare):
			a = g.batchableCmd()
		default:
			a = g.writeCmd()
		}
		rq := Req{Kind: kind, Ts: g.nextTs()}
		for _, s := range a {
			rq.Args = append(rq.Args, []byte(s))
		}
		l.Reqs = append(l.Reqs, rq)
	}
	return l
}

// commands of the batchable set (plus their reachable failing forms: all of these pass the
// validation done before a proposal: set has no key-size check, setex only an argument count)
func (g *gen) batchableCmd() []string {
	k := g.key()
	if g.bad > 0 && g.r.Chance(g.bad) {
		switch g.r.Intn(5) {
		case 0:
			return []string{"setex", k, "0", g.val()}
		case 1:
			return []string{"setex", k, "abc", g.val()}
		case 2:
			return []string{"setex", k, "-1", g.val()}
		case 3:
			// beyond the uint32 expire time; "100 years" overflows only together with the entry's timestamp
			return []string{"setex", k, g.pick([]string{"99999999999", "3153600000", "4294967293"}), g.val()}
		default:
			return []string{"set", "t:" + strings.Repeat("K", 10240), g.val()}
		}
	}
	switch g.r.Intn(12) {
	case 0, 1, 2, 3:
		return []string{"set", k, g.val()}
	case 4:
		return []string{"setex", k, g.pick(poolDur), g.val()}
	case 5, 6:
		return []string{"del", k}
	case 7, 8, 9:
		a := []string{"hmset", k}
		for _, m := range g.memsN() {
			a = append(a, m, g.val())
		}
		return a
	case 10:
		opt := [][]string{{"nx"}, {"xx"}, {"ex", g.pick(poolDur)}, {"nx", "ex", g.pick(poolDur)}, {"ex", g.pick(poolDur), "xx"}}[g.r.Intn(5)]
		return append([]string{"set", k, g.val()}, opt...)
	default:
		return []string{"del", k, g.key()} // multi-key: never batched
	}
}

// multi-part writes that FAIL PART-WAY, after the handler has staged something in the store's write
// batch (all of them pass the checks made before a proposal): what they staged must never surface
func (g *gen) partialFail() []string {
	k := g.key()
	long := strings.Repeat("M", 10241)
	switch g.r.Intn(6) {
	case 0:
		return []string{"mset", k, g.val(), "notable", g.val()}
	case 1:
		return []string{"plset", k, g.val(), "notable", g.val()}
	case 2:
		return []string{"hmset", k, g.mem(), g.val(), long, g.val()}
	case 3:
		return []string{"zadd", k, "1", g.mem(), "2", long}
	case 4:
		return []string{"sadd", k, g.mem(), long}
	default:
		return []string{"mset", k, g.val(), "t:" + strings.Repeat("K", 10240), g.val()}
	}
}

func (g *gen) writeCmd() []string {
	if g.bad > 0 && g.r.Chance(g.bad) {
		return g.partialFail()
	}
	k := g.key()
	switch g.fams[g.r.Intn(len(g.fams))] {
	case 'k':
		switch g.r.Intn(16) {
		case 0:
			return []string{"setnx", k, g.val()}
		case 1:
			return []string{"getset", k, g.val()}
		case 2:
			return []string{"incr", k}
		case 3:
			return []string{"incrby", k, g.pick(poolIncr)}
		case 4:
			return []string{"append", k, g.val()}
		case 5:
			return []string{"setrange", k, g.pick([]string{"0", "1", "5"}), g.val()}
		case 6:
			return []string{"expire", k, g.pick(poolDur)}
		case 7:
			return []string{"persist", k}
		case 8:
			return []string{"mset", k, g.val(), g.key(), g.val()}
		case 9:
			return []string{"setifeq", k, g.val(), g.val()}
		case 10:
			return []string{"delifeq", k, g.val()}
		case 11:
			return []string{"setifeq", k, g.val(), g.val(), "ex", g.pick(poolDur)}
		case 12:
			return []string{"expire", k, g.pick([]string{"0", "-1", "abc"})}
		default:
			return g.batchableCmd()
		}
	case 'h':
		switch g.r.Intn(9) {
		case 0, 1:
			return []string{"hset", k, g.mem(), g.val()}
		case 2:
			return []string{"hsetnx", k, g.mem(), g.val()}
		case 3, 4:
			return append([]string{"hdel", k}, g.memsN()...)
		case 5:
			return []string{"hincrby", k, g.mem(), g.pick(poolIncr)}
		case 6:
			return []string{"hclear", k}
		case 7:
			return []string{"hexpire", k, g.pick(poolDur)}
		default:
			if g.r.Chance(0.5) {
				return []string{"hpersist", k}
			}
			return []string{"hmclear", k, g.key()}
		}
	case 's':
		switch g.r.Intn(9) {
		case 0, 1, 2:
			return append([]string{"sadd", k}, g.memsN()...)
		case 3, 4:
			return append([]string{"srem", k}, g.memsN()...)
		case 5:
			if g.r.Chance(0.5) {
				return []string{"spop", k}
			}
			return []string{"spop", k, g.pick([]string{"1", "2", "3"})}
		case 6:
			return []string{"sclear", k}
		case 7:
			return []string{"sexpire", k, g.pick(poolDur)}
		default:
			if g.r.Chance(0.5) {
				return []string{"spersist", k}
			}
			return []string{"smclear", k, g.key()}
		}
	case 'z':
		switch g.r.Intn(12) {
		case 0, 1, 2:
			a := []string{"zadd", k}
			for _, m := range g.memsN() {
				a = append(a, g.pick(poolScore), m)
			}
			return a
		case 3:
			return []string{"zincrby", k, g.pick(poolScore), g.mem()}
		case 4, 5:
			return append([]string{"zrem", k}, g.memsN()...)
		case 6:
			return []string{"zremrangebyrank", k, g.pick(poolIdx), g.pick(poolIdx)}
		case 7:
			return []string{"zremrangebyscore", k, g.pick(poolSR), g.pick(poolSR)}
		case 8:
			return []string{"zremrangebylex", k, g.pick(poolLex), g.pick(poolLex)}
		case 9:
			return []string{"zclear", k}
		case 10:
			return []string{"zexpire", k, g.pick(poolDur)}
		default:
			if g.r.Chance(0.5) {
				return []string{"zpersist", k}
			}
			return []string{"zmclear", k, g.key()}
		}
	case 'l':
		switch g.r.Intn(11) {
		case 0, 1:
			return append([]string{"rpush", k}, g.memsN()...)
		case 2, 3:
			return append([]string{"lpush", k}, g.memsN()...)
		case 4:
			return []string{"lpop", k}
		case 5:
			return []string{"rpop", k}
		case 6:
			return []string{"lset", k, g.pick(poolIdx), g.val()}
		case 7:
			return []string{"ltrim", k, g.pick(poolIdx), g.pick(poolIdx)}
		case 8:
			return []string{"lclear", k}
		case 9:
			return []string{"lexpire", k, g.pick(poolDur)}
		default:
			if g.r.Chance(0.5) {
				return []string{"lpersist", k}
			}
			return []string{"lmclear", k, g.key()}
		}
	case 'b':
		switch g.r.Intn(12) {
		case 0, 1, 2, 3, 4, 5, 6:
			return []string{"setbitv2", k, g.pick(poolBit), g.pick([]string{"0", "1", "1"})}
		case 7, 8:
			return []string{"bitclear", k}
		case 9:
			return []string{"bexpire", k, g.pick(poolDur)}
		default:
			return []string{"bpersist", k}
		}
	case 'p':
		return append([]string{"pfadd", k}, g.memsN()...)
	case 'j':
		switch g.r.Intn(6) {
		case 0, 1, 2:
			return []string{"json.set", k, g.pick(poolJPath), g.pick(poolJVal)}
		case 3:
			return []string{"json.del", k, g.pick(poolJPath)}
		case 4:
			return []string{"json.arrappend", k, g.pick(poolJPath), g.pick(poolJVal)}
		default:
			return []string{"json.arrpop", k, g.pick(poolJPath)}
		}
	}
	return g.batchableCmd()
}

// universe returns the primary keys a log mentions (the dump is taken over them), in first-use order.
func (l *Log) universe() [][]byte {
	seen := map[string]bool{}
	var out [][]byte
	add := func(b []byte) {
		if len(b) > 200 || !strings.Contains(string(b), ":") {
			// the oversized-key probe and keys without a table name never store anything (and reading
			// a key without a table name is answered differently by the engines: not this property's subject)
			return
		}
		if !seen[string(b)] {
			seen[string(b)] = true
			out = append(out, b)
		}
	}
	for _, r := range l.Reqs {
		if r.Kind != 'R' || len(r.Args) < 2 {
			continue
		}
		name := strings.ToLower(string(r.Args[0]))
		switch name {
		case "del", "hmclear", "lmclear", "smclear", "zmclear":
			for _, a := range r.Args[1:] {
				add(a)
			}
		case "mset", "plset":
			for i := 1; i < len(r.Args); i += 2 {
				add(r.Args[i])
			}
		default:
			add(r.Args[1])
		}
	}
	return out
}

// pfKeys: the primary keys that are the target of a PFADD somewhere in the log.
func (l *Log) pfKeys() map[string]bool {
	m := map[string]bool{}
	for _, r := range l.Reqs {
		if r.Kind == 'R' && len(r.Args) >= 2 && strings.ToLower(string(r.Args[0])) == "pfadd" {
			m[string(r.Args[1])] = true
		}
	}
	return m
}

// purePfKeys: PFADD targets on which no other command of the log works (their PFCOUNT is a function
// of the log alone whenever the cache has been flushed).
func (l *Log) purePfKeys() [][]byte {
	pf := l.pfKeys()
	for _, r := range l.Reqs {
		if r.Kind != 'R' || len(r.Args) < 2 {
			continue
		}
		name := strings.ToLower(string(r.Args[0]))
		if name == "pfadd" {
			continue
		}
		switch name {
		case "del":
			// DEL of a PFADD target keeps it pure: after the DEL the sketch must be gone (or be exactly what later
			// PFADDs built) on every variant, whether or not a flush came between the PFADD and the DEL
		case "hmclear", "lmclear", "smclear", "zmclear":
			for _, a := range r.Args[1:] {
				delete(pf, string(a))
			}
		case "mset", "plset":
			for i := 1; i < len(r.Args); i += 2 {
				delete(pf, string(r.Args[i]))
			}
		default:
			delete(pf, string(r.Args[1]))
		}
	}
	var out [][]byte
	for _, k := range l.universe() {
		if pf[string(k)] {
			out = append(out, k)
		}
	}
	return out
}
