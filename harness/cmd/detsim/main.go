// detsim — C07 harness: relational differential runs of the REAL kv state machine.
//
// One command log (write commands of every family, TTL commands, adversarially close timestamps)
// is applied under several VARIANTS: one request per ApplyRaftRequest call / random partitions
// into calls and batch-operator lifetimes / giant batches / isReplaying / other engines / log
// timestamps years before and after the wall clock / twice / checkpoint-restore-replay / local
// expiry sweep. For every (log, variant) the harness prints
//
//	obs.out   <variant id> TAB <reply of every request> TAB <logical dump> TAB <raw-dump hash> TAB <note>
//	impl.out  <variant id>.b TAB <the batch operator calls observed, and the reply kinds>
//	cases.tsv LOG / VAR lines (the inputs) and B lines (the model's input: structure of the calls
//	          and each handler's own outcome as observed)
//
// The direct oracle (props/C07.py) compares obs.out lines pairwise; the extracted model
// (coq/Determ) predicts impl.out from the B lines.
package main

import (
	"flag"
	"fmt"
	"os"
	"path/filepath"
	"strconv"
	"strings"
	"time"

	"github.com/youzan/ZanRedisDB/node"

	"verif/harness/internal/hx"
	"verif/harness/internal/smx"
)

func main() {
	seed := flag.Int64("seed", 1, "PRNG seed")
	nlogs := flag.Int("n", 20, "number of logs")
	llen := flag.Int("len", 120, "commands per log (about)")
	tier := flag.String("tier", "quick", "quick | thorough (variant set)")
	out := flag.String("out", ".", "output directory")
	replay := flag.String("replay", "", "run the LOG/VAR lines of this file")
	shrink := flag.String("shrink", "", "file with one LOG and two VAR lines: shrink the log while the two runs differ")
	consts := flag.Bool("consts", false, "print coq/Determ/Consts.v and exit")
	bad := flag.Float64("bad", 0.03, "share of batchable commands generated in a failing (but proposable) form")
	fams := flag.String("fams", allFams, "families: k h s l z b(itmap) p(f) j(son)")
	pairs := flag.Bool("pairs", false, "generate the batchable-pair sweep instead of random logs")
	hllprobe := flag.Int("hllprobe", 0, "probe: stored bytes of one HyperLogLog key after a flush over this many identical runs")
	hllj := flag.Bool("hll", false, "generate the pure-PFADD logs with every checkpoint cut and every running-replica restore instead of random logs")
	sweep := flag.Bool("sweep", false, "generate the one-key-name-several-types logs for the local-deletion expiry sweep instead of random logs")
	compact := flag.Bool("compact", false, "generate the expired-then-touched logs run on rocksdb with and without a forced compaction instead of random logs")
	partial := flag.Bool("partial", false, "generate the part-way failing writes sweep (every restore cut) instead of random logs")
	big := flag.Bool("big", false, "generate the big-collection logs (range deletions; mem, pebble and rocksdb) instead of random logs")
	edge := flag.Bool("edge", false, "generate the edge-argument sweep of the batchable commands instead of random logs")
	keepRaw := flag.Bool("raw", false, "keep the raw engine dump in the note field")
	flag.Parse()

	if *consts {
		printConsts()
		return
	}
	smx.Quiet()
	now := time.Now().Unix()
	x := &runner{baseNow: (now - now%86400) * sec, keepRaw: *keepRaw}
	os.MkdirAll(*out, 0o755)

	if *hllprobe > 0 {
		vals, err := x.hllProbe(*hllprobe)
		pf := hx.Create(filepath.Join(*out, "hllprobe.out"))
		if err != nil {
			pf.Printf("err\t%s\n", err.Error())
		}
		for i, v := range vals {
			pf.Printf("%d\t%s\n", i, v)
		}
		pf.Close()
		return
	}
	if *shrink != "" {
		doShrink(x, *shrink, *out)
		return
	}

	var logs []*Log
	vars := map[string][]*Variant{}
	if *replay != "" {
		var cur *Log
		for _, line := range hx.ReadLines(*replay) {
			f := strings.Split(line, "\t")
			if len(f) < 2 {
				continue
			}
			switch f[1] {
			case "LOG":
				l, err := parseLog(f)
				if err != nil {
					fmt.Fprintln(os.Stderr, "replay:", err)
					os.Exit(2)
				}
				logs = append(logs, l)
				cur = l
			case "VAR":
				v, err := parseVariant(f)
				if err != nil || cur == nil {
					fmt.Fprintln(os.Stderr, "replay: bad VAR line", err)
					os.Exit(2)
				}
				vars[cur.ID] = append(vars[cur.ID], v)
			}
		}
	} else if *pairs {
		logs, vars = genPairs(*tier == "thorough")
	} else if *edge {
		logs, vars = genEdges(x.baseOf(0))
	} else if *hllj {
		logs, vars = genHll()
	} else if *sweep {
		logs, vars = genSweep()
	} else if *compact {
		logs, vars = genCompact()
	} else if *partial {
		logs, vars = genPartial()
	} else if *big {
		logs, vars = genBig()
	} else {
		r := hx.NewRng(*seed)
		g := &gen{r: r}
		for i := 0; i < *nlogs; i++ {
			pol := "compact"
			if i%3 == 2 {
				pol = "local"
			}
			n := *llen/2 + r.Intn(*llen)
			if r.Chance(0.1) {
				n = 3 + r.Intn(12)
			}
			l := g.log("L"+strconv.Itoa(i+1), pol, n, *fams, *bad)
			logs = append(logs, l)
			vars[l.ID] = genVariants(r, l, i, *tier)
		}
	}

	if *replay == "" {
		for _, l := range logs {
			for _, v := range vars[l.ID] {
				if !v.compactSet {
					v.Compact = -1
				}
				if !v.rewindSet {
					v.Rewind = -1
				}
			}
		}
	}
	cf := hx.Create(filepath.Join(*out, "cases.tsv"))
	io := hx.Create(filepath.Join(*out, "impl.out"))
	oo := hx.Create(filepath.Join(*out, "obs.out"))
	defer func() { cf.Close(); io.Close(); oo.Close() }()
	hangs := 0
	for _, l := range logs {
		if hangs >= 3 {
			// the code under test keeps dead-locking: stop here, the run errors written so far are the verdict
			break
		}
		if *pairs {
			// the engine keys every batchable command changes (hypothesis Hwrites of isolation_concrete)
			ws, err := x.writeSets(l, "mem")
			if err == nil {
				for _, w := range ws {
					cf.Printf("%s\n", w)
					io.Printf("%s\tok\n", strings.SplitN(w, "\t", 2)[0])
				}
			}
		}
		cf.Printf("%s\n", l.line())
		for _, v := range vars[l.ID] {
			cf.Printf("%s\n", v.line())
			ro, err := runGuarded(x, l, v)
			if err != nil {
				oo.Printf("%s\trunerr\t%s\t-\t-\n", v.ID, strings.ReplaceAll(err.Error(), "\t", " "))
				if strings.HasPrefix(err.Error(), "timeout") {
					hangs++
					if hangs >= 3 {
						break
					}
				}
				continue
			}
			oo.Printf("%s\t%s\t%s\t%s\t%s\n", v.ID, strings.Join(ro.replies, " ; "), ro.dump, ro.raw, ro.note)
			if strings.Contains(ro.note, "panic:") {
				// a Go panic inside the apply loop kills the replica: outside C07 (it is C11's subject);
				// the oracle skips the log and counts it
				continue
			}
			fl := ""
			if v.Replay {
				fl += "r"
			}
			if v.Syncer {
				fl += "s"
			}
			if fl == "" {
				fl = "-"
			}
			cf.Printf("%s.b\tB\t%s\t%s\n", v.ID, fl, modelInput(l, v, ro))
			io.Printf("%s.b\t%s # %s\n", v.ID, strings.Join(ro.trace, " "), strings.Join(ro.kinds, " "))
		}
	}
}

// runGuarded: a variant whose run does not return within a minute (a deadlock in the code under
// test) is reported as a run error instead of hanging the whole check; its goroutine is abandoned.
func runGuarded(x *runner, l *Log, v *Variant) (*runOut, error) {
	type res struct {
		ro  *runOut
		err error
	}
	ch := make(chan res, 1)
	go func() {
		ro, err := x.run(l, v)
		ch <- res{ro, err}
	}()
	select {
	case r := <-ch:
		return r.ro, r.err
	case <-time.After(60 * time.Second):
		return nil, fmt.Errorf("timeout: the state machine did not return within 60 s (deadlock?)")
	}
}

// modelInput: ops '|', calls ';' (prefix '!' = list ReqId > 0), requests ','.
// request = R.<namehex>.p<index of the primary key among the log's keys>.<nargs>.<valid>.<class>.<errhash> | X.<class>.<errhash> | G.<class>.<errhash>
func modelInput(l *Log, v *Variant, ro *runOut) string {
	pos := 0
	pkIdx := map[string]int{}
	ops := make([]string, 0, len(v.Part))
	for _, op := range ro.part {
		cs := make([]string, 0, len(op))
		for _, c := range op {
			rs := make([]string, 0, c.N)
			for i := 0; i < c.N; i++ {
				r := l.Reqs[pos]
				switch r.Kind {
				case 'R':
					name := strings.ToLower(string(r.Args[0]))
					pk := []byte{}
					if len(r.Args) > 1 {
						pk = r.Args[1]
					}
					ix, ok := pkIdx[string(pk)]
					if !ok {
						ix = len(pkIdx)
						pkIdx[string(pk)] = ix
					}
					valid := "0"
					if node.VerifValidBatchableWrite(name, r.Args, ro.base+r.Ts) {
						valid = "1"
					}
					rs = append(rs, fmt.Sprintf("R.%s.p%d.%d.%s.%s", hx.H([]byte(name)), ix, len(r.Args), valid, ro.own[pos]))
				default:
					rs = append(rs, fmt.Sprintf("%c.%s", r.Kind, ro.own[pos]))
				}
				pos++
			}
			s := strings.Join(rs, ",")
			if c.Flag {
				s = "!" + s
			}
			cs = append(cs, s)
		}
		ops = append(ops, strings.Join(cs, ";"))
	}
	return strings.Join(ops, "|")
}

func genVariants(r *hx.Rng, l *Log, idx int, tier string) []*Variant {
	// Every variant differs from its comparison partner in ONE dimension (props/C07.py, PAIRS):
	//   v1, v2 vs v0: partition only;  v3 vs v1: isReplaying;  v4, v11 vs v1: engine;
	//   v5, v6 vs v0 and v7 vs v6: position of the log relative to the wall clock;
	//   v8 vs v0: nothing (second run in the same process);  v9, v10 vs v1: checkpoint at a cut,
	//   v17 vs v16: isReplaying for cluster-syncer entries; v16 vs v18: partition for cluster-syncer entries;
	//   restore into a new store, tail replayed;  v12 vs v14, v13 vs v15: node-local expiry sweep (local policy).
	n := len(l.Reqs)
	id := func(k int) string { return l.ID + ".v" + strconv.Itoa(k) }
	mk := func(k int, eng string, part [][]Call) *Variant {
		return &Variant{ID: id(k), Engine: eng, Part: part, Cut: -1, Expire: -1}
	}
	p1 := partRandom(r, n)
	cut := r.Intn(n + 1)
	sweep := r.Intn(n + 1)
	var vs []*Variant
	vs = append(vs, mk(0, "mem", partOne(n)))
	vs = append(vs, mk(1, "mem", p1))
	vs = append(vs, mk(2, "mem", partGiant(n, 200)))
	v3 := mk(3, "mem", p1)
	v3.Replay = true
	vs = append(vs, v3)
	thorough := tier == "thorough"
	if thorough || idx%4 == 0 {
		vs = append(vs, mk(4, "pebble", p1))
	}
	if thorough || idx%2 == 0 {
		v5 := mk(5, "mem", partOne(n))
		v5.Shift = 1
		v6 := mk(6, "mem", partOne(n))
		v6.Shift = 2
		v7 := mk(7, "mem", partOne(n))
		v7.Shift = 3
		vs = append(vs, v5, v6, v7)
	}
	if thorough || idx%4 == 1 {
		vs = append(vs, mk(8, "mem", partOne(n)))
	}
	if thorough || idx%4 == 3 {
		v9 := mk(9, "mem", p1)
		v9.Cut = cut
		vs = append(vs, v9)
	}
	if thorough || idx%4 == 1 {
		// a running replica installs the checkpoint taken at `cut` after having applied up to `rew`
		v21 := mk(21, "mem", p1)
		v21.Cut = cut
		v21.Rewind, v21.rewindSet = cut+r.Intn(n-cut+1), true
		vs = append(vs, v21)
	}
	if thorough && idx%3 == 0 {
		v10 := mk(10, "pebble", p1)
		v10.Cut = cut
		vs = append(vs, v10)
		vs = append(vs, mk(11, "rocksdb", p1))
	}
	if thorough || idx%4 == 2 {
		// entries that came from the cluster syncer (conflict pre-check when live): one request per call
		ps := partGiantRandom(r, n)
		v16 := mk(16, "mem", ps)
		v16.Syncer = true
		v17 := mk(17, "mem", ps)
		v17.Syncer = true
		v17.Replay = true
		v18 := mk(18, "mem", partOne(n))
		v18.Syncer = true
		vs = append(vs, v16, v17, v18)
	}
	// (No forced-compaction variant for random logs: with the log years before the node's clock the rocksdb
	// compaction filter, which works on the node's clock with a 48 h margin, also drops values that are still
	// alive at the entries' timestamps; that only says that a replica must not lag more than 48 h + TTL behind,
	// the margin the code is built on. The compaction dimension is exercised by the designed logs of -compact,
	// where every touched value has expired by the log's own timestamps.)
	if l.Policy == "local" && haveSweep {
		// (on pebble; with the mem engine the sweep itself dead-locked as soon as expired keys of two data
		// types were pending, until repo fix 0aa1de4 of the C10 builder)
		// the log lies years after the node's clock: nothing is past expiry there, the sweep must remove nothing
		v12 := mk(12, "pebble", partOne(n))
		v12.Expire = sweep
		vs = append(vs, v12, mk(14, "pebble", partOne(n)))
		if thorough || idx%2 == 0 {
			// the log lies years before the node's clock: every key with a TTL is past expiry there
			v13 := mk(13, "pebble", partOne(n))
			v13.Shift = 2
			v13.Expire = sweep
			v15 := mk(15, "pebble", partOne(n))
			v15.Shift = 2
			vs = append(vs, v13, v15)
		}
	}
	return vs
}

// genPairs: every ordered pair of batchable command shapes, on one key and on two keys, after a
// small preparation, applied (a) one per call and (b) in one batch-operator lifetime.
func genPairs(thorough bool) ([]*Log, map[string][]*Variant) {
	gaps := []int64{3 * sec}
	if thorough {
		gaps = []int64{1, 3 * sec}
	}
	shapes := func(k string) [][]string {
		return [][]string{
			{"set", k, "v1"}, {"set", k, "v2", "nx"}, {"set", k, "v3", "xx"}, {"set", k, "v4", "ex", "2"},
			{"setex", k, "1", "v5"}, {"del", k}, {"hmset", k, "f", "1"}, {"hmset", k, "f", "2", "g", "3"},
			{"setex", k, "0", "v6"},
		}
	}
	preps := [][][]string{
		{},
		{{"set", "t:a", "old"}, {"hmset", "t:a", "f", "0"}},
		{{"setex", "t:a", "1", "old"}, {"hmset", "t:a", "f", "0"}, {"hexpire", "t:a", "1"}, {"set", "t:b", "x"}},
	}
	var logs []*Log
	vars := map[string][]*Variant{}
	n := 0
	for _, pol := range []string{"compact", "local"} {
		for pi, prep := range preps {
			for _, k2 := range []string{"t:a", "t:b", "t2:a"} {
				for _, c1 := range shapes("t:a") {
					for _, c2 := range shapes(k2) {
						for _, gap := range gaps {
							n++
							l := &Log{ID: "Q" + strconv.Itoa(n), Policy: pol}
							ts := int64(0)
							for _, a := range prep {
								ts += 1
								l.Reqs = append(l.Reqs, mkReq(a, ts))
							}
							ts += gap
							l.Reqs = append(l.Reqs, mkReq(c1, ts))
							ts += 1
							l.Reqs = append(l.Reqs, mkReq(c2, ts))
							_ = pi
							m := len(l.Reqs)
							one := &Variant{ID: l.ID + ".v0", Engine: "mem", Part: partOne(m), Cut: -1, Expire: -1}
							tog := &Variant{ID: l.ID + ".v1", Engine: "mem", Part: append(partOne(m-2), []Call{{N: 1}, {N: 1}}), Cut: -1, Expire: -1}
							logs = append(logs, l)
							vars[l.ID] = []*Variant{one, tog}
						}
					}
				}
			}
		}
	}
	return logs, vars
}

// genEdges: every batchable command with boundary arguments (key / field / value sizes around the
// limits, TTL spellings, missing table, odd argument counts, too many fields), each preceded by two
// valid batchable writes, applied one per call / in one lifetime / in one call. A command that fails
// must fail alone (hypothesis no_abort_in_batch: an abort-class failure implies rvalid = false).
func genEdges(base int64) ([]*Log, map[string][]*Variant) {
	rep := func(c string, n int) string { return strings.Repeat(c, n) }
	ttls := []string{"1", "0", "-1", "+5", " 5", "5 ", "05", "0x10", "1e3", "abc", "", "4294967294", "4294967295", "4294967293", "3153600000", "2500000000", "2147483647",
		"9223372036854775807", "9223372036854775808", "99999999999", "1.5"}
	// the TTLs around the one whose expiry second (entry timestamp + TTL) is exactly the largest the uint32
	// header accepts: the pre-check and the handler (rawExpireAt: when >= MaxUint32-1 fails) must agree on each
	tsSec := (base + sec + 2) / sec // second of the edge command's timestamp (third request of each log)
	for k := int64(-3); k <= 2; k++ {
		ttls = append(ttls, strconv.FormatInt(int64(4294967295-1)-tsSec+k, 10))
	}
	keys := []string{"t:k", "t:", ":k", "nocolon", "t:" + rep("K", 10238), "t:" + rep("K", 10239), rep("T", 300) + ":k", "t:k:k", "t:\x00"}
	big := rep("v", 8*1024*1024)
	var cmds [][]string
	for _, k := range keys {
		cmds = append(cmds, []string{"set", k, "v"}, []string{"setex", k, "5", "v"}, []string{"del", k}, []string{"hmset", k, "f", "1"},
			[]string{"set", k, "v", "nx"}, []string{"set", k, "v", "ex", "5"})
	}
	for _, t := range ttls {
		cmds = append(cmds, []string{"setex", "t:k", t, "v"}, []string{"set", "t:k", "v", "ex", t}, []string{"set", "t:k", "v", "EX", t, "NX"})
	}
	cmds = append(cmds,
		[]string{"set", "t:k", "v", "nx", "xx"}, []string{"set", "t:k", "v", "ex"}, []string{"set", "t:k", "v", "px", "5"},
		[]string{"set", "t:k", "v", "nx", "nx"}, []string{"set", "t:k"}, []string{"setex", "t:k", "5"}, []string{"setex", "t:k", "5", "v", "w"},
		[]string{"set", "t:k", big + "v"}, []string{"setex", "t:k", "5", big + "v"},
		[]string{"hmset", "t:k", "f", big + "v"}, []string{"hmset", "t:k", "f"}, []string{"hmset", "t:k"}, []string{"hmset", "t:k", "f", "1", "g"},
		[]string{"hmset", "t:k", rep("F", 10240), "1"}, []string{"hmset", "t:k", rep("F", 10241), "1"},
		[]string{"hmset", "t:k", "ok", "1", rep("F", 10241), "2"}, []string{"hmset", "t:k", "", ""},
		[]string{"del", "t:k", "t:j"}, []string{"del", "t:k", "t:k"})
	many := []string{"hmset", "t:k"}
	for i := 0; i < 5001; i++ {
		many = append(many, "f"+strconv.Itoa(i), "1")
	}
	cmds = append(cmds, many, many[:len(many)-2])
	var logs []*Log
	vars := map[string][]*Variant{}
	n := 0
	for _, pol := range []string{"compact", "local"} {
		for _, c := range cmds {
			n++
			l := &Log{ID: "E" + strconv.Itoa(n), Policy: pol}
			l.Reqs = append(l.Reqs, mkReq([]string{"set", "t:a", "1"}, sec), mkReq([]string{"hmset", "t2:h", "f", "1"}, sec+1), mkReq(c, sec+2),
				mkReq([]string{"setex", "t:b", "9", "2"}, sec+3))
			m := len(l.Reqs)
			logs = append(logs, l)
			vars[l.ID] = []*Variant{
				{ID: l.ID + ".v0", Engine: "mem", Part: partOne(m), Cut: -1, Expire: -1},
				{ID: l.ID + ".v1", Engine: "mem", Part: partGiant(m, m), Cut: -1, Expire: -1},
				{ID: l.ID + ".v2", Engine: "mem", Part: [][]Call{{{N: m}}}, Cut: -1, Expire: -1},
			}
		}
	}
	return logs, vars
}

// genPartial: a multi-part write that fails part-way (after staging something in the store's shared
// write batch) between successful writes; applied live, and with a checkpoint + restore into a new
// store + replay of the tail at EVERY cut point: whatever the failed command staged must not depend
// on whether the following entries are applied by the same process.
func genPartial() ([]*Log, map[string][]*Variant) {
	long := strings.Repeat("M", 10241)
	fails := [][]string{
		{"mset", "t:a", "1", "notable", "2"}, {"plset", "t:a", "1", "notable", "2"},
		{"mset", "t:a", "1", "t:" + strings.Repeat("K", 10240), "2"},
		{"hmset", "t:a", "f", "1", long, "2"}, {"zadd", "t:a", "1", "m", "2", long}, {"sadd", "t:a", "m", long},
		{"hmset", "t:a", "f", "1", "g"}, {"zadd", "t:a", "1", "m", "x", "n"}, {"rpush", "t:a", "1", long},
		{"json.set", "t:a", "a", "{bad"}, {"setex", "t:a", "0", "v"}, {"hincrby", "t:a", "f", "x"},
		// a later VALUE over MaxValueSize (errValueSize) after the first pair has been staged
		{"mset", "t:a", "1", "t:z", strings.Repeat("v", 8*1024*1024+1)}, {"plset", "t:a", "1", "t:z", strings.Repeat("v", 8*1024*1024+1)},
		{"hmset", "t:a", "f", "1", "g", strings.Repeat("v", 8*1024*1024+1)},
	}
	nexts := [][]string{{"set", "t:b", "2"}, {"incr", "t:c"}, {"hmset", "t:h", "f", "1"}, {"sadd", "t:s", "m"}, {"del", "t:x"}}
	var logs []*Log
	vars := map[string][]*Variant{}
	n := 0
	for _, pol := range []string{"compact", "local"} {
		for _, f := range fails {
			for ni, nx := range nexts {
				if ni > 1 && (pol == "local" || ni > 2) {
					continue
				}
				n++
				l := &Log{ID: "P" + strconv.Itoa(n), Policy: pol}
				l.Reqs = append(l.Reqs, mkReq([]string{"set", "t:x", "0"}, sec), mkReq(f, 2*sec), mkReq(nx, 3*sec), mkReq([]string{"set", "t:y", "9"}, 4*sec))
				m := len(l.Reqs)
				logs = append(logs, l)
				vs := []*Variant{{ID: l.ID + ".v0", Engine: "mem", Part: partOne(m), Cut: -1, Expire: -1}}
				for c := 0; c <= m; c++ {
					vs = append(vs, &Variant{ID: l.ID + ".v" + strconv.Itoa(c+1), Engine: "mem", Part: partOne(m), Cut: c, Expire: -1})
				}
				if ni == 0 {
					vs = append(vs, &Variant{ID: l.ID + ".v" + strconv.Itoa(m+2), Engine: "pebble", Part: partOne(m), Cut: 2, Expire: -1})
				}
				vars[l.ID] = vs
			}
		}
	}
	return logs, vars
}

// genBig: collections larger than RangeDeleteNum (cleared by a RANGE deletion), re-created under the
// same key and then trimmed / cleared again, on mem, pebble and rocksdb: range tombstones, the engines'
// iterators over them and the size records must give the same replies and data everywhere.
func genBig() ([]*Log, map[string][]*Variant) {
	mem := func(prefix string, from, to int) []string {
		o := make([]string, 0, to-from)
		for i := from; i < to; i++ {
			o = append(o, prefix+strconv.Itoa(100000+i))
		}
		return o
	}
	scored := func(from, to int) []string {
		o := make([]string, 0, 2*(to-from))
		for i := from; i < to; i++ {
			o = append(o, strconv.Itoa(i), "m"+strconv.Itoa(100000+i))
		}
		return o
	}
	fv := func(from, to int) []string {
		o := make([]string, 0, 2*(to-from))
		for i := from; i < to; i++ {
			o = append(o, "f"+strconv.Itoa(100000+i), "v")
		}
		return o
	}
	type step struct {
		a  []string
		dt int64 // ns after the previous entry
	}
	cat := func(h []string, t []string) []string { return append(append([]string{}, h...), t...) }
	mk := func(sameTs bool) map[string][]step {
		d := int64(sec)
		if sameTs {
			d = 0 // creation, clear and re-creation carry one timestamp (same value version under wait_compact)
		}
		return map[string][]step{
			"z": {{cat([]string{"zadd", "t:big"}, scored(0, 2550)), sec}, {cat([]string{"zadd", "t:big"}, scored(2550, 5100)), d},
				{[]string{"zclear", "t:big"}, d}, {[]string{"zadd", "t:big", "10", "a", "20", "b", "30", "c", "40", "d"}, d},
				{[]string{"zremrangebyrank", "t:big", "0", "0"}, sec}, {[]string{"zremrangebyscore", "t:big", "15", "25"}, 1},
				{[]string{"zremrangebylex", "t:big", "[c", "[c"}, 1}, {[]string{"zadd", "t:big", "5", "e"}, 1}, {[]string{"zincrby", "t:big", "1", "d"}, 1}},
			"zr": {{cat([]string{"zadd", "t:big"}, scored(0, 2550)), sec}, {cat([]string{"zadd", "t:big"}, scored(2550, 5100)), d},
				{[]string{"zremrangebyrank", "t:big", "0", "-1"}, d}, {[]string{"zadd", "t:big", "10", "a", "20", "b", "30", "c"}, d},
				{[]string{"zremrangebyrank", "t:big", "1", "1"}, sec}, {[]string{"zrem", "t:big", "a", "zz"}, 1}},
			"h": {{cat([]string{"hmset", "t:big"}, fv(0, 2550)), sec}, {cat([]string{"hmset", "t:big"}, fv(2550, 5100)), d},
				{[]string{"hclear", "t:big"}, d}, {[]string{"hmset", "t:big", "a", "1", "b", "2"}, d},
				{[]string{"hdel", "t:big", "a", "f100001"}, sec}, {[]string{"hincrby", "t:big", "b", "5"}, 1}, {[]string{"hset", "t:big", "f100002", "w"}, 1}},
			"s": {{cat([]string{"sadd", "t:big"}, mem("m", 0, 2550)), sec}, {cat([]string{"sadd", "t:big"}, mem("m", 2550, 5100)), d},
				{[]string{"sclear", "t:big"}, d}, {[]string{"sadd", "t:big", "a", "b", "m100001"}, d},
				{[]string{"spop", "t:big", "2"}, sec}, {[]string{"srem", "t:big", "m100001", "m100002"}, 1}, {[]string{"sadd", "t:big", "m100003"}, 1}},
			"l": {{cat([]string{"rpush", "t:big"}, mem("e", 0, 2550)), sec}, {cat([]string{"rpush", "t:big"}, mem("e", 2550, 5100)), d},
				{[]string{"ltrim", "t:big", "5050", "-1"}, d}, {[]string{"lpush", "t:big", "x"}, d}, {[]string{"lpop", "t:big"}, sec},
				{[]string{"lclear", "t:big"}, 1}, {[]string{"rpush", "t:big", "a", "b"}, 1}, {[]string{"rpop", "t:big"}, 1}},
			"zx": {{cat([]string{"zadd", "t:big"}, scored(0, 2550)), sec}, {cat([]string{"zadd", "t:big"}, scored(2550, 5100)), d},
				{[]string{"zexpire", "t:big", "1"}, d}, {[]string{"zadd", "t:big", "10", "a", "20", "b"}, 3 * sec},
				{[]string{"zremrangebyrank", "t:big", "0", "0"}, 1}, {[]string{"zmclear", "t:big"}, 1}, {[]string{"zadd", "t:big", "1", "q"}, 1}},
		}
	}
	var logs []*Log
	vars := map[string][]*Variant{}
	n := 0
	for _, pol := range []string{"local", "compact"} {
		for _, same := range []bool{false, true} {
			if pol == "local" && same {
				continue
			}
			classes := mk(same)
			for _, name := range []string{"z", "zr", "h", "s", "l", "zx"} {
				n++
				l := &Log{ID: "G" + strconv.Itoa(n), Policy: pol}
				ts := int64(0)
				for _, st := range classes[name] {
					ts += st.dt
					l.Reqs = append(l.Reqs, mkReq(st.a, ts))
				}
				m := len(l.Reqs)
				logs = append(logs, l)
				vars[l.ID] = []*Variant{
					{ID: l.ID + ".v0", Engine: "mem", Part: partOne(m), Cut: -1, Expire: -1},
					{ID: l.ID + ".v1", Engine: "pebble", Part: partOne(m), Cut: -1, Expire: -1},
					{ID: l.ID + ".v2", Engine: "rocksdb", Part: partOne(m), Cut: -1, Expire: -1},
					{ID: l.ID + ".v3", Engine: "mem", Part: partGiant(m, m), Cut: -1, Expire: -1},
				}
			}
		}
	}
	return logs, vars
}

// genCompact: a value of every type gets a TTL, expires (by the log's timestamps), and is then touched by
// a read-modify-write command; wait_compact policy, the log years before the node's clock. Run on rocksdb
// with a forced full compaction right after the expiry (its compaction filter drops, on the node's own
// clock, what has been expired for more than 48 h) and without, and on pebble and mem: whether the dead
// data is still physically there must not show in any reply or in the data.
func genCompact() ([]*Log, map[string][]*Variant) {
	type cls struct {
		create [][]string
		expire []string
		touch  [][]string
	}
	classes := []cls{
		{[][]string{{"hmset", "t:k", "f", "41", "g", "x"}}, []string{"hexpire", "t:k", "2"},
			[][]string{{"hincrby", "t:k", "f", "1"}, {"hsetnx", "t:k", "f", "9"}, {"hset", "t:k", "g", "y"}, {"hdel", "t:k", "f"}, {"hmset", "t:k", "h", "1"}, {"hclear", "t:k"}, {"hpersist", "t:k"}, {"hexpire", "t:k", "5"}}},
		{[][]string{{"set", "t:k", "41"}}, []string{"expire", "t:k", "2"},
			[][]string{{"incr", "t:k"}, {"append", "t:k", "x"}, {"setnx", "t:k", "9"}, {"getset", "t:k", "9"}, {"set", "t:k", "9", "xx"}, {"setrange", "t:k", "1", "z"}, {"del", "t:k"}, {"persist", "t:k"}, {"expire", "t:k", "5"}, {"setifeq", "t:k", "41", "9"}, {"delifeq", "t:k", "41"}}},
		{[][]string{{"rpush", "t:k", "a", "b"}}, []string{"lexpire", "t:k", "2"},
			[][]string{{"lpush", "t:k", "c"}, {"rpop", "t:k"}, {"lset", "t:k", "0", "z"}, {"ltrim", "t:k", "0", "0"}, {"lclear", "t:k"}, {"lpersist", "t:k"}}},
		{[][]string{{"sadd", "t:k", "a", "b"}}, []string{"sexpire", "t:k", "2"},
			[][]string{{"sadd", "t:k", "a"}, {"srem", "t:k", "a"}, {"spop", "t:k"}, {"sclear", "t:k"}, {"spersist", "t:k"}}},
		{[][]string{{"zadd", "t:k", "1", "a", "2", "b"}}, []string{"zexpire", "t:k", "2"},
			[][]string{{"zincrby", "t:k", "5", "a"}, {"zadd", "t:k", "9", "a"}, {"zrem", "t:k", "a"}, {"zremrangebyrank", "t:k", "0", "0"}, {"zremrangebyscore", "t:k", "0", "5"}, {"zclear", "t:k"}, {"zpersist", "t:k"}}},
		{[][]string{{"setbitv2", "t:k", "9", "1"}}, []string{"bexpire", "t:k", "2"},
			[][]string{{"setbitv2", "t:k", "3", "1"}, {"bitclear", "t:k"}, {"bpersist", "t:k"}}},
	}
	var logs []*Log
	vars := map[string][]*Variant{}
	n := 0
	for _, c := range classes {
		for _, t := range c.touch {
			n++
			l := &Log{ID: "C" + strconv.Itoa(n), Policy: "compact"}
			ts := int64(sec)
			l.Reqs = append(l.Reqs, mkReq([]string{"set", "t:other", "1"}, ts))
			for _, a := range c.create {
				ts += sec
				l.Reqs = append(l.Reqs, mkReq(a, ts))
			}
			ts += 1
			l.Reqs = append(l.Reqs, mkReq(c.expire, ts))
			cutAt := len(l.Reqs)
			ts += 10 * sec // well past the expiry
			l.Reqs = append(l.Reqs, mkReq(t, ts))
			ts += 1
			l.Reqs = append(l.Reqs, mkReq(t, ts)) // and once more on whatever the first touch left
			ts += 1
			l.Reqs = append(l.Reqs, mkReq([]string{"set", "t:other", "2"}, ts))
			m := len(l.Reqs)
			logs = append(logs, l)
			mkv := func(k int, eng string, comp int) *Variant {
				return &Variant{ID: l.ID + ".v" + strconv.Itoa(k), Engine: eng, Part: partOne(m), Shift: 2, Cut: -1, Expire: -1, Compact: comp, compactSet: true}
			}
			vars[l.ID] = []*Variant{mkv(0, "rocksdb", -1), mkv(1, "rocksdb", cutAt), mkv(2, "pebble", -1), mkv(3, "mem", -1), mkv(4, "pebble", cutAt)}
		}
	}
	return logs, vars
}

// genSweep: local-deletion policy, ONE key name holding values of several data types of which only one
// gets a TTL; the log lies years before the node's clock, the node-local expiry sweep runs after the TTL
// command on one replica and never on the other: only the value with the TTL may disappear.
func genSweep() ([]*Log, map[string][]*Variant) {
	create := map[string][]string{
		"k": {"set", "t:x", "v"}, "h": {"hmset", "t:x", "f", "1"}, "l": {"rpush", "t:x", "a", "b"},
		"s": {"sadd", "t:x", "m"}, "z": {"zadd", "t:x", "1", "m"},
	}
	ttl := map[string][]string{
		"k": {"expire", "t:x", "1"}, "h": {"hexpire", "t:x", "1"}, "l": {"lexpire", "t:x", "1"},
		"s": {"sexpire", "t:x", "1"}, "z": {"zexpire", "t:x", "1"},
	}
	touch := map[string][]string{
		"k": {"append", "t:x", "w"}, "h": {"hincrby", "t:x", "f", "1"}, "l": {"rpush", "t:x", "c"},
		"s": {"sadd", "t:x", "n"}, "z": {"zincrby", "t:x", "1", "m"},
	}
	types := []string{"k", "h", "l", "s", "z"}
	var logs []*Log
	vars := map[string][]*Variant{}
	n := 0
	for _, a := range types {
		n++
		l := &Log{ID: "W" + strconv.Itoa(n), Policy: "local"}
		ts := int64(sec)
		for _, t := range types {
			ts += 1
			l.Reqs = append(l.Reqs, mkReq(create[t], ts))
		}
		if a == "k" {
			// SETEX creates and expires in one command
			ts += 1
			l.Reqs = append(l.Reqs, mkReq([]string{"setex", "t:x", "1", "v2"}, ts))
		}
		ts += 1
		l.Reqs = append(l.Reqs, mkReq(ttl[a], ts))
		at := len(l.Reqs)
		ts += 5 * sec
		for _, t := range types {
			ts += 1
			l.Reqs = append(l.Reqs, mkReq(touch[t], ts))
		}
		m := len(l.Reqs)
		logs = append(logs, l)
		mkv := func(k int, exp int) *Variant {
			return &Variant{ID: l.ID + ".v" + strconv.Itoa(k), Engine: "pebble", Part: partOne(m), Shift: 2, Cut: -1, Expire: exp, Compact: -1}
		}
		vars[l.ID] = []*Variant{mkv(0, -1), mkv(1, at), mkv(2, m)}
	}
	// the recent past: several values due, one not yet due but inside the sweep's one-hour look-ahead; the sweep
	// on mem, pebble and rocksdb replicas must remove the same values, and nothing that is not past its expiry
	due := [][][]string{
		{{"setex", "t:a", "10", "1"}, {"setex", "t:b", "20", "2"}, {"setex", "t:c", "1000", "3"}, {"set", "t:d", "4"}},
		{{"hmset", "t:a", "f", "1"}, {"hexpire", "t:a", "10"}, {"sadd", "t:b", "m"}, {"sexpire", "t:b", "30"}, {"zadd", "t:c", "1", "m"}, {"zexpire", "t:c", "2000"},
			{"rpush", "t:e", "x"}, {"lexpire", "t:e", "15"}, {"setex", "t:f", "900", "v"}, {"set", "t:d", "4"}},
		{{"setex", "t:c", "1000", "3"}, {"setex", "t:a", "5", "1"}, {"set", "t:d", "4"}, {"setex", "t:b", "40", "2"}, {"setex", "t:g", "3000", "9"}},
	}
	for _, cmds := range due {
		n++
		l := &Log{ID: "W" + strconv.Itoa(n), Policy: "local"}
		ts := int64(0)
		for _, c := range cmds {
			ts += 1000
			l.Reqs = append(l.Reqs, mkReq(c, ts))
		}
		m := len(l.Reqs)
		logs = append(logs, l)
		mkv := func(k int, eng string, exp int) *Variant {
			return &Variant{ID: l.ID + ".v" + strconv.Itoa(k), Engine: eng, Part: partOne(m), Shift: len(shifts), Cut: -1, Expire: exp, Compact: -1, Rewind: -1}
		}
		vars[l.ID] = []*Variant{mkv(0, "pebble", -1), mkv(1, "pebble", m), mkv(2, "mem", m), mkv(3, "rocksdb", m)}
	}
	return logs, vars
}

// genHll: keys that only PFADD ever touches; a checkpoint + restore into a new store at EVERY cut, and a
// running replica installing the checkpoint of every earlier position. The byte-level views of such keys
// depend on flush times (open findings), their PFCOUNT after a final flush + restart does not: it must
// be the same in every variant.
func genHll() ([]*Log, map[string][]*Variant) {
	var logs []*Log
	vars := map[string][]*Variant{}
	n := 0
	for _, pol := range []string{"compact", "local"} {
		for _, eng := range []string{"mem", "pebble"} {
			n++
			l := &Log{ID: "Y" + strconv.Itoa(n), Policy: pol}
			cmds := [][]string{{"pfadd", "t:p", "a"}, {"pfadd", "t:r", "u", "v", "w"}, {"set", "t:o", "1"}, {"pfadd", "t:p", "b", "c"},
				{"pfadd", "t:q", "x", "y"}, {"del", "t:r"}, {"pfadd", "t:s", "k"}, {"pfadd", "t:p", "d"}, {"del", "t:s"}, {"pfadd", "t:q", "y", "z"},
				{"pfadd", "t:s", "l", "m"}, {"set", "t:o", "2"}}
			for i, c := range cmds {
				l.Reqs = append(l.Reqs, mkReq(c, int64(i+1)*sec))
			}
			m := len(l.Reqs)
			logs = append(logs, l)
			k := 0
			mkv := func(cut, rew int) *Variant {
				v := &Variant{ID: l.ID + ".v" + strconv.Itoa(k), Engine: eng, Part: partOne(m), Cut: cut, Expire: -1, Compact: -1, Rewind: rew, rewindSet: true}
				k++
				return v
			}
			vs := []*Variant{mkv(-1, -1)}
			for c := 0; c <= m; c++ {
				vs = append(vs, mkv(c, -1))
			}
			for c := 0; c <= m; c++ {
				for w := c; w <= m; w += 2 {
					vs = append(vs, mkv(c, w))
				}
			}
			vars[l.ID] = vs
		}
	}
	return logs, vars
}

func mkReq(a []string, ts int64) Req {
	r := Req{Kind: 'R', Ts: ts}
	for _, s := range a {
		r.Args = append(r.Args, []byte(s))
	}
	return r
}

// ------------------------------------------------------------------ shrinking

func project(l *Log, v *Variant, keep []bool) (*Log, *Variant) {
	nl := &Log{ID: l.ID, Policy: l.Policy}
	nv := &Variant{ID: v.ID, Engine: v.Engine, Replay: v.Replay, Shift: v.Shift, Syncer: v.Syncer, Cut: -1, Expire: -1, Compact: -1, Rewind: -1}
	pos := 0
	kept := 0
	for _, op := range v.Part {
		var nop []Call
		for _, c := range op {
			m := 0
			for i := 0; i < c.N; i++ {
				if pos == v.Cut {
					nv.Cut = kept
				}
				if pos == v.Expire {
					nv.Expire = kept
				}
				if pos == v.Compact {
					nv.Compact = kept
				}
				if pos == v.Rewind {
					nv.Rewind = kept
				}
				if keep[pos] {
					m++
					kept++
				}
				pos++
			}
			if m > 0 {
				nop = append(nop, Call{Flag: c.Flag, N: m})
			}
		}
		if len(nop) > 0 {
			nv.Part = append(nv.Part, nop)
		}
	}
	if v.Cut >= pos {
		nv.Cut = kept
	}
	if v.Expire >= pos {
		nv.Expire = kept
	}
	if v.Compact >= pos {
		nv.Compact = kept
	}
	if v.Rewind >= pos {
		nv.Rewind = kept
	}
	for i, r := range l.Reqs {
		if keep[i] {
			nl.Reqs = append(nl.Reqs, r)
		}
	}
	return nl, nv
}

func differ(x *runner, l *Log, a, b *Variant, keep []bool, what string) bool {
	la, va := project(l, a, keep)
	_, vb := project(l, b, keep)
	ra, e1 := x.run(la, va)
	rb, e2 := x.run(la, vb)
	if e1 != nil || e2 != nil {
		return false
	}
	switch what {
	case "replies":
		return strings.Join(ra.replies, ";") != strings.Join(rb.replies, ";")
	case "dump":
		return ra.dump != rb.dump
	case "raw":
		return ra.raw != rb.raw
	case "pfr":
		return pfrOf(ra.dump) != pfrOf(rb.dump)
	}
	return strings.Join(ra.replies, ";") != strings.Join(rb.replies, ";") || ra.dump != rb.dump
}

func pfrOf(d string) string {
	var p []string
	for _, e := range strings.Split(d, " || ") {
		if strings.HasPrefix(e, "pfr") {
			p = append(p, e)
		}
	}
	return strings.Join(p, " ")
}

func doShrink(x *runner, file, out string) {
	var l *Log
	var vs []*Variant
	what := "any"
	for _, line := range hx.ReadLines(file) {
		f := strings.Split(line, "\t")
		if len(f) < 2 {
			continue
		}
		switch f[1] {
		case "LOG":
			l, _ = parseLog(f)
		case "VAR":
			v, err := parseVariant(f)
			if err == nil {
				vs = append(vs, v)
			}
		case "WHAT":
			if len(f) > 2 {
				what = f[2]
			}
		}
	}
	if l == nil || len(vs) != 2 {
		fmt.Fprintln(os.Stderr, "shrink: need one LOG and two VAR lines")
		os.Exit(2)
	}
	n := len(l.Reqs)
	keep := make([]bool, n)
	for i := range keep {
		keep[i] = true
	}
	if !differ(x, l, vs[0], vs[1], keep, what) {
		fmt.Fprintln(os.Stderr, "shrink: the two runs do not differ")
		os.Exit(3)
	}
	// delta debugging: drop chunks of decreasing size
	deadline := time.Now().Add(60 * time.Second)
	for chunk := n / 2; chunk >= 1; chunk /= 2 {
		changed := true
		for changed && time.Now().Before(deadline) {
			changed = false
			for lo := 0; lo < n; lo += chunk {
				var idx []int
				for i := lo; i < n && len(idx) < chunk; i++ {
					if keep[i] {
						idx = append(idx, i)
					}
				}
				if len(idx) == 0 {
					continue
				}
				for _, i := range idx {
					keep[i] = false
				}
				if differ(x, l, vs[0], vs[1], keep, what) {
					changed = true
				} else {
					for _, i := range idx {
						keep[i] = true
					}
				}
			}
		}
	}
	nl, va := project(l, vs[0], keep)
	_, vb := project(l, vs[1], keep)
	sf := hx.Create(filepath.Join(out, "shrunk.tsv"))
	sf.Printf("%s\n%s\n%s\n", nl.line(), va.line(), vb.line())
	sf.Close()
}
