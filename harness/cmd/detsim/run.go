package main

// Execution of one (log, variant) on a REAL node.StateMachine (package smx): the requests reach
// kvStoreSM.ApplyRaftRequest grouped as the variant says; the batch operator handed to it is the
// real kvbatchOperator wrapped in a recorder (IBatchOperator is an interface, so every decision of
// the production batching logic is observed without a hook).

import (
	"crypto/sha1"
	"encoding/hex"
	"fmt"
	"os"
	"path/filepath"
	"strconv"
	"strings"
	"time"

	"github.com/youzan/ZanRedisDB/common"
	"github.com/youzan/ZanRedisDB/node"
	"github.com/youzan/ZanRedisDB/pkg/wait"
	"github.com/youzan/ZanRedisDB/rockredis"

	"verif/harness/internal/hx"
	"verif/harness/internal/smx"
)

type event struct {
	kind byte // Q IsBatchable, B BeginBatch, K AddBatchKey, R AddBatchRsp, C CommitBatch, A AbortBatchForError
	flag bool // Q: result; C/A: the operator was batching when called; B: begin succeeded
	err  error
}

type recOp struct {
	inner node.IBatchOperator
	ev    []event
}

func (o *recOp) SetBatched(b bool) { o.inner.SetBatched(b) }
func (o *recOp) IsBatched() bool   { return o.inner.IsBatched() }
func (o *recOp) BeginBatch() error {
	err := o.inner.BeginBatch()
	o.ev = append(o.ev, event{kind: 'B', flag: err == nil})
	return err
}
func (o *recOp) AddBatchKey(pk string) {
	o.inner.AddBatchKey(pk)
	o.ev = append(o.ev, event{kind: 'K'})
}
func (o *recOp) AddBatchRsp(id uint64, v interface{}) {
	o.inner.AddBatchRsp(id, v)
	o.ev = append(o.ev, event{kind: 'R'})
}
func (o *recOp) IsBatchable(name string, pk string, args [][]byte) bool {
	r := o.inner.IsBatchable(name, pk, args)
	o.ev = append(o.ev, event{kind: 'Q', flag: r})
	return r
}
func (o *recOp) CommitBatch() {
	was := o.inner.IsBatched()
	o.inner.CommitBatch()
	o.ev = append(o.ev, event{kind: 'C', flag: was})
}
func (o *recOp) AbortBatchForError(err error) {
	was := o.inner.IsBatched()
	o.inner.AbortBatchForError(err)
	o.ev = append(o.ev, event{kind: 'A', flag: was, err: err})
}

func evTok(e event) string {
	f := "0"
	if e.flag {
		f = "1"
	}
	switch e.kind {
	case 'Q', 'C', 'A':
		return string(e.kind) + f
	case 'B':
		if e.flag {
			return "B"
		}
		return "B!"
	}
	return string(e.kind)
}

func errHash(e error) string {
	h := sha1.Sum([]byte(e.Error()))
	return hex.EncodeToString(h[:2])
}

// result of one run
type runOut struct {
	replies []string // canonical reply per request (smx.CanonReply; "panic"; "noreply")
	kinds   []string // V | E<hash of the error text>   (correspondence)
	own     []string // per request: class.errhash  (o | a | s)  observed from the operator calls
	trace   []string // operator call tokens, in order
	dump    string
	raw     string
	note    string
	base    int64    // absolute time of the log's origin in this run
	part    [][]Call // the partition really used (a cut splits the lifetime it falls into)
}

type runner struct {
	baseNow int64 // wall clock (ns, whole seconds) the shifts are relative to
	keepRaw bool
}

func (x *runner) baseOf(shift int) int64 {
	if shift == len(shifts) {
		// the recent past: the log starts 100 s before the wall clock (TTLs of seconds are due, of minutes not)
		return time.Now().UnixNano() - 100*sec
	}
	return x.baseNow + shifts[shift]*365*86400*sec
}

const (
	unknownDataType = 77
)

func buildIRs(s *smx.SM, l *Log, from, to int, base int64, next *uint64) ([]node.InternalRaftRequest, []uint64, []wait.WaitResult) {
	n := to - from
	irs := make([]node.InternalRaftRequest, n)
	ids := make([]uint64, n)
	wrs := make([]wait.WaitResult, n)
	for i := 0; i < n; i++ {
		r := l.Reqs[from+i]
		ids[i] = *next
		*next++
		wrs[i] = s.W.Register(ids[i])
		h := node.RequestHeader{ID: ids[i], DataType: int32(node.RedisReq), Timestamp: base + r.Ts}
		var data []byte
		switch r.Kind {
		case 'X':
			h.DataType = unknownDataType
			data = []byte("x")
		case 'G':
			data = []byte("*x\r\n")
		default:
			data = common.BuildCommand(r.Args).Raw
		}
		irs[i] = node.InternalRaftRequest{Header: h, Data: data}
	}
	return irs, ids, wrs
}

// applyPart feeds requests [from,to) of the log grouped by part (whose calls must add up to to-from).
func (x *runner) applyPart(s *smx.SM, l *Log, from, to int, part [][]Call, replay bool, syncer bool, base int64, next *uint64, out *runOut) {
	irs, ids, wrs := buildIRs(s, l, from, to, base, next)
	pf := l.pfKeys()
	stop := make(chan struct{})
	type seg struct{ lo, hi int } // event range of a request
	pos := 0
	for _, op := range part {
		rec := &recOp{inner: s.SM.GetBatchOperator()}
		callBounds := []int{}
		reqOfCall := [][2]int{}
		msg, panicked := hx.Recover(func() {
			for _, c := range op {
				var rl node.BatchInternalRaftRequest
				rl.ReqNum = int32(c.N)
				rl.Reqs = irs[pos : pos+c.N]
				if c.N == 1 {
					rl.Timestamp = irs[pos].Header.Timestamp
				}
				if c.Flag {
					rl.ReqId = *next
					*next++
				}
				if syncer {
					rl.Type = node.FromClusterSyncer
				}
				reqOfCall = append(reqOfCall, [2]int{pos, pos + c.N})
				s.SM.ApplyRaftRequest(replay, rec, rl, 1, ids[pos], stop)
				callBounds = append(callBounds, len(rec.ev))
				pos += c.N
			}
			rec.CommitBatch()
		})
		if panicked {
			out.note += "panic:" + msg + ";"
			func() {
				defer func() { recover() }()
				s.Store.AbortBatch()
				rec.inner.SetBatched(false)
			}()
			// requests of this lifetime that were not consumed
			done := 0
			for _, rc := range reqOfCall {
				done = rc[1]
			}
			pos = done
			if done == 0 {
				pos += op[0].N
			}
		}
		// derive each request's own outcome from the operator calls of its call
		evStart := 0
		for ci, rc := range reqOfCall {
			evEnd := len(rec.ev)
			if ci < len(callBounds) {
				evEnd = callBounds[ci]
			}
			evs := rec.ev[evStart:evEnd]
			// split at Q events, in request order (only 'R' kind requests produce a Q)
			qi := -1
			var qpos []int
			for k, e := range evs {
				if e.kind == 'Q' {
					qpos = append(qpos, k)
				}
			}
			for r := rc[0]; r < rc[1]; r++ {
				cls, eh := "", "-"
				if l.Reqs[from+r].Kind == 'R' && syncer && !replay && rc[1]-rc[0] == 1 && len(qpos) == 0 {
					// live cluster-syncer entry on which the state machine made no batch decision at all:
					// ignored by the conflict pre-check (calls of syncer variants hold one request)
					cls = "c"
				} else if l.Reqs[from+r].Kind == 'R' {
					qi++
					if qi < len(qpos) {
						hi := len(evs)
						if qi+1 < len(qpos) {
							hi = qpos[qi+1]
						}
						for _, e := range evs[qpos[qi]:hi] {
							if e.kind == 'R' && cls == "" {
								cls = "o"
							}
							if e.kind == 'A' && cls == "" {
								cls = "a"
								eh = errHash(e.err)
							}
						}
					}
				}
				out.own[from+r] = cls + "." + eh // completed below from the reply when still undecided
			}
			evStart = evEnd
		}
		for _, e := range rec.ev {
			out.trace = append(out.trace, evTok(e))
		}
		out.trace = append(out.trace, "/")
	}
	// replies
	for i := range ids {
		gi := from + i
		if s.W.IsRegistered(ids[i]) {
			s.W.Trigger(ids[i], nil)
			out.replies[gi] = "noreply"
			if strings.Contains(out.note, "panic") {
				out.replies[gi] = "panic"
			}
			out.kinds[gi] = "N"
		} else {
			select {
			case <-wrs[i].WaitC():
			default:
			}
			v := wrs[i].GetResult()
			out.replies[gi] = smx.CanonReply(v)
			if b, ok := v.([]byte); ok && len(b) > 40 && len(l.Reqs[gi].Args) > 1 && pf[string(l.Reqs[gi].Args[1])] {
				// GETSET (or any command replying the stored string) on a PFADDed key: the reply is the
				// HyperLogLog library's map-ordered serialisation (see dump(), -hllprobe)
				out.replies[gi] = "$hllbytes"
			}
			if e, ok := v.(error); ok && e != nil {
				out.kinds[gi] = "E" + errHash(e)
			} else {
				out.kinds[gi] = "V"
			}
		}
		if strings.HasPrefix(out.own[gi], ".") {
			// not decided by an operator call: the reply was triggered directly
			if strings.HasPrefix(out.kinds[gi], "E") {
				out.own[gi] = "s." + out.kinds[gi][1:]
			} else {
				out.own[gi] = "o.-"
			}
		}
	}
}

func (x *runner) run(l *Log, v *Variant) (*runOut, error) {
	n := len(l.Reqs)
	out := &runOut{replies: make([]string, n), kinds: make([]string, n), own: make([]string, n)}
	total := 0
	for _, op := range v.Part {
		for _, c := range op {
			total += c.N
		}
	}
	if total != n {
		return nil, fmt.Errorf("%s: partition covers %d of %d requests", v.ID, total, n)
	}
	base := x.baseOf(v.Shift)
	out.base = base
	s, err := smx.Open(v.Engine, l.Policy)
	if err != nil {
		return nil, err
	}
	defer func() { s.Close() }()
	next := uint64(1)
	if (v.Cut < 0 || v.Cut > n) && v.Compact >= 0 && v.Compact <= n {
		// a full compaction at a node-local moment: the engine may drop, on the node's own clock, what has
		// been expired for long (rocksdb compaction filter); replies and data must not depend on it
		p1, p2 := splitPart(v.Part, v.Compact)
		x.applyPart(s, l, 0, v.Compact, p1, v.Replay, v.Syncer, base, &next, out)
		func() {
			defer func() { recover() }()
			s.Store.CompactAllRange()
		}()
		x.applyPart(s, l, v.Compact, n, p2, v.Replay, v.Syncer, base, &next, out)
		out.part = append(append([][]Call{}, p1...), p2...)
	} else if v.Cut < 0 || v.Cut > n {
		if v.Expire >= 0 && v.Expire <= n && l.Policy == "local" {
			p1, p2 := splitPart(v.Part, v.Expire)
			x.applyPart(s, l, 0, v.Expire, p1, v.Replay, v.Syncer, base, &next, out)
			if err := localExpireSweep(s); err != nil {
				out.note += "sweep:" + err.Error() + ";"
			}
			x.applyPart(s, l, v.Expire, n, p2, v.Replay, v.Syncer, base, &next, out)
			out.part = append(append([][]Call{}, p1...), p2...)
		} else {
			out.part = v.Part
			x.applyPart(s, l, 0, n, v.Part, v.Replay, v.Syncer, base, &next, out)
		}
	} else if v.Rewind >= v.Cut && v.Rewind <= n {
		// a RUNNING replica installs a checkpoint: entries [0,Rewind) live with a checkpoint taken at Cut,
		// then the checkpoint is restored on the same store and the log is replayed from Cut
		p1, p2 := splitPart(v.Part, v.Cut)
		x.applyPart(s, l, 0, v.Cut, p1, false, v.Syncer, base, &next, out)
		bi := s.Store.Backup(1, uint64(v.Cut)+1)
		for try := 0; bi == nil && try < 200; try++ {
			time.Sleep(2 * time.Millisecond)
			bi = s.Store.Backup(1, uint64(v.Cut)+1)
		}
		if bi == nil {
			return nil, fmt.Errorf("backup refused")
		}
		if _, err := bi.GetResult(); err != nil {
			return nil, fmt.Errorf("backup: %v", err)
		}
		pm, _ := splitPart(p2, v.Rewind-v.Cut)
		scratch := &runOut{replies: make([]string, n), kinds: make([]string, n), own: make([]string, n)}
		x.applyPart(s, l, v.Cut, v.Rewind, pm, false, v.Syncer, base, &next, scratch)
		if err := s.Store.Restore(1, uint64(v.Cut)+1); err != nil {
			return nil, fmt.Errorf("restore: %v", err)
		}
		x.applyPart(s, l, v.Cut, n, p2, true, v.Syncer, base, &next, out)
		out.part = append(append([][]Call{}, p1...), p2...)
	} else {
		// prefix live on store A, checkpoint, restore into a NEW store B, tail replayed there
		p1, p2 := splitPart(v.Part, v.Cut)
		x.applyPart(s, l, 0, v.Cut, p1, false, v.Syncer, base, &next, out)
		bi := s.Store.Backup(1, uint64(v.Cut)+1)
		for try := 0; bi == nil && try < 200; try++ {
			// Backup refuses while the store's backup goroutine is not yet waiting for a request
			time.Sleep(2 * time.Millisecond)
			bi = s.Store.Backup(1, uint64(v.Cut)+1)
		}
		if bi == nil {
			return nil, fmt.Errorf("backup refused")
		}
		if _, err := bi.GetResult(); err != nil {
			return nil, fmt.Errorf("backup: %v", err)
		}
		s2, err := smx.Open(v.Engine, l.Policy)
		if err != nil {
			return nil, err
		}
		ck := rockredis.GetCheckpointDir(1, uint64(v.Cut)+1)
		src := filepath.Join(s.Store.GetBackupDir(), ck)
		dst := filepath.Join(s2.Store.GetBackupDir(), ck)
		if err := copyDir(src, dst); err != nil {
			s2.Close()
			return nil, fmt.Errorf("copy checkpoint: %v", err)
		}
		if err := s2.Store.Restore(1, uint64(v.Cut)+1); err != nil {
			s2.Close()
			return nil, fmt.Errorf("restore: %v", err)
		}
		s.Close()
		s = s2
		next2 := next
		x.applyPart(s, l, v.Cut, n, p2, true, v.Syncer, base, &next2, out)
		out.part = append(append([][]Call{}, p1...), p2...)
	}
	out.dump = dump(s, l.universe(), l.pfKeys())
	if pure := l.purePfKeys(); len(pure) > 0 {
		// PFCOUNT of every pure PFADD target after a final flush + restart (checkpoint, restore into a new store):
		// whatever the flush points during the run were, the sketches that reach the disk must be the same
		if s3, err := restartCopy(s, uint64(n)+1000); err == nil {
			var p []string
			for _, k := range pure {
				p = append(p, "pfr("+hx.H(k)+")="+s3.Read(bs("pfcount"), k))
			}
			out.dump += " || " + strings.Join(p, " || ")
			s3.Close()
		} else {
			out.dump += " || pfr=err:" + err.Error()
		}
	}
	rawLines := s.RawDump()
	h := sha1.New()
	for _, ln := range rawLines {
		h.Write([]byte(ln))
		h.Write([]byte{'\n'})
	}
	out.raw = hex.EncodeToString(h.Sum(nil)[:8])
	if x.keepRaw {
		out.note += "raw:" + strings.Join(rawLines, " ") + ";"
	}
	return out, nil
}

// splitPart cuts a partition after `at` requests (a call straddling the cut is split).
func splitPart(p [][]Call, at int) ([][]Call, [][]Call) {
	var a, b [][]Call
	seen := 0
	for _, op := range p {
		var oa, ob []Call
		for _, c := range op {
			switch {
			case seen+c.N <= at:
				oa = append(oa, c)
			case seen >= at:
				ob = append(ob, c)
			default:
				oa = append(oa, Call{Flag: c.Flag, N: at - seen})
				ob = append(ob, Call{Flag: c.Flag, N: seen + c.N - at})
			}
			seen += c.N
		}
		if len(oa) > 0 {
			a = append(a, oa)
		}
		if len(ob) > 0 {
			b = append(b, ob)
		}
	}
	return a, b
}

func copyDir(src, dst string) error {
	if err := os.MkdirAll(dst, 0o755); err != nil {
		return err
	}
	ents, err := os.ReadDir(src)
	if err != nil {
		return err
	}
	for _, e := range ents {
		sp, dp := filepath.Join(src, e.Name()), filepath.Join(dst, e.Name())
		if e.IsDir() {
			if err := copyDir(sp, dp); err != nil {
				return err
			}
			continue
		}
		b, err := os.ReadFile(sp)
		if err != nil {
			return err
		}
		if err := os.WriteFile(dp, b, 0o644); err != nil {
			return err
		}
	}
	return nil
}

// ------------------------------------------------------------------ logical dump

func bs(s string) []byte { return []byte(s) }

func ttlClass(r string) string {
	switch {
	case r == ":-1":
		return "n"
	case strings.HasPrefix(r, ":"):
		return "T"
	}
	return r
}

// dump reads every type's view of every key through the production read handlers, and the table
// key counters. TTL values are wall-clock relative: only "has a TTL" is kept.
func dump(s *smx.SM, keys [][]byte, pf map[string]bool) string {
	var p []string
	tables := map[string]bool{}
	var torder []string
	for _, k := range keys {
		if i := strings.IndexByte(string(k), ':'); i >= 0 {
			t := string(k[:i])
			if !tables[t] {
				tables[t] = true
				torder = append(torder, t)
			}
		}
		var o []string
		add := func(name, val, empty string) {
			if val != empty {
				o = append(o, name+"="+val)
			}
		}
		// A key that was the target of a PFADD: its string views (GET bytes, the TTL and bit count derived
		// from those bytes) are the HyperLogLog library's gob serialisation, which iterates a Go map
		// (tmpSet) and so differs from run to run for equal sketches. That nondeterminism is demonstrated
		// and reported by the dedicated probe (-hllprobe); here only PFCOUNT and the other views are kept.
		if !pf[string(k)] {
			add("get", s.Read(bs("get"), k), "_")
			add("ttl", ttlClass(s.Read(bs("ttl"), k)), "n")
		} else {
			add("getnil", map[bool]string{true: "1", false: "0"}[s.Read(bs("get"), k) == "_"], "1")
		}
		add("hall", s.Read(bs("hgetall"), k), "*0")
		add("hlen", s.Read(bs("hlen"), k), ":0")
		add("httl", ttlClass(s.Read(bs("httl"), k)), "n")
		add("lr", s.Read(bs("lrange"), k, bs("0"), bs("-1")), "*0")
		add("llen", s.Read(bs("llen"), k), ":0")
		add("lttl", ttlClass(s.Read(bs("lttl"), k)), "n")
		add("sm", s.Read(bs("smembers"), k), "*0")
		add("scard", s.Read(bs("scard"), k), ":0")
		add("sttl", ttlClass(s.Read(bs("sttl"), k)), "n")
		add("zr", s.Read(bs("zrange"), k, bs("0"), bs("-1"), bs("withscores")), "*0")
		add("zcard", s.Read(bs("zcard"), k), ":0")
		add("zttl", ttlClass(s.Read(bs("zttl"), k)), "n")
		if !pf[string(k)] {
			add("bitc", s.Read(bs("bitcount"), k), ":0")
		}
		add("bttl", ttlClass(s.Read(bs("bttl"), k)), "n")
		add("json", s.Read(bs("json.get"), k), "*1 $-")
		if pf[string(k)] {
			// (PFCOUNT of a key that never was a HyperLogLog reads the raw stored bytes without looking at the
			// value header or the expiry: a type-confused read, left out)
			add("pfc", s.Read(bs("pfcount"), k), ":0")
		}
		if len(o) > 0 {
			p = append(p, hx.H(k)+"{"+strings.Join(o, " | ")+"}")
		}
	}
	for _, t := range torder {
		c, err := s.Store.GetTableKeyCount([]byte(t))
		if err != nil {
			p = append(p, "cnt("+hx.H([]byte(t))+")=err")
		} else if c != 0 {
			p = append(p, "cnt("+hx.H([]byte(t))+")="+strconv.FormatInt(c, 10))
		}
	}
	return strings.Join(p, " || ")
}

// localExpireSweep: what the local-deletion policy's background goroutine does on its own clock.
// (verif hook rockredis.VerifLocalExpireOnce)
func localExpireSweep(s *smx.SM) error { return s.Store.VerifLocalExpireOnce() }

const haveSweep = true

var _ = time.Now

// ------------------------------------------------------------------ observed write sets

// keyClass decodes an engine key into its class and owner: 0 kv, 1 hsize, 2 hfield, 3 table counter,
// 4 expire-time index; owner = the primary key "table:key" (the table for a counter). 99 = another class.
func keyClass(k []byte) (int, []byte) {
	if len(k) == 0 {
		return 99, nil
	}
	switch k[0] {
	case rockredis.KVType:
		if pk, err := rockredis.VerifDecodeKVKey(k); err == nil {
			return 0, pk
		}
	case rockredis.HSizeType:
		if pk, err := rockredis.VerifHDecodeSizeKey(k); err == nil {
			return 1, pk
		}
	case rockredis.HashType:
		if _, raw, _, err := rockredis.VerifConvertCollDBKeyToRawKey(k); err == nil {
			return 2, raw
		}
		// local-deletion policy: the collection key carries no version
		if t, key, _, err := rockredis.VerifHDecodeHashKey(k); err == nil {
			return 2, append(append(append([]byte{}, t...), ':'), key...)
		}
	case rockredis.TableMetaType:
		if t, err := rockredis.VerifDecodeTableMetaKey(k); err == nil {
			return 3, t
		}
	case rockredis.ExpTimeType:
		if len(k) >= 10 {
			return 4, k[10:]
		}
	}
	return 99, nil
}

func rawMap(s *smx.SM) map[string]string {
	m := map[string]string{}
	for _, ln := range s.RawDump() {
		if i := strings.IndexByte(ln, '='); i >= 0 {
			m[ln[:i]] = ln[i+1:]
		}
	}
	return m
}

// writeSets applies the log one request per call and reports, for every batchable-name command, the
// classes of the engine keys it changed: c for a key owned by the command's own primary key (its table
// for the counter), 100+c for a key owned by something else.
func (x *runner) writeSets(l *Log, engine string) ([]string, error) {
	s, err := smx.Open(engine, l.Policy)
	if err != nil {
		return nil, err
	}
	defer s.Close()
	n := len(l.Reqs)
	out := &runOut{replies: make([]string, n), kinds: make([]string, n), own: make([]string, n)}
	next := uint64(1)
	base := x.baseOf(0)
	var res []string
	for i, r := range l.Reqs {
		var before map[string]string
		name := ""
		if r.Kind == 'R' && len(r.Args) >= 2 {
			name = strings.ToLower(string(r.Args[0]))
		}
		watch := rockredis.IsBatchableWrite(name) && !(name == "del" && len(r.Args) > 2)
		if watch {
			before = rawMap(s)
		}
		x.applyPart(s, l, i, i+1, [][]Call{{{N: 1}}}, false, false, base, &next, out)
		if !watch {
			continue
		}
		after := rawMap(s)
		pk := r.Args[1]
		table := pk
		if j := strings.IndexByte(string(pk), ':'); j >= 0 {
			table = pk[:j]
		}
		seen := map[int]bool{}
		note := func(k string) {
			c, owner := keyClass(hx.UnH(k))
			own := string(owner) == string(pk)
			if c == 3 {
				own = string(owner) == string(table)
			}
			if c == 99 || !own {
				c += 100
			}
			seen[c] = true
		}
		for k, v := range after {
			if bv, ok := before[k]; !ok || bv != v {
				note(k)
			}
		}
		for k := range before {
			if _, ok := after[k]; !ok {
				note(k)
			}
		}
		var cs []string
		for c := 0; c < 200; c++ {
			if seen[c] {
				cs = append(cs, strconv.Itoa(c))
			}
		}
		res = append(res, fmt.Sprintf("%s.w%d\tWS\t%s\t%s", l.ID, i, hx.H([]byte(name)), strings.Join(cs, ",")))
	}
	return res, nil
}

// hllProbe: the stored bytes of one HyperLogLog key after a flush, over several identical runs.
func (x *runner) hllProbe(trials int) ([]string, error) {
	l := &Log{ID: "H", Policy: "compact", Reqs: []Req{mkReq([]string{"pfadd", "t:p", "a", "b", "c", "d", "e"}, sec)}}
	var vals []string
	for i := 0; i < trials; i++ {
		s, err := smx.Open("mem", l.Policy)
		if err != nil {
			return nil, err
		}
		out := &runOut{replies: make([]string, 1), kinds: make([]string, 1), own: make([]string, 1)}
		next := uint64(1)
		x.applyPart(s, l, 0, 1, partOne(1), false, false, x.baseOf(0), &next, out)
		bi := s.Store.Backup(1, 2)
		for try := 0; bi == nil && try < 200; try++ {
			time.Sleep(2 * time.Millisecond)
			bi = s.Store.Backup(1, 2)
		}
		if bi != nil {
			bi.GetResult()
		}
		vals = append(vals, s.Read(bs("get"), []byte("t:p")))
		s.Close()
	}
	return vals, nil
}

// restartCopy: flush + checkpoint of s, restored into a NEW store (what a restarted or newly joined replica reads).
func restartCopy(s *smx.SM, idx uint64) (*smx.SM, error) {
	bi := s.Store.Backup(3, idx)
	for try := 0; bi == nil && try < 200; try++ {
		time.Sleep(2 * time.Millisecond)
		bi = s.Store.Backup(3, idx)
	}
	if bi == nil {
		return nil, fmt.Errorf("backup refused")
	}
	if _, err := bi.GetResult(); err != nil {
		return nil, err
	}
	s2, err := smx.Open(s.Engine, s.Policy)
	if err != nil {
		return nil, err
	}
	ck := rockredis.GetCheckpointDir(3, idx)
	if err := copyDir(filepath.Join(s.Store.GetBackupDir(), ck), filepath.Join(s2.Store.GetBackupDir(), ck)); err != nil {
		s2.Close()
		return nil, err
	}
	if err := s2.Store.Restore(3, idx); err != nil {
		s2.Close()
		return nil, err
	}
	return s2, nil
}
