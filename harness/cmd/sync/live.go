package main

// Case kind B: the REAL grpc handlers server.ApplyRaftReqs / server.GetSyncedRaft on a real single-replica
// server (real raft group, WAL, snapshot files) running in a CHILD PROCESS of the harness, so that a restart
// is a real crash: the parent SIGKILLs the child and starts a new one on the same data directory (startRaft:
// newest snapshot restored, WAL tail replayed through the apply-side filter).
//
// Line:  id \t B \t engine \t class \t ops   with ops
//   B:c.t.i.ts.p.f:c.t.i.ts.p.f:...   one ApplyRaftReqs call carrying these RaftLogData (f: '-' | 'b' RaftTimestamp mismatch)
//   S                                  force a snapshot (KVNode.BackupDB -> forceBackup -> beginSnapshot)
//   R:k                                SIGKILL + restart
//   Q:c:...                            source side (as in kind A, run in the parent on a bare node)
// All cases of a run share one server; every case uses its own cluster names and keys (prefix = case id).

import (
	"bufio"
	"context"
	"fmt"
	"io"
	"net"
	"os"
	"os/exec"
	"path"
	"path/filepath"
	"strconv"
	"strings"
	"syscall"
	"time"

	"github.com/youzan/ZanRedisDB/common"
	"github.com/youzan/ZanRedisDB/node"
	"github.com/youzan/ZanRedisDB/rockredis"
	"github.com/youzan/ZanRedisDB/server"
	"github.com/youzan/ZanRedisDB/syncerpb"
)

const liveNS = "vsync"
const liveGroup = "vsync-0"

// ---------- child ----------

func startServer(dir string, portBase int, eng string) (*server.Server, *node.NamespaceNode, error) {
	os.WriteFile(path.Join(dir, "myid"), []byte("1"), common.FILE_PERM)
	raftAddr := fmt.Sprintf("http://127.0.0.1:%d", portBase+2)
	opts := server.ServerConfig{
		ClusterID:       "verif-sync",
		DataDir:         dir,
		RedisAPIPort:    portBase,
		HttpAPIPort:     portBase + 1,
		GrpcAPIPort:     portBase + 3,
		ProfilePort:     -1,
		LocalRaftAddr:   raftAddr,
		BroadcastAddr:   "127.0.0.1",
		TickMs:          50,
		ElectionTick:    5,
		SyncerWriteOnly: true,
	}
	opts.RocksDBOpts.EngineType = eng
	kv, err := server.NewServer(opts)
	if err != nil {
		return nil, nil, err
	}
	var replica node.ReplicaInfo
	replica.NodeID = 1
	replica.ReplicaID = 1
	replica.RaftAddr = raftAddr
	nsConf := node.NewNSConfig()
	nsConf.Name = liveGroup
	nsConf.BaseName = liveNS
	nsConf.EngType = rockredis.EngType
	nsConf.PartitionNum = 1
	nsConf.Replicator = 1
	// a small snapshot interval: the node snapshots (GetSnapshot: data checkpoint + synced map) every few
	// applied entries and compacts its log, so that crash restarts restore from real snapshots
	nsConf.SnapCount = 5
	nsConf.SnapCatchup = 2
	nsConf.RaftGroupConf.GroupID = 1000
	nsConf.RaftGroupConf.SeedNodes = append(nsConf.RaftGroupConf.SeedNodes, replica)
	liveNsConf = nsConf
	n, err := kv.InitKVNamespace(1, nsConf, false)
	if err != nil {
		return nil, nil, err
	}
	kv.Start()
	deadline := time.Now().Add(25 * time.Second)
	for !(n.IsReady() && n.Node.IsLead() && n.IsNsNodeFullReady(true)) {
		if time.Now().After(deadline) {
			return nil, nil, fmt.Errorf("inconclusive: leader not elected in time")
		}
		time.Sleep(20 * time.Millisecond)
	}
	return kv, n, nil
}

// waitApplied: until the apply loop has finished everything that is committed
func waitApplied(n *node.NamespaceNode) {
	commit := n.Node.GetRaftStatus().Commit
	for w := 0; w < 5000 && n.Node.GetAppliedIndex() < commit; w++ {
		time.Sleep(time.Millisecond)
	}
}

var liveNsConf *node.NamespaceConfig

func snapFiles(dir string) int {
	m, _ := filepath.Glob(path.Join(dir, liveGroup, "snap-1", "*.snap"))
	return len(m)
}

// serve is the child: one command per stdin line, one reply line on the saved stdout.
func serve(dir string, portBase int, eng string, out *os.File) {
	// the rsync of a remote snapshot is played by the parent (it copies a real checkpoint into the remote backup
	// dir); must be in force BEFORE the node replays its log: a replayed TransferRemoteSnap request would otherwise
	// run the real rsync against a source that does not exist and wipe the transferred checkpoint
	common.SetStrDynamicConf(common.ConfIgnoreRemoteFileSync, "true")
	kv, n, err := startServer(dir, portBase, eng)
	if err != nil {
		fmt.Fprintf(out, "FAIL %v\n", err)
		return
	}
	fmt.Fprintf(out, "READY\n")
	in := bufio.NewReader(os.Stdin)
	for {
		line, err := in.ReadString('\n')
		if err != nil {
			return
		}
		f := strings.Fields(strings.TrimSpace(line))
		if len(f) == 0 {
			continue
		}
		reply := "?"
		switch f[0] {
		case "B": // B <prefix> <entry>...
			pre := f[1]
			var reqs syncerpb.RaftReqs
			for _, e := range f[2:] {
				g := strings.Split(e, ".")
				c := int(atoiU(g[0]))
				t, i, ts, p := atoiU(g[1]), atoiU(g[2]), int64(atoiU(g[3])), atoiU(g[4])
				rts := ts
				if g[5] == "b" {
					rts = ts + 1
				}
				reqs.RaftLog = append(reqs.RaftLog, syncerpb.RaftLogData{
					Type:          syncerpb.EntryNormalRaw,
					ClusterName:   pre + clusterName(c),
					RaftGroupName: liveGroup,
					Term:          t,
					Index:         i,
					RaftTimestamp: rts,
					Data:          wireDataP(pre, c, t, i, ts, p),
				})
			}
			rsp, err := kv.ApplyRaftReqs(context.Background(), &reqs)
			if err != nil {
				reply = "rpcerr"
			} else if rsp.ErrCode != 0 || rsp.ErrMsg != "" {
				reply = "err"
			} else {
				reply = "ok"
			}
		case "O": // O <prefix> <k>  -> synced map of c1..ck ; journal length
			// ApplyRaftReqs is answered when the state machine triggers the batch's request id, which happens inside
			// ApplyRaftRequest, i.e. BEFORE applyEntry calls postprocessRemoteApply: right after a successful call
			// GetSyncedRaft can still return the previous position (data applied, position not yet recorded).
			// Observe only when the apply loop has finished everything that is committed.
			waitApplied(n)
			pre := f[1]
			k := int(atoiU(f[2]))
			var parts []string
			for c := 1; c <= k; c++ {
				rsp, err := kv.GetSyncedRaft(context.Background(), &syncerpb.SyncedRaftReq{ClusterName: pre + clusterName(c), RaftGroupName: liveGroup})
				if err != nil {
					parts = append(parts, clusterName(c)+":rpcerr")
					continue
				}
				if rsp.Term != 0 || rsp.Index != 0 {
					parts = append(parts, fmt.Sprintf("%s:%d.%d.%s", clusterName(c), rsp.Term, rsp.Index, tsStr(rsp.Timestamp)))
				}
			}
			s := "-"
			if len(parts) > 0 {
				s = strings.Join(parts, "+")
			}
			jl, err := n.Node.VerifKVStore().LLen([]byte("t:" + pre + "j"))
			if err != nil {
				jl = -1
			}
			reply = fmt.Sprintf("%s;%d;-", s, jl)
		case "S":
			before := snapFiles(dir)
			n.Node.BackupDB(false)
			// (below SnapCount applied entries the node ignores even a forced backup: maybeTriggerSnapshot compares
			// with lastFailedSnapIndex+SnapCount; the request is then only one more local log entry)
			for w := 0; w < 15 && snapFiles(dir) <= before; w++ {
				time.Sleep(20 * time.Millisecond)
			}
			reply = "ok"
		case "N": // N stop | N start : the raft group of the namespace is stopped / created again on the same data
			if f[1] == "stop" {
				n.Close()
				for w := 0; w < 3000 && kv.GetNsMgr().GetNamespaceNode(liveGroup) != nil; w++ {
					time.Sleep(time.Millisecond)
				}
				reply = "ok"
			} else {
				var n2 *node.NamespaceNode
				var err error
				for w := 0; w < 5000; w++ {
					n2, err = kv.InitKVNamespace(1, liveNsConf, false)
					if err == nil {
						break
					}
					time.Sleep(2 * time.Millisecond)
				}
				if err != nil {
					reply = "initerr"
					break
				}
				if err := n2.Start(false); err != nil {
					reply = "starterr"
					break
				}
				n = n2
				reply = "ok"
				deadline := time.Now().Add(25 * time.Second)
				for !(n.IsReady() && n.Node.IsLead() && n.IsNsNodeFullReady(true)) {
					if time.Now().After(deadline) {
						reply = "notready"
						break
					}
					time.Sleep(10 * time.Millisecond)
				}
			}
		case "T", "P", "K": // <prefix> <c> <term> <index>: the real NotifyTransferSnap / NotifyApplySnap handlers
			req := &syncerpb.RaftApplySnapReq{
				ClusterName:   f[1] + clusterName(int(atoiU(f[2]))),
				RaftGroupName: liveGroup,
				Term:          atoiU(f[3]),
				Index:         atoiU(f[4]),
				SyncAddr:      "127.0.0.1",
				SyncPath:      "/verif-nonexistent",
			}
			var rsp *syncerpb.RpcErr
			var err error
			switch f[0] {
			case "T":
				rsp, err = kv.NotifyTransferSnap(context.Background(), req)
			case "K":
				req.Type = syncerpb.SkippedSnap
				rsp, err = kv.NotifyApplySnap(context.Background(), req)
			default:
				rsp, err = kv.NotifyApplySnap(context.Background(), req)
			}
			if err != nil {
				reply = "rpcerr"
			} else if rsp.ErrCode != 0 || rsp.ErrMsg != "" {
				reply = "err"
			} else {
				reply = "ok"
			}
		case "G": // G <prefix> <c> <term> <index>: the real GetApplySnapStatus handler
			waitApplied(n) // the transfer request is answered before its status is recorded (same reason as in O)
			rsp, err := kv.GetApplySnapStatus(context.Background(), &syncerpb.RaftApplySnapStatusReq{
				ClusterName:   f[1] + clusterName(int(atoiU(f[2]))),
				RaftGroupName: liveGroup,
				Term:          atoiU(f[3]),
				Index:         atoiU(f[4]),
			})
			if err != nil {
				reply = "rpcerr"
			} else {
				reply = fmt.Sprintf("g%d", int(rsp.Status))
			}
		case "E": // E <prefix> <maxc>
			reply = dumpP(n.Node.VerifKVStore(), f[1], int(atoiU(f[2])))
		}
		fmt.Fprintf(out, "%s\n", reply)
	}
}

// ---------- parent ----------

type child struct {
	cmd *exec.Cmd
	in  io.WriteCloser
	out *bufio.Reader
}

type live struct {
	dir, eng string
	port     int
	ch       *child
}

// freeBase looks for four consecutive bindable ports inside the range given to this harness (37000-37999).
// The range lies inside the kernel's ephemeral port range, so single ports are taken at random by other
// processes' outgoing connections: probe, and let spawn retry with the next candidate.
func freeBase(from int) int {
	for try := 0; try < 240; try++ {
		b := 37000 + ((from-37000)+try*4)%996
		ok := true
		var held []net.Listener
		for k, addr := range []string{":%d", ":%d", "127.0.0.1:%d", ":%d"} {
			ln, err := net.Listen("tcp", fmt.Sprintf(addr, b+k))
			if err != nil {
				ok = false
				break
			}
			held = append(held, ln)
		}
		for _, ln := range held {
			ln.Close()
		}
		if ok {
			return b
		}
	}
	return from
}

func (l *live) spawn() error {
	var last error
	for try := 0; try < 6; try++ {
		l.port = freeBase(l.port + try*8)
		if last = l.spawnOnce(); last == nil {
			return nil
		}
	}
	return last
}

func (l *live) spawnOnce() error {
	args := []string{"-serve", l.dir, "-port", strconv.Itoa(l.port), "-engines", l.eng}
	var logf *os.File
	if lp := os.Getenv("VERIF_SYNC_CHILDLOG"); lp != "" { // debugging aid: the child's repository logging
		args = append(args, "-v")
		logf, _ = os.OpenFile(lp, os.O_CREATE|os.O_APPEND|os.O_WRONLY, 0644)
	}
	cmd := exec.Command(os.Args[0], args...)
	cmd.Stderr = nil
	if logf != nil {
		cmd.Stderr = logf
		cmd.Stdout = logf
		defer logf.Close()
	}
	in, err := cmd.StdinPipe()
	if err != nil {
		return err
	}
	// the child's replies travel on fd 3 (its stdout is polluted by the mem engine's checkpoint printing)
	r, w, err := os.Pipe()
	if err != nil {
		return err
	}
	cmd.ExtraFiles = []*os.File{w}
	if err := cmd.Start(); err != nil {
		return err
	}
	w.Close()
	l.ch = &child{cmd: cmd, in: in, out: bufio.NewReader(r)}
	line, err := l.ch.out.ReadString('\n')
	if err != nil || !strings.HasPrefix(line, "READY") {
		l.kill()
		return fmt.Errorf("inconclusive: child did not become ready: %q %v", strings.TrimSpace(line), err)
	}
	return nil
}

func (l *live) kill() {
	if l.ch != nil {
		l.ch.cmd.Process.Signal(syscall.SIGKILL)
		l.ch.cmd.Wait()
		l.ch = nil
	}
}

func (l *live) ask(cmd string) (string, error) {
	if _, err := fmt.Fprintf(l.ch.in, "%s\n", cmd); err != nil {
		return "", err
	}
	line, err := l.ch.out.ReadString('\n')
	if err != nil {
		return "", err
	}
	return strings.TrimSpace(line), nil
}

func newLive(eng string, port int) (*live, error) {
	dir, err := os.MkdirTemp("", "verif-synclive-")
	if err != nil {
		return nil, err
	}
	l := &live{dir: dir, eng: eng, port: port}
	if err := l.spawn(); err != nil {
		os.RemoveAll(dir)
		return nil, err
	}
	return l, nil
}

func (l *live) close() {
	l.kill()
	os.RemoveAll(l.dir)
}

// runB executes one case on the shared live server. pre is the case's name prefix.
func runB(l *live, pre string, ops []string) (string, error) {
	var obs []string
	maxc := 0
	srcs := map[int][]sent{}
	restarted := false
	for _, op := range ops {
		f := strings.Split(op, ":")
		res := "?"
		fourth := ""
		switch f[0] {
		case "BE":
			// a call recorded from an end-to-end run whose answer was a time-out: effect compared, answer not
			var ents []string
			for _, e := range f[1:] {
				if e == "" {
					continue
				}
				g := strings.Split(e, ".")
				if c := int(atoiU(g[0])); c > maxc {
					maxc = c
				}
				ents = append(ents, e)
			}
			if _, err := l.ask("B " + pre + " " + strings.Join(ents, " ")); err != nil {
				return "", err
			}
			res = "any"
		case "W":
			c := int(atoiU(f[1]))
			if c > maxc {
				maxc = c
			}
			var sl []sent
			if len(f) > 2 && f[2] != "" {
				for _, e := range strings.Split(f[2], ",") {
					g := strings.Split(e, ".")
					sl = append(sl, sent{c: c, t: atoiU(g[0]), i: atoiU(g[1]), ts: int64(atoiU(g[2])), p: atoiU(g[3])})
				}
			}
			srcs[c] = sl
			continue
		case "G":
			// only the status question GetApplySnapStatus for the snapshot at source entry k (what the sender polls)
			c := int(atoiU(f[1]))
			k := int(atoiU(f[2]))
			if c > maxc {
				maxc = c
			}
			e := srcs[c][k-1]
			res = "ok"
			if !restarted {
				g, err := l.ask(fmt.Sprintf("G %s %d %d %d", pre, c, e.t, e.i))
				if err != nil {
					return "", err
				}
				fourth = g
			}
		case "T", "P", "K":
			c := int(atoiU(f[1]))
			k := int(atoiU(f[2]))
			if c > maxc {
				maxc = c
			}
			e := srcs[c][k-1]
			if f[0] == "P" && f[3] == "-" {
				to := path.Join(rockredis.GetBackupDirForRemote(path.Join(l.dir, liveGroup)), rockredis.GetCheckpointDir(e.t, e.i))
				if err := copySourceCheckpoint(l.eng, pre, srcs[c][:k], e.t, e.i, to); err != nil {
					return "", fmt.Errorf("prepare checkpoint: %v", err)
				}
			}
			r, err := l.ask(fmt.Sprintf("%s %s %d %d %d", f[0], pre, c, e.t, e.i))
			if err != nil {
				return "", err
			}
			res = r
			if !restarted {
				g, err := l.ask(fmt.Sprintf("G %s %d %d %d", pre, c, e.t, e.i))
				if err != nil {
					return "", err
				}
				fourth = g
			}
		case "B":
			var ents []string
			for _, e := range f[1:] {
				if e == "" {
					continue
				}
				g := strings.Split(e, ".")
				if c := int(atoiU(g[0])); c > maxc {
					maxc = c
				}
				ents = append(ents, e)
			}
			r, err := l.ask("B " + pre + " " + strings.Join(ents, " "))
			if err != nil {
				return "", err
			}
			res = r
		case "H":
			// a batch sent while the raft group is stopped (GetNamespaceNode answers nil then): the real handler must
			// refuse it; afterwards the group is created again on the same data (replays its log)
			var ents []string
			for _, e := range f[1:] {
				if e == "" {
					continue
				}
				g := strings.Split(e, ".")
				if c := int(atoiU(g[0])); c > maxc {
					maxc = c
				}
				ents = append(ents, e)
			}
			if r, err := l.ask("N stop"); err != nil || r != "ok" {
				return "", fmt.Errorf("namespace stop: %v %v", r, err)
			}
			r, err := l.ask("B " + pre + " " + strings.Join(ents, " "))
			if err != nil {
				return "", err
			}
			res = r
			if r2, err := l.ask("N start"); err != nil || r2 != "ok" {
				return "", fmt.Errorf("namespace start: %v %v", r2, err)
			}
			restarted = true
		case "S":
			r, err := l.ask("S")
			if err != nil {
				return "", err
			}
			res = r
		case "R":
			l.kill()
			if err := l.spawn(); err != nil {
				return "", err
			}
			restarted = true
			res = "ok"
		case "Q":
			c := int(atoiU(f[1]))
			var ents []string
			if len(f) > 2 && f[2] != "" {
				ents = strings.Split(f[2], ",")
			}
			mc := maxc
			if c > mc {
				mc = c
			}
			obs = append(obs, "SRC "+sourceDump("mem", c, ents, mc))
			continue
		default:
			res = "badop"
		}
		o, err := l.ask(fmt.Sprintf("O %s %d", pre, maxc))
		if err != nil {
			return "", err
		}
		if fourth != "" {
			o = strings.TrimSuffix(o, "-") + fourth
		}
		obs = append(obs, res+";"+o)
	}
	d, err := l.ask(fmt.Sprintf("E %s %d", pre, maxc))
	if err != nil {
		return "", err
	}
	obs = append(obs, "END "+d)
	return strings.Join(obs, " / "), nil
}

// genRpcSchedule: whole-RPC deliveries against the live server. class ord: every batch starts at or before the
// sender's cursor and runs forward without holes (retries after an error restart at the failed entry).
func genRpcSchedule(r interface {
	Pick(int) int
	Chance(float64) bool
}, class string) []string {
	k := 1 + r.Pick(2)
	src := make([][]sent, k+1)
	cur := make([]int, k+1)
	for c := 1; c <= k; c++ {
		src[c] = genSourceR(r, c)
	}
	var ops []string
	steps := 6 + r.Pick(10)
	restarts := 0
	downs := 0
	// class snap: one source, one remote snapshot point handed over through the real NotifyTransferSnap /
	// NotifyApplySnap handlers (with or without a usable checkpoint) BEFORE the first restart: the status map is
	// volatile and what survives a crash depends on where the node's own snapshots fell, so no snapshot request is
	// issued after a restart (the replay of the committed requests after the crash is still exercised)
	snapK, snapFiles, snapDone := 0, true, false
	askK := 0
	if class == "snap" {
		k = 1
		src = src[:2]
		cur = cur[:2]
		snapK = 1 + r.Pick(len(src[1]))
		snapFiles = !r.Chance(0.3)
		// another, LATER snapshot of the same source, preferably of the same raft term, that is only ASKED about
		// (the sender's status poll for a snapshot it has announced but whose announcement got lost)
		for try := 0; try < 30; try++ {
			a, b := 1+r.Pick(len(src[1])), 1+r.Pick(len(src[1]))
			if a < b && (askK == 0 || src[1][a-1].t == src[1][b-1].t) {
				snapK, askK = a, b
				if src[1][a-1].t == src[1][b-1].t {
					break
				}
			}
		}
		var es0 []string
		for _, e := range src[1] {
			es0 = append(es0, fmt.Sprintf("%d.%d.%d.%d", e.t, e.i, e.ts, e.p))
		}
		ops = append(ops, "W:1:"+strings.Join(es0, ","))
		if r.Chance(0.85) {
			// the hand-over right away, then the question about the later snapshot
			fl0 := "-"
			if !snapFiles {
				fl0 = "x"
			}
			ops = append(ops, fmt.Sprintf("T:1:%d", snapK), fmt.Sprintf("P:1:%d:%s", snapK, fl0))
			if askK > 0 {
				ops = append(ops, fmt.Sprintf("G:1:%d", askK))
			}
		}
	}
	downAt := r.Pick(steps) // every non-snapshot case sends one batch while the raft group is down
	for s := 0; s < steps; s++ {
		c := 1 + r.Pick(k)
		if class != "snap" && downs < 1 && s >= downAt && cur[c] < len(src[c]) {
			to := cur[c] + 1 + r.Pick(2)
			if to > len(src[c]) {
				to = len(src[c])
			}
			var ents []string
			for pos := cur[c]; pos < to; pos++ {
				e := src[c][pos]
				ents = append(ents, fmt.Sprintf("%d.%d.%d.%d.%d.-", e.c, e.t, e.i, e.ts, e.p))
			}
			ops = append(ops, "H:"+strings.Join(ents, ":"))
			downs++
			continue
		}
		if class == "snap" && restarts == 0 && r.Chance(0.35) {
			fl := "-"
			if !snapFiles {
				fl = "x"
			}
			switch y := r.Pick(10); {
			case y < 5: // the hand-over
				ops = append(ops, fmt.Sprintf("T:1:%d", snapK), fmt.Sprintf("P:1:%d:%s", snapK, fl))
				snapDone = true
				if askK > 0 {
					ops = append(ops, fmt.Sprintf("G:1:%d", askK))
				}
			case y < 7:
				ops = append(ops, fmt.Sprintf("T:1:%d", snapK))
			default:
				ops = append(ops, fmt.Sprintf("P:1:%d:%s", snapK, fl))
			}
			continue
		}
		switch x := r.Pick(20); {
		case x < 13:
			// a batch: optionally re-sends some already synced entries, then new ones; sometimes entries of
			// another cluster are mixed in; sometimes one NEW entry carries a wrong RaftTimestamp
			from := cur[c]
			cur0 := cur[c]
			if from > 0 && r.Chance(0.5) {
				from -= 1 + r.Pick(minInt(from, 3))
			}
			to := cur[c] + r.Pick(4)
			if to > len(src[c]) {
				to = len(src[c])
			}
			var ents []string
			stop := false
			for pos := from; pos < to && !stop; pos++ {
				e := src[c][pos]
				fl := "-"
				if pos >= cur[c] && r.Chance(0.1) {
					fl = "b"
					stop = true // the handler stops here; the sender will retry from this entry
				}
				ents = append(ents, fmt.Sprintf("%d.%d.%d.%d.%d.%s", e.c, e.t, e.i, e.ts, e.p, fl))
				if fl == "-" && pos >= cur[c] {
					cur[c] = pos + 1
					if r.Chance(0.15) { // duplicate inside the same batch
						ents = append(ents, fmt.Sprintf("%d.%d.%d.%d.%d.-", e.c, e.t, e.i, e.ts, e.p))
					}
				}
				if class == "any" && r.Chance(0.1) && pos+1 < to {
					pos++ // the sender jumps over an entry
				}
			}
			if !stop && cur[c] > cur0 && cur0 > 0 && r.Chance(0.5) {
				// the request ENDS with an entry the receiver already has (a re-sent log behind new ones)
				e := src[c][r.Pick(cur0)]
				ents = append(ents, fmt.Sprintf("%d.%d.%d.%d.%d.-", e.c, e.t, e.i, e.ts, e.p))
			}
			if len(ents) > 0 {
				ops = append(ops, "B:"+strings.Join(ents, ":"))
			}
		case x < 16:
			ops = append(ops, "S")
		case x < 18 && class != "snap" && downs < 1:
			// the next entries are sent while the raft group is down: refused, the sender will send them again
			to := cur[c] + 1 + r.Pick(2)
			if to > len(src[c]) {
				to = len(src[c])
			}
			var ents []string
			for pos := cur[c]; pos < to; pos++ {
				e := src[c][pos]
				ents = append(ents, fmt.Sprintf("%d.%d.%d.%d.%d.-", e.c, e.t, e.i, e.ts, e.p))
			}
			if len(ents) > 0 {
				ops = append(ops, "H:"+strings.Join(ents, ":"))
				downs++
			}
		default:
			if restarts < 2 {
				ops = append(ops, "R:1")
				restarts++
			}
		}
	}
	_ = snapDone
	if class == "ord" || class == "snap" {
		for c := 1; c <= k; c++ {
			var ents []string
			cur0 := cur[c]
			for ; cur[c] < len(src[c]); cur[c]++ {
				e := src[c][cur[c]]
				ents = append(ents, fmt.Sprintf("%d.%d.%d.%d.%d.-", e.c, e.t, e.i, e.ts, e.p))
			}
			if len(ents) > 0 && cur0 > 0 {
				e := src[c][r.Pick(cur0)] // the closing request ends with an already received log
				ents = append(ents, fmt.Sprintf("%d.%d.%d.%d.%d.-", e.c, e.t, e.i, e.ts, e.p))
			}
			if len(ents) > 0 {
				ops = append(ops, "B:"+strings.Join(ents, ":"))
			}
		}
	}
	for c := 1; c <= k; c++ {
		var es []string
		for _, e := range src[c] {
			es = append(es, fmt.Sprintf("%d.%d.%d.%d", e.t, e.i, e.ts, e.p))
		}
		ops = append(ops, fmt.Sprintf("Q:%d:%s", c, strings.Join(es, ",")))
	}
	return ops
}
