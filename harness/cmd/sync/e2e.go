package main

// Case kind E (end to end, sender included): the REAL log-syncer state machine of the source side
// (node.NewStateMachine with LearnerRole = role_log_syncer -> logSyncerSM + RemoteLogSender: ApplyRaftRequest,
// handlerRaftLogs batching, sendRaftLog retry loop, getRemoteSyncedRaft) ships the source log over real gRPC to
// the live receiver (kind B's child process) through a recording, fault-injecting proxy in this process:
//   - a call is forwarded and answered                     (recorded as a B op)
//   - a call is forwarded but the answer is replaced by an error ("response lost": the sender re-sends)
//   - a call is rejected without being forwarded           ("request lost")
//   - the receiver is SIGKILLed and restarted before the call is forwarded (recorded as R)
//   - a snapshot is requested before the call is forwarded (recorded as S)
// and the source-side state machine itself is closed and rebuilt in between (a learner restart: it is fed its
// raft log again from an index not above the receiver's synced position + 1).
// Batch boundaries depend on goroutine timing, so the case line is written AFTER the run: it is the sequence
// of calls that reached the receiver, in kind B syntax (class e2e).  The extracted model is run on that line;
// replaying the line re-issues the same calls directly (kind B).

import (
	"context"
	"errors"
	"fmt"
	"net"
	"net/http"
	"path"
	"strconv"
	"strings"
	"sync"
	"sync/atomic"
	"time"

	"github.com/youzan/ZanRedisDB/common"
	"github.com/youzan/ZanRedisDB/node"
	"github.com/youzan/ZanRedisDB/pkg/wait"
	"github.com/youzan/ZanRedisDB/raft/raftpb"
	"github.com/youzan/ZanRedisDB/rockredis"
	"github.com/youzan/ZanRedisDB/syncerpb"
	"google.golang.org/grpc"
	"verif/harness/internal/hx"
)

type fixedCluster struct {
	name     string
	httpPort string // a stand-in for the source replica that holds the snapshot's backup (answers /cluster/checkbackup)
}

func (f fixedCluster) GetClusterName() string { return f.name }
func (f fixedCluster) GetSnapshotSyncInfo(fullNS string) ([]common.SnapshotSyncInfo, error) {
	if f.httpPort == "" {
		return nil, errors.New("no snapshot sync in this harness")
	}
	return []common.SnapshotSyncInfo{{ReplicaID: 99, NodeID: 99, RemoteAddr: "127.0.0.1", HttpAPIPort: f.httpPort,
		DataRoot: "/verif-nonexistent", RsyncModule: "verifmod"}}, nil
}
func (f fixedCluster) UpdateMeForNamespaceLeader(fullNS string) (bool, error) { return true, nil }

type proxy struct {
	mu      sync.Mutex
	l       *live
	pre     string
	r       *hx.Rng
	conn    *grpc.ClientConn
	cli     syncerpb.CrossClusterAPIClient
	ops     []string // recorded B / R / S ops
	obs     []string // observation after each recorded op
	payload map[string]uint64
	maxc    int
	faults  int
	broken  string
	calls   int
	// snapshot hand-over
	src              map[int][]sent  // the source logs (to name a snapshot by its position and to build its checkpoint)
	handover         bool            // a hand-over is in progress: no receiver crash now (see runE)
	restarted        bool            // the receiver has been crashed at least once in this run
	copied           map[string]bool // checkpoints already copied into the receiver's remote backup directory
	skipCopy         int             // how many transfer notifications still "fail to bring the files"
	loseNextTransfer bool            // the next transfer notification is lost before it reaches the receiver
	stall            bool            // the receiver "cannot take logs": ApplyRaftReqs calls fail before they reach it
	snapFaults       int
}

func (p *proxy) dial() {
	if p.conn != nil {
		p.conn.Close()
	}
	conn, err := grpc.Dial(fmt.Sprintf("127.0.0.1:%d", p.l.port+3), grpc.WithInsecure())
	if err != nil {
		p.broken = "dial: " + err.Error()
		return
	}
	p.conn = conn
	p.cli = syncerpb.NewCrossClusterAPIClient(conn)
}

func (p *proxy) observe(op, res string) {
	p.observeG(op, res, "")
}

// observeG: g = the GetApplySnapStatus answer asked right after a snapshot request (as runB does on replay)
func (p *proxy) observeG(op, res, g string) {
	o, err := p.l.ask(fmt.Sprintf("O %s %d", p.pre, p.maxc))
	if err != nil {
		p.broken = "observe: " + err.Error()
		return
	}
	if g != "" {
		o = strings.TrimSuffix(o, "-") + g
	}
	p.ops = append(p.ops, op)
	p.obs = append(p.obs, res+";"+o)
}

func (p *proxy) ApplyRaftReqs(ctx context.Context, in *syncerpb.RaftReqs) (*syncerpb.RpcErr, error) {
	p.mu.Lock()
	defer p.mu.Unlock()
	p.calls++
	if p.broken != "" {
		return nil, errors.New("proxy broken")
	}
	if p.stall {
		return nil, errors.New("injected: the receiver cannot take logs now")
	}
	fault := 0
	if p.faults < 12 {
		switch x := p.r.Pick(100); {
		case x < 58:
		case x < 70:
			fault = 1 // response lost
		case x < 80:
			fault = 2 // request lost
		case x < 90:
			if !p.handover {
				fault = 3 // receiver crash before the call
			}
		default:
			fault = 4 // snapshot before the call
		}
	}
	if fault != 0 {
		p.faults++
	}
	if fault == 2 {
		return nil, errors.New("injected: request lost")
	}
	if fault == 3 {
		p.l.kill()
		if err := p.l.spawn(); err != nil {
			p.broken = "respawn: " + err.Error()
			return nil, errors.New("proxy broken")
		}
		p.dial()
		p.restarted = true
		p.observe("R:1", "ok")
	}
	if fault == 4 {
		if _, err := p.l.ask("S"); err != nil {
			p.broken = "snap: " + err.Error()
			return nil, errors.New("proxy broken")
		}
		p.observe("S", "ok")
	}
	// record what is about to reach the receiver
	var ents []string
	for _, rl := range in.RaftLog {
		if !strings.HasPrefix(rl.ClusterName, p.pre+"c") || rl.RaftGroupName != liveGroup {
			p.broken = "unexpected cluster/group on the wire: " + rl.ClusterName + "/" + rl.RaftGroupName
			return nil, errors.New("proxy broken")
		}
		c := int(atoiU(strings.TrimPrefix(rl.ClusterName, p.pre+"c")))
		if c > p.maxc {
			p.maxc = c
		}
		var reqList node.BatchInternalRaftRequest
		if err := reqList.Unmarshal(rl.Data); err != nil {
			p.broken = "undecodable data on the wire"
			return nil, errors.New("proxy broken")
		}
		fl := "-"
		if reqList.Timestamp != rl.RaftTimestamp {
			fl = "b"
		}
		pl, ok := p.payload[fmt.Sprintf("%d.%d", c, rl.Index)]
		if !ok || reqList.OrigIndex != rl.Index || reqList.OrigTerm != rl.Term || reqList.OrigCluster != rl.ClusterName {
			p.broken = fmt.Sprintf("wire entry does not match a source entry: %s %d-%d vs data %s %d-%d", rl.ClusterName, rl.Term, rl.Index,
				reqList.OrigCluster, reqList.OrigTerm, reqList.OrigIndex)
			return nil, errors.New("proxy broken")
		}
		ents = append(ents, fmt.Sprintf("%d.%d.%d.%d.%d.%s", c, rl.Term, rl.Index, reqList.Timestamp, pl, fl))
	}
	var rsp *syncerpb.RpcErr
	var err error
	for try := 0; try < 40; try++ { // the fresh connection may need a moment after a receiver restart
		c2, cancel := context.WithTimeout(context.Background(), 10*time.Second)
		rsp, err = p.cli.ApplyRaftReqs(c2, in)
		cancel()
		if err == nil {
			break
		}
		time.Sleep(50 * time.Millisecond)
	}
	if err != nil {
		p.broken = "forward: " + err.Error()
		return nil, errors.New("proxy broken")
	}
	res := "ok"
	opk := "B:"
	if rsp.ErrCode != 0 || rsp.ErrMsg != "" {
		// the real sender never ships a malformed entry: an error answer here is the handler's 4 s proposal time-out
		// on an overloaded machine (the entries may still commit).  The answer of such a call is not compared
		// (op BE), its effect is.
		res = "any"
		opk = "BE:"
	}
	p.observe(opk+strings.Join(ents, ":"), res)
	if fault == 1 {
		return nil, errors.New("injected: response lost")
	}
	return rsp, nil
}

func (p *proxy) GetSyncedRaft(ctx context.Context, in *syncerpb.SyncedRaftReq) (*syncerpb.SyncedRaftRsp, error) {
	p.mu.Lock()
	defer p.mu.Unlock()
	if p.broken != "" {
		return nil, errors.New("proxy broken")
	}
	var rsp *syncerpb.SyncedRaftRsp
	var err error
	for try := 0; try < 40; try++ {
		c2, cancel := context.WithTimeout(context.Background(), 5*time.Second)
		rsp, err = p.cli.GetSyncedRaft(c2, in)
		cancel()
		if err == nil {
			return rsp, nil
		}
		time.Sleep(50 * time.Millisecond)
	}
	return nil, err
}

// snapPoint: which source entry (1-based position) a snapshot request is about
func (p *proxy) snapPoint(req *syncerpb.RaftApplySnapReq) (int, int, bool) {
	if !strings.HasPrefix(req.ClusterName, p.pre+"c") || req.RaftGroupName != liveGroup {
		return 0, 0, false
	}
	c := int(atoiU(strings.TrimPrefix(req.ClusterName, p.pre+"c")))
	for k, e := range p.src[c] {
		if e.t == req.Term && e.i == req.Index {
			return c, k + 1, true
		}
	}
	return 0, 0, false
}

func (p *proxy) snapFault() int {
	if p.snapFaults >= 4 {
		return 0
	}
	switch x := p.r.Pick(100); {
	case x < 70:
		return 0
	case x < 85:
		p.snapFaults++
		return 1 // response lost
	default:
		p.snapFaults++
		return 2 // request lost
	}
}

func (p *proxy) askG(c int, term, index uint64) string {
	if p.restarted {
		return ""
	}
	g, err := p.l.ask(fmt.Sprintf("G %s %d %d %d", p.pre, c, term, index))
	if err != nil {
		p.broken = "status: " + err.Error()
		return ""
	}
	return g
}

// NotifyTransferSnap: the proxy also plays the file transfer (the receiver runs with ignore_remote_file_sync): it
// copies a real checkpoint of the source's first k entries into the receiver's remote backup directory - except
// that the first skipCopy notifications "fail to bring the files", so that the apply request fails and is retried.
func (p *proxy) NotifyTransferSnap(ctx context.Context, req *syncerpb.RaftApplySnapReq) (*syncerpb.RpcErr, error) {
	p.mu.Lock()
	defer p.mu.Unlock()
	if p.broken != "" {
		return nil, errors.New("proxy broken")
	}
	c, k, ok := p.snapPoint(req)
	if !ok {
		p.broken = "transfer notification for an unknown snapshot " + req.String()
		return nil, errors.New("proxy broken")
	}
	if c > p.maxc {
		p.maxc = c
	}
	p.handover = true
	if p.loseNextTransfer {
		p.loseNextTransfer = false
		return nil, errors.New("injected: request lost")
	}
	f := p.snapFault()
	if f == 2 {
		return nil, errors.New("injected: request lost")
	}
	key := fmt.Sprintf("%d.%d", req.Term, req.Index)
	if p.skipCopy > 0 {
		p.skipCopy--
	} else if !p.copied[key] {
		to := path.Join(rockredis.GetBackupDirForRemote(path.Join(p.l.dir, liveGroup)), rockredis.GetCheckpointDir(req.Term, req.Index))
		if err := copySourceCheckpointFrom(p.l.eng, p.pre, p.src[c][:k], req.Term, req.Index, to, req.SyncAddr+req.SyncPath); err != nil {
			p.broken = "copy checkpoint: " + err.Error()
			return nil, errors.New("proxy broken")
		}
		p.copied[key] = true
	}
	c2, cancel := context.WithTimeout(context.Background(), 10*time.Second)
	rsp, err := p.cli.NotifyTransferSnap(c2, req)
	cancel()
	if err != nil {
		p.broken = "forward transfer: " + err.Error()
		return nil, errors.New("proxy broken")
	}
	res := "ok"
	if rsp.ErrCode != 0 || rsp.ErrMsg != "" {
		res = "err"
	}
	p.observeG(fmt.Sprintf("T:%d:%d", c, k), res, p.askG(c, req.Term, req.Index))
	if f == 1 {
		return nil, errors.New("injected: response lost")
	}
	return rsp, nil
}

func (p *proxy) NotifyApplySnap(ctx context.Context, req *syncerpb.RaftApplySnapReq) (*syncerpb.RpcErr, error) {
	p.mu.Lock()
	defer p.mu.Unlock()
	if p.broken != "" {
		return nil, errors.New("proxy broken")
	}
	c, k, ok := p.snapPoint(req)
	if !ok || req.Type == syncerpb.SkippedSnap {
		p.broken = "apply notification not expected in this harness " + req.String()
		return nil, errors.New("proxy broken")
	}
	f := p.snapFault()
	if f == 2 {
		return nil, errors.New("injected: request lost")
	}
	fl := "x"
	if p.copied[fmt.Sprintf("%d.%d", req.Term, req.Index)] {
		fl = "-"
	}
	c2, cancel := context.WithTimeout(context.Background(), 10*time.Second)
	rsp, err := p.cli.NotifyApplySnap(c2, req)
	cancel()
	if err != nil {
		p.broken = "forward apply: " + err.Error()
		return nil, errors.New("proxy broken")
	}
	res := "ok"
	if rsp.ErrCode != 0 || rsp.ErrMsg != "" {
		res = "err"
	}
	// on replay (kind B) a P op with '-' copies the checkpoint itself, with 'x' it relies on an earlier copy
	p.observeG(fmt.Sprintf("P:%d:%d:%s", c, k, fl), res, p.askG(c, req.Term, req.Index))
	if f == 1 {
		return nil, errors.New("injected: response lost")
	}
	return rsp, nil
}

func (p *proxy) GetApplySnapStatus(ctx context.Context, req *syncerpb.RaftApplySnapStatusReq) (*syncerpb.RaftApplySnapStatusRsp, error) {
	p.mu.Lock()
	defer p.mu.Unlock()
	if p.broken != "" {
		return nil, errors.New("proxy broken")
	}
	c2, cancel := context.WithTimeout(context.Background(), 5*time.Second)
	defer cancel()
	return p.cli.GetApplySnapStatus(c2, req)
}

func (p *proxy) syncedIndex(c int) uint64 {
	p.mu.Lock()
	defer p.mu.Unlock()
	if p.broken != "" {
		return 0
	}
	c2, cancel := context.WithTimeout(context.Background(), 5*time.Second)
	defer cancel()
	rsp, err := p.cli.GetSyncedRaft(c2, &syncerpb.SyncedRaftReq{ClusterName: p.pre + clusterName(c), RaftGroupName: liveGroup})
	if err != nil {
		return 0
	}
	return rsp.Index
}

func newSyncerSM(cluster string, proxyAddr string, httpPort string) (node.StateMachine, error) {
	mc := node.MachineConfig{
		BroadcastAddr:     "127.0.0.2",
		LearnerRole:       common.LearnerRoleLogSyncer,
		RemoteSyncCluster: "test://" + proxyAddr,
	}
	sm, err := node.NewStateMachine(&node.KVOptions{}, mc, 7, liveGroup, fixedCluster{cluster, httpPort}, wait.New(), node.NewSlowLimiter(liveGroup))
	if err != nil {
		return nil, err
	}
	return sm, sm.Start()
}

// runE returns (case ops in kind-B syntax, observations) or an error (inconclusive).
func runE(l *live, pre string, r *hx.Rng, withSnap bool, failFirstApply bool, twoSnaps bool, noBackupFirst bool) (string, string, error) {
	k := 1 + r.Pick(2)
	if withSnap {
		k = 1 // a remote snapshot replaces the whole store: one source
	}
	src := make([][]sent, k+1)
	px := &proxy{l: l, pre: pre, r: r, payload: map[string]uint64{}, src: map[int][]sent{}, copied: map[string]bool{}}
	for c := 1; c <= k; c++ {
		src[c] = genSource(r, c)
		if twoSnaps {
			for len(src[c]) < 5 {
				src[c] = genSource(r, c)
			}
			for j := range src[c] {
				src[c][j].t = src[c][0].t // both snapshots of the same raft term
			}
		}
		px.src[c] = src[c]
		for _, e := range src[c] {
			px.payload[fmt.Sprintf("%d.%d", c, e.i)] = e.p
		}
	}
	px.dial()
	httpPort := ""
	handAt, handTo := -1, 0
	handAt2, handTo2 := -1, 0
	if withSnap {
		// the stand-in for the source replica holding the snapshot's backup: answers the check-backup request
		hl, herr := net.Listen("tcp", "127.0.0.1:0")
		if herr != nil {
			return "", "", herr
		}
		// noBackupFirst: at the first hand-over NO source replica has a backup matching the snapshot (the check answers
		// 404 three times = one PrepareSnapshot); the learner must fail this attempt and must not move on
		var noBackupLeft int32
		if noBackupFirst {
			noBackupLeft = 3
		}
		hs := &http.Server{Handler: http.HandlerFunc(func(w http.ResponseWriter, rq *http.Request) {
			if atomic.AddInt32(&noBackupLeft, -1) >= 0 {
				w.WriteHeader(404)
				return
			}
			w.WriteHeader(200)
		})}
		go hs.Serve(hl)
		defer hs.Close()
		httpPort = strconv.Itoa(hl.Addr().(*net.TCPAddr).Port)
		// the learner falls behind once: after handAt fed entries its raft sends it the snapshot covering handTo entries
		n := len(src[1])
		handAt = r.Pick(n)
		handTo = handAt + 1 + r.Pick(n-handAt)
		if twoSnaps {
			// a first hand-over early, a second one later: its first announcement (NotifyTransferSnap) is LOST, the
			// sender polls the status 5 s later all the same
			handAt = r.Pick(2)
			handTo = handAt + 1
			handAt2 = handTo + r.Pick(n-handTo-1)
			handTo2 = handAt2 + 1 + r.Pick(n-handAt2)
		}
		// the first transfer "does not bring the files": the receiver's apply of the snapshot FAILS, the sender must
		// notice (waitApplySnapStatus), give up this attempt and hand the snapshot over again
		if failFirstApply || r.Chance(0.4) {
			px.skipCopy = 1
		}
	}
	var ln net.Listener
	var err error
	pport := 0
	for try := 0; try < 200; try++ {
		pport = 37000 + (l.port-37000+16+try*3)%996
		ln, err = net.Listen("tcp", fmt.Sprintf("127.0.0.1:%d", pport))
		if err == nil {
			break
		}
	}
	if err != nil {
		return "", "", err
	}
	gs := grpc.NewServer()
	syncerpb.RegisterCrossClusterAPIServer(gs, px)
	go gs.Serve(ln)
	defer gs.Stop()
	defer func() {
		if px.conn != nil {
			px.conn.Close()
		}
	}()
	paddr := fmt.Sprintf("127.0.0.1:%d", pport)

	stop := make(chan struct{})
	sms := make([]node.StateMachine, k+1)
	for c := 1; c <= k; c++ {
		sms[c], err = newSyncerSM(pre+clusterName(c), paddr, httpPort)
		if err != nil {
			return "", "", err
		}
	}
	defer func() {
		for c := 1; c <= k; c++ {
			if sms[c] != nil {
				sms[c].Close()
			}
		}
	}()
	next := make([]int, k+1) // next source position to feed
	restarts := 0
	burst := 0
	done := func() bool {
		for c := 1; c <= k; c++ {
			if next[c] < len(src[c]) {
				return false
			}
		}
		return true
	}
	for !done() {
		c := 1 + r.Pick(k)
		if next[c] >= len(src[c]) {
			continue
		}
		if restarts < 2 && r.Chance(0.08) {
			// learner restart: the state machine is rebuilt and fed again from a point its own snapshot allows
			// (its snapshot waits for the buffered logs, so it never lies beyond what the receiver has synced)
			sms[c].Close()
			si := px.syncedIndex(c)
			from := 0
			for from < len(src[c]) && src[c][from].i <= si {
				from++
			}
			if from > 0 {
				from -= r.Pick(minInt(from, 3) + 1)
			}
			if from < next[c] {
				next[c] = from
			}
			sms[c], err = newSyncerSM(pre+clusterName(c), paddr, httpPort)
			if err != nil {
				return "", "", err
			}
			restarts++
			burst = 3 + r.Pick(4) // the replayed entries are queued together while the new send loop asks for the remote position
			continue
		}
		if withSnap && next[c] == handAt && handAt >= 0 {
			// the learner's raft hands it a snapshot: the real PrepareSnapshot (wait for the buffered logs, check the
			// remote position, find the backup, NotifyTransferSnap, poll, NotifyApplySnap, poll); on an error the
			// learner would stop and come back: the state machine is rebuilt and the snapshot handed over again
			handAt = -1
			e := src[c][handTo-1]
			var snap raftpb.Snapshot
			snap.Metadata.Term, snap.Metadata.Index = e.t, e.i
			okHand := false
			for try := 0; try < 6 && !okHand; try++ {
				herr := sms[c].PrepareSnapshot(snap, stop)
				if herr == nil {
					herr = sms[c].RestoreFromSnapshot(snap, stop)
				}
				if herr == nil {
					okHand = true
					break
				}
				sms[c].Close()
				sms[c], err = newSyncerSM(pre+clusterName(c), paddr, httpPort)
				if err != nil {
					return "", "", err
				}
			}
			px.mu.Lock()
			px.handover = false
			px.mu.Unlock()
			if !okHand {
				return "", "", errors.New("snapshot hand-over did not complete in 6 attempts")
			}
			next[c] = handTo
			if handAt2 >= 0 {
				// arm the second hand-over
				handAt, handTo = handAt2, handTo2
				handAt2 = -1
				if handAt < next[c] {
					handAt = next[c]
				}
				if handTo <= handAt {
					handTo = handAt + 1
				}
				px.mu.Lock()
				px.loseNextTransfer = true
				px.skipCopy = 0
				px.mu.Unlock()
			}
			continue
		}
		e := src[c][next[c]]
		rl := reqListForP(pre, c, e.p, e.ts) // an ordinary committed write of the source cluster
		if _, err := sms[c].ApplyRaftRequest(false, nil, rl, e.t, e.i, stop); err != nil {
			return "", "", fmt.Errorf("syncer sm apply: %v", err)
		}
		next[c]++
		if burst > 0 {
			burst--
		} else if r.Chance(0.3) {
			time.Sleep(time.Duration(r.Pick(30)) * time.Millisecond)
		}
	}
	// drain: wait until the receiver has synced the last entry of every source.  If the SENDER itself reports the
	// last entry as synced (its own synced_index) while the receiver stays behind, the run is conclusive: the case is
	// recorded as it is and the oracle judges it (entries never delivered).
	deadline := time.Now().Add(60 * time.Second)
	for c := 1; c <= k; c++ {
		last := src[c][len(src[c])-1].i
		var claimedSince, lastProbe time.Time
		drainStart := time.Now()
		for px.syncedIndex(c) < last {
			if px.broken != "" {
				return "", "", errors.New("proxy: " + px.broken)
			}
			claimed := false
			if st, ok := sms[c].GetStats("", false).InternalStats["synced_index"].(uint64); ok && st >= last {
				claimed = true
			}
			if claimed {
				if claimedSince.IsZero() {
					claimedSince = time.Now()
				} else if time.Since(claimedSince) > 2*time.Second {
					break
				}
			} else {
				claimedSince = time.Time{}
			}
			if time.Since(drainStart) > 5*time.Second && time.Since(lastProbe) > 5*time.Second {
				// every entry of the learner's raft log has been applied by its state machine; if its send buffer is
				// drained as well (its own GetSnapshot succeeds) nothing more will ever be sent: conclusive
				e := src[c][len(src[c])-1]
				if _, gerr := sms[c].GetSnapshot(e.t, e.i); gerr == nil {
					time.Sleep(2 * time.Second)
					break
				}
				lastProbe = time.Now()
			}
			if time.Now().After(deadline) {
				return "", "", fmt.Errorf("drain timeout: cluster %d synced %d < %d", c, px.syncedIndex(c), last)
			}
			time.Sleep(30 * time.Millisecond)
		}
	}
	for c := 1; c <= k; c++ {
		sms[c].Close()
		sms[c] = nil
	}
	px.mu.Lock()
	defer px.mu.Unlock()
	if px.broken != "" {
		return "", "", errors.New("proxy: " + px.broken)
	}
	var ops []string
	if withSnap {
		var es []string
		for _, e := range src[1] {
			es = append(es, fmt.Sprintf("%d.%d.%d.%d", e.t, e.i, e.ts, e.p))
		}
		ops = append(ops, "W:1:"+strings.Join(es, ","))
	}
	ops = append(ops, px.ops...)
	obs := append([]string{}, px.obs...)
	for c := 1; c <= k; c++ {
		var es []string
		for _, e := range src[c] {
			es = append(es, fmt.Sprintf("%d.%d.%d.%d", e.t, e.i, e.ts, e.p))
		}
		ops = append(ops, fmt.Sprintf("Q:%d:%s", c, strings.Join(es, ",")))
		var ents []string
		for _, e := range src[c] {
			ents = append(ents, fmt.Sprintf("%d.%d.%d.%d", e.t, e.i, e.ts, e.p))
		}
		mc := px.maxc
		if c > mc {
			mc = c
		}
		obs = append(obs, "SRC "+sourceDump("mem", c, ents, mc))
	}
	d, err := l.ask(fmt.Sprintf("E %s %d", pre, px.maxc))
	if err != nil {
		return "", "", err
	}
	obs = append(obs, "END "+d)
	return strings.Join(ops, " "), strings.Join(obs, " / "), nil
}

// runL: two more end-to-end scenarios on the SENDING side (real logSyncerSM instances, one source cluster), recorded
// like runE.  The receiver is stalled by the proxy (calls fail before they reach it), which takes real seconds:
//
//	variant "standby": learner L1 forwards, learner L2 is the stand-by (ignore mode: switchIgnoreSend(false)) applying
//	  the same raft log; the receiver stalls, L1 keeps its backlog and dies; L2 becomes the forwarding learner
//	  (VerifSyncerSwitchSend(true)).  A stand-by may only move past an entry once the receiver has it.
//	variant "lsnap": with a backlog (receiver stalled) the learner's raft asks for a snapshot (StateMachine.GetSnapshot,
//	  which waits 10 s for the buffered logs); only a SUCCESSFUL snapshot moves the point from which a restarted
//	  learner replays its raft log.  Then the learner dies and comes back.
func runL(l *live, pre string, r *hx.Rng, variant string) (string, string, error) {
	src := genSource(r, 1)
	for len(src) < 6 {
		src = genSource(r, 1)
	}
	if variant == "big" {
		// one long source log in one term: a backlog of some hundred entries builds up behind a stalled receiver and
		// leaves the learner as ONE pending batch
		src = src[:0]
		t0, i0 := uint64(1+r.Pick(3)), uint64(1+r.Pick(4))
		for j := 0; j < 2+270+r.Pick(60); j++ {
			i := i0 + uint64(j)
			src = append(src, sent{c: 1, t: t0, i: i, p: i*50 + uint64(r.Pick(50)), ts: 1600000000000000000 + 1000000 + int64(i)})
		}
	}
	if variant == "standby" {
		// the entries go on in ONE raft term: the stand-by holds a recorded remote position of that very term when the
		// forwarding learner dies (its short-cut compares term AND index)
		for j := range src {
			src[j].t = src[0].t
		}
	}
	px := &proxy{l: l, pre: pre, r: r, payload: map[string]uint64{}, src: map[int][]sent{1: src}, copied: map[string]bool{}}
	px.faults = 12 // no random faults in these runs: the stall is the fault
	for _, e := range src {
		px.payload[fmt.Sprintf("%d.%d", 1, e.i)] = e.p
	}
	px.dial()
	var ln net.Listener
	var err error
	pport := 0
	for try := 0; try < 200; try++ {
		pport = 37000 + (l.port-37000+16+try*3)%996
		ln, err = net.Listen("tcp", fmt.Sprintf("127.0.0.1:%d", pport))
		if err == nil {
			break
		}
	}
	if err != nil {
		return "", "", err
	}
	gs := grpc.NewServer()
	syncerpb.RegisterCrossClusterAPIServer(gs, px)
	go gs.Serve(ln)
	defer gs.Stop()
	defer func() {
		if px.conn != nil {
			px.conn.Close()
		}
	}()
	paddr := fmt.Sprintf("127.0.0.1:%d", pport)
	stop := make(chan struct{})
	defer close(stop)
	name := pre + clusterName(1)
	feed := func(sm node.StateMachine, from, to int) error {
		for j := from; j < to; j++ {
			e := src[j]
			if _, err := sm.ApplyRaftRequest(false, nil, reqListForP(pre, 1, e.p, e.ts), e.t, e.i, stop); err != nil {
				return err
			}
		}
		return nil
	}
	waitSynced := func(pos int, d time.Duration) bool {
		end := time.Now().Add(d)
		for time.Now().Before(end) {
			if px.syncedIndex(1) >= src[pos-1].i {
				return true
			}
			time.Sleep(20 * time.Millisecond)
		}
		return false
	}
	setStall := func(b bool) {
		px.mu.Lock()
		px.stall = b
		px.mu.Unlock()
	}
	n := len(src)
	a := 1 + r.Pick(n-3) // entries delivered while everything is healthy
	b := a + 1 + r.Pick(n-a-1)
	if b > a+2 {
		b = a + 2 // the backlog: 1 or 2 entries (every entry costs the stand-by real seconds)
	}
	if variant == "big" {
		a, b = 2, n
	}
	l1, err := newSyncerSM(name, paddr, "")
	if err != nil {
		return "", "", err
	}
	var l2 node.StateMachine
	l2done := make(chan error, 1)
	if variant == "standby" {
		l2, err = newSyncerSM(name, paddr, "")
		if err != nil {
			return "", "", err
		}
		node.VerifSyncerSwitchSend(l1, true)
		node.VerifSyncerSwitchSend(l2, false)
		go func() { l2done <- feed(l2, 0, n) }() // the stand-by's raft apply loop: the same log, at its own pace
	}
	closeAll := func() {
		if l1 != nil {
			l1.Close()
		}
		if l2 != nil {
			l2.Close()
		}
	}
	if err := feed(l1, 0, a); err != nil {
		closeAll()
		return "", "", err
	}
	if !waitSynced(a, 20*time.Second) {
		closeAll()
		return "", "", errors.New("learners: the healthy prefix did not arrive")
	}
	snapIdx := 0
	if variant == "lsnap" {
		if _, err := l1.GetSnapshot(src[a-1].t, src[a-1].i); err == nil {
			snapIdx = a // a learner snapshot with the buffer drained
		}
	}
	setStall(true)
	if variant == "big" {
		// one entry first: the send loop is now busy re-trying it, everything fed meanwhile waits in the buffer
		if err := feed(l1, a, a+1); err != nil {
			closeAll()
			return "", "", err
		}
		a++
		time.Sleep(150 * time.Millisecond)
	}
	if err := feed(l1, a, b); err != nil {
		closeAll()
		return "", "", err
	}
	if variant == "lsnap" {
		// the learner's raft wants a snapshot while the backlog cannot be sent: GetSnapshot waits 10 s for the buffer
		if _, err := l1.GetSnapshot(src[b-1].t, src[b-1].i); err == nil {
			snapIdx = b
		}
	} else if variant == "big" {
		time.Sleep(100 * time.Millisecond)
	} else {
		time.Sleep(4500 * time.Millisecond) // time for a stand-by that is willing to run ahead to do so
	}
	if variant != "big" {
		// the forwarding learner dies with its backlog
		l1.Close()
		l1 = nil
	}
	setStall(false)
	if variant == "big" {
		// the same learner goes on: the whole backlog is in its buffer
	} else if variant == "standby" {
		node.VerifSyncerSwitchSend(l2, true)
		select {
		case err := <-l2done:
			if err != nil {
				closeAll()
				return "", "", err
			}
		case <-time.After(40 * time.Second):
			closeAll()
			return "", "", errors.New("learners: the stand-by did not finish its log")
		}
	} else {
		// the learner comes back: its raft replays the log behind its last snapshot
		l1, err = newSyncerSM(name, paddr, "")
		if err != nil {
			return "", "", err
		}
		if err := feed(l1, snapIdx, n); err != nil {
			closeAll()
			return "", "", err
		}
	}
	// drain: until the receiver's position is the last entry's.  If the only learner left has applied its whole raft log
	// AND its send buffer is drained (its own GetSnapshot succeeds), nothing more will ever be sent: the run is
	// conclusive even when the receiver is still behind, and the oracle judges what arrived.
	if !waitSynced(n, 3*time.Second) {
		active := l1
		if variant == "standby" {
			active = l2
		}
		if _, gerr := active.GetSnapshot(src[n-1].t, src[n-1].i); gerr == nil {
			waitSynced(n, 2*time.Second)
		} else if !waitSynced(n, 30*time.Second) {
			closeAll()
			return "", "", errors.New("learners: drain timeout")
		}
	}
	time.Sleep(100 * time.Millisecond)
	closeAll()
	px.mu.Lock()
	defer px.mu.Unlock()
	if px.broken != "" {
		return "", "", errors.New("proxy: " + px.broken)
	}
	ops := append([]string{}, px.ops...)
	obs := append([]string{}, px.obs...)
	var es []string
	for _, e := range src {
		es = append(es, fmt.Sprintf("%d.%d.%d.%d", e.t, e.i, e.ts, e.p))
	}
	ops = append(ops, "Q:1:"+strings.Join(es, ","))
	obs = append(obs, "SRC "+sourceDump("mem", 1, es, px.maxc))
	d, err := l.ask(fmt.Sprintf("E %s %d", pre, px.maxc))
	if err != nil {
		return "", "", err
	}
	obs = append(obs, "END "+d)
	return strings.Join(ops, " "), strings.Join(obs, " / "), nil
}
