package main

// Case kind E (end to end, sender included): the REAL log-syncer state machine of the source side
// (node.NewStateMachine with LearnerRole = role_log_syncer -> logSyncerSM + RemoteLogSender: ApplyRaftRequest,
// handlerRaftLogs batching, sendRaftLog retry loop, getRemoteSyncedRaft) ships the source log over real gRPC to
// the live receiver (kind B's child process) through a recording, fault-injecting proxy in this process:
//   - a call is forwarded and answered                     (recorded as a B op)
//   - a call is forwarded but the answer is replaced by an error ("response lost": the sender re-sends)
//   - a call is rejected without being forwarded           ("request lost")
//   - the receiver is SIGKILLed and restarted before the call is forwarded (recorded as R)
//   - a snapshot is requested before the call is forwarded (recorded as S)
// and the source-side state machine itself is closed and rebuilt in between (a learner restart: it is fed its
// raft log again from an index not above the receiver's synced position + 1).
// Batch boundaries depend on goroutine timing, so the case line is written AFTER the run: it is the sequence
// of calls that reached the receiver, in kind B syntax (class e2e).  The extracted model is run on that line;
// replaying the line re-issues the same calls directly (kind B).

import (
	"context"
	"errors"
	"fmt"
	"net"
	"strings"
	"sync"
	"time"

	"github.com/youzan/ZanRedisDB/common"
	"github.com/youzan/ZanRedisDB/node"
	"github.com/youzan/ZanRedisDB/pkg/wait"
	"github.com/youzan/ZanRedisDB/syncerpb"
	"google.golang.org/grpc"
	"verif/harness/internal/hx"
)

type fixedCluster struct{ name string }

func (f fixedCluster) GetClusterName() string { return f.name }
func (f fixedCluster) GetSnapshotSyncInfo(fullNS string) ([]common.SnapshotSyncInfo, error) {
	return nil, errors.New("no snapshot sync in this harness")
}
func (f fixedCluster) UpdateMeForNamespaceLeader(fullNS string) (bool, error) { return true, nil }

type proxy struct {
	mu      sync.Mutex
	l       *live
	pre     string
	r       *hx.Rng
	conn    *grpc.ClientConn
	cli     syncerpb.CrossClusterAPIClient
	ops     []string // recorded B / R / S ops
	obs     []string // observation after each recorded op
	payload map[string]uint64
	maxc    int
	faults  int
	broken  string
	calls   int
}

func (p *proxy) dial() {
	if p.conn != nil {
		p.conn.Close()
	}
	conn, err := grpc.Dial(fmt.Sprintf("127.0.0.1:%d", p.l.port+3), grpc.WithInsecure())
	if err != nil {
		p.broken = "dial: " + err.Error()
		return
	}
	p.conn = conn
	p.cli = syncerpb.NewCrossClusterAPIClient(conn)
}

func (p *proxy) observe(op, res string) {
	o, err := p.l.ask(fmt.Sprintf("O %s %d", p.pre, p.maxc))
	if err != nil {
		p.broken = "observe: " + err.Error()
		return
	}
	p.ops = append(p.ops, op)
	p.obs = append(p.obs, res+";"+o)
}

func (p *proxy) ApplyRaftReqs(ctx context.Context, in *syncerpb.RaftReqs) (*syncerpb.RpcErr, error) {
	p.mu.Lock()
	defer p.mu.Unlock()
	p.calls++
	if p.broken != "" {
		return nil, errors.New("proxy broken")
	}
	fault := 0
	if p.faults < 12 {
		switch x := p.r.Pick(100); {
		case x < 58:
		case x < 70:
			fault = 1 // response lost
		case x < 80:
			fault = 2 // request lost
		case x < 90:
			fault = 3 // receiver crash before the call
		default:
			fault = 4 // snapshot before the call
		}
	}
	if fault != 0 {
		p.faults++
	}
	if fault == 2 {
		return nil, errors.New("injected: request lost")
	}
	if fault == 3 {
		p.l.kill()
		if err := p.l.spawn(); err != nil {
			p.broken = "respawn: " + err.Error()
			return nil, errors.New("proxy broken")
		}
		p.dial()
		p.observe("R:1", "ok")
	}
	if fault == 4 {
		if _, err := p.l.ask("S"); err != nil {
			p.broken = "snap: " + err.Error()
			return nil, errors.New("proxy broken")
		}
		p.observe("S", "ok")
	}
	// record what is about to reach the receiver
	var ents []string
	for _, rl := range in.RaftLog {
		if !strings.HasPrefix(rl.ClusterName, p.pre+"c") || rl.RaftGroupName != liveGroup {
			p.broken = "unexpected cluster/group on the wire: " + rl.ClusterName + "/" + rl.RaftGroupName
			return nil, errors.New("proxy broken")
		}
		c := int(atoiU(strings.TrimPrefix(rl.ClusterName, p.pre+"c")))
		if c > p.maxc {
			p.maxc = c
		}
		var reqList node.BatchInternalRaftRequest
		if err := reqList.Unmarshal(rl.Data); err != nil {
			p.broken = "undecodable data on the wire"
			return nil, errors.New("proxy broken")
		}
		fl := "-"
		if reqList.Timestamp != rl.RaftTimestamp {
			fl = "b"
		}
		pl, ok := p.payload[fmt.Sprintf("%d.%d", c, rl.Index)]
		if !ok || reqList.OrigIndex != rl.Index || reqList.OrigTerm != rl.Term || reqList.OrigCluster != rl.ClusterName {
			p.broken = fmt.Sprintf("wire entry does not match a source entry: %s %d-%d vs data %s %d-%d", rl.ClusterName, rl.Term, rl.Index,
				reqList.OrigCluster, reqList.OrigTerm, reqList.OrigIndex)
			return nil, errors.New("proxy broken")
		}
		ents = append(ents, fmt.Sprintf("%d.%d.%d.%d.%d.%s", c, rl.Term, rl.Index, reqList.Timestamp, pl, fl))
	}
	var rsp *syncerpb.RpcErr
	var err error
	for try := 0; try < 40; try++ { // the fresh connection may need a moment after a receiver restart
		c2, cancel := context.WithTimeout(context.Background(), 10*time.Second)
		rsp, err = p.cli.ApplyRaftReqs(c2, in)
		cancel()
		if err == nil {
			break
		}
		time.Sleep(50 * time.Millisecond)
	}
	if err != nil {
		p.broken = "forward: " + err.Error()
		return nil, errors.New("proxy broken")
	}
	res := "ok"
	if rsp.ErrCode != 0 || rsp.ErrMsg != "" {
		res = "err"
	}
	p.observe("B:"+strings.Join(ents, ":"), res)
	if fault == 1 {
		return nil, errors.New("injected: response lost")
	}
	return rsp, nil
}

func (p *proxy) GetSyncedRaft(ctx context.Context, in *syncerpb.SyncedRaftReq) (*syncerpb.SyncedRaftRsp, error) {
	p.mu.Lock()
	defer p.mu.Unlock()
	if p.broken != "" {
		return nil, errors.New("proxy broken")
	}
	var rsp *syncerpb.SyncedRaftRsp
	var err error
	for try := 0; try < 40; try++ {
		c2, cancel := context.WithTimeout(context.Background(), 5*time.Second)
		rsp, err = p.cli.GetSyncedRaft(c2, in)
		cancel()
		if err == nil {
			return rsp, nil
		}
		time.Sleep(50 * time.Millisecond)
	}
	return nil, err
}

func (p *proxy) NotifyTransferSnap(context.Context, *syncerpb.RaftApplySnapReq) (*syncerpb.RpcErr, error) {
	return nil, errors.New("not in this harness")
}
func (p *proxy) NotifyApplySnap(context.Context, *syncerpb.RaftApplySnapReq) (*syncerpb.RpcErr, error) {
	return nil, errors.New("not in this harness")
}
func (p *proxy) GetApplySnapStatus(context.Context, *syncerpb.RaftApplySnapStatusReq) (*syncerpb.RaftApplySnapStatusRsp, error) {
	return nil, errors.New("not in this harness")
}

func (p *proxy) syncedIndex(c int) uint64 {
	p.mu.Lock()
	defer p.mu.Unlock()
	if p.broken != "" {
		return 0
	}
	c2, cancel := context.WithTimeout(context.Background(), 5*time.Second)
	defer cancel()
	rsp, err := p.cli.GetSyncedRaft(c2, &syncerpb.SyncedRaftReq{ClusterName: p.pre + clusterName(c), RaftGroupName: liveGroup})
	if err != nil {
		return 0
	}
	return rsp.Index
}

func newSyncerSM(cluster string, proxyAddr string) (node.StateMachine, error) {
	mc := node.MachineConfig{
		BroadcastAddr:     "127.0.0.1",
		LearnerRole:       common.LearnerRoleLogSyncer,
		RemoteSyncCluster: "test://" + proxyAddr,
	}
	sm, err := node.NewStateMachine(&node.KVOptions{}, mc, 7, liveGroup, fixedCluster{cluster}, wait.New(), node.NewSlowLimiter(liveGroup))
	if err != nil {
		return nil, err
	}
	return sm, sm.Start()
}

// runE returns (case ops in kind-B syntax, observations) or an error (inconclusive).
func runE(l *live, pre string, r *hx.Rng) (string, string, error) {
	k := 1 + r.Pick(2)
	src := make([][]sent, k+1)
	px := &proxy{l: l, pre: pre, r: r, payload: map[string]uint64{}}
	for c := 1; c <= k; c++ {
		src[c] = genSource(r, c)
		for _, e := range src[c] {
			px.payload[fmt.Sprintf("%d.%d", c, e.i)] = e.p
		}
	}
	px.dial()
	var ln net.Listener
	var err error
	pport := 0
	for try := 0; try < 200; try++ {
		pport = 37000 + (l.port-37000+16+try*3)%996
		ln, err = net.Listen("tcp", fmt.Sprintf("127.0.0.1:%d", pport))
		if err == nil {
			break
		}
	}
	if err != nil {
		return "", "", err
	}
	gs := grpc.NewServer()
	syncerpb.RegisterCrossClusterAPIServer(gs, px)
	go gs.Serve(ln)
	defer gs.Stop()
	defer func() {
		if px.conn != nil {
			px.conn.Close()
		}
	}()
	paddr := fmt.Sprintf("127.0.0.1:%d", pport)

	stop := make(chan struct{})
	sms := make([]node.StateMachine, k+1)
	for c := 1; c <= k; c++ {
		sms[c], err = newSyncerSM(pre+clusterName(c), paddr)
		if err != nil {
			return "", "", err
		}
	}
	defer func() {
		for c := 1; c <= k; c++ {
			if sms[c] != nil {
				sms[c].Close()
			}
		}
	}()
	next := make([]int, k+1) // next source position to feed
	restarts := 0
	burst := 0
	done := func() bool {
		for c := 1; c <= k; c++ {
			if next[c] < len(src[c]) {
				return false
			}
		}
		return true
	}
	for !done() {
		c := 1 + r.Pick(k)
		if next[c] >= len(src[c]) {
			continue
		}
		if restarts < 2 && r.Chance(0.08) {
			// learner restart: the state machine is rebuilt and fed again from a point its own snapshot allows
			// (its snapshot waits for the buffered logs, so it never lies beyond what the receiver has synced)
			sms[c].Close()
			si := px.syncedIndex(c)
			from := 0
			for from < len(src[c]) && src[c][from].i <= si {
				from++
			}
			if from > 0 {
				from -= r.Pick(minInt(from, 3) + 1)
			}
			if from < next[c] {
				next[c] = from
			}
			sms[c], err = newSyncerSM(pre+clusterName(c), paddr)
			if err != nil {
				return "", "", err
			}
			restarts++
			burst = 3 + r.Pick(4) // the replayed entries are queued together while the new send loop asks for the remote position
			continue
		}
		e := src[c][next[c]]
		rl := reqListForP(pre, c, e.p, e.ts) // an ordinary committed write of the source cluster
		if _, err := sms[c].ApplyRaftRequest(false, nil, rl, e.t, e.i, stop); err != nil {
			return "", "", fmt.Errorf("syncer sm apply: %v", err)
		}
		next[c]++
		if burst > 0 {
			burst--
		} else if r.Chance(0.3) {
			time.Sleep(time.Duration(r.Pick(30)) * time.Millisecond)
		}
	}
	// drain: wait until the receiver has synced the last entry of every source.  If the SENDER itself reports the
	// last entry as synced (its own synced_index) while the receiver stays behind, the run is conclusive: the case is
	// recorded as it is and the oracle judges it (entries never delivered).
	deadline := time.Now().Add(60 * time.Second)
	for c := 1; c <= k; c++ {
		last := src[c][len(src[c])-1].i
		var claimedSince time.Time
		for px.syncedIndex(c) < last {
			if px.broken != "" {
				return "", "", errors.New("proxy: " + px.broken)
			}
			claimed := false
			if st, ok := sms[c].GetStats("", false).InternalStats["synced_index"].(uint64); ok && st >= last {
				claimed = true
			}
			if claimed {
				if claimedSince.IsZero() {
					claimedSince = time.Now()
				} else if time.Since(claimedSince) > 2*time.Second {
					break
				}
			} else {
				claimedSince = time.Time{}
			}
			if time.Now().After(deadline) {
				return "", "", fmt.Errorf("drain timeout: cluster %d synced %d < %d", c, px.syncedIndex(c), last)
			}
			time.Sleep(30 * time.Millisecond)
		}
	}
	for c := 1; c <= k; c++ {
		sms[c].Close()
		sms[c] = nil
	}
	px.mu.Lock()
	defer px.mu.Unlock()
	if px.broken != "" {
		return "", "", errors.New("proxy: " + px.broken)
	}
	ops := append([]string{}, px.ops...)
	obs := append([]string{}, px.obs...)
	for c := 1; c <= k; c++ {
		var es []string
		for _, e := range src[c] {
			es = append(es, fmt.Sprintf("%d.%d.%d.%d", e.t, e.i, e.ts, e.p))
		}
		ops = append(ops, fmt.Sprintf("Q:%d:%s", c, strings.Join(es, ",")))
		var ents []string
		for _, e := range src[c] {
			ents = append(ents, fmt.Sprintf("%d.%d.%d.%d", e.t, e.i, e.ts, e.p))
		}
		mc := px.maxc
		if c > mc {
			mc = c
		}
		obs = append(obs, "SRC "+sourceDump("mem", c, ents, mc))
	}
	d, err := l.ask(fmt.Sprintf("E %s %d", pre, px.maxc))
	if err != nil {
		return "", "", err
	}
	obs = append(obs, "END "+d)
	return strings.Join(ops, " "), strings.Join(obs, " / "), nil
}
