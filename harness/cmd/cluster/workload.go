package main

// Clients, operations and the recorded history.

import (
	"fmt"
	"math/rand"
	"net"
	"sort"
	"strconv"
	"strings"
	"sync"
	"sync/atomic"
	"time"

	"github.com/siddontang/goredis"
)

// opRec is one recorded operation. Times are microseconds of the recording process's monotonic
// clock since the start of the run. Ret < 0: no success reply (error / timeout / broken connection).
type opRec struct {
	Client int    `json:"c"`
	Key    string `json:"k"` // "kv:<name>" | "h:<name>" | "l:<name>" | "s:<name>"
	Op     string `json:"op"`
	Inv    int64  `json:"inv"`
	Ret    int64  `json:"ret"`
	Res    string `json:"res,omitempty"`
	Err    string `json:"err,omitempty"`
	Target int    `json:"t"`
	Final  bool   `json:"final,omitempty"` // read of a replica's store after quiescence
}

var t0 = time.Now()

func nowUs() int64 { return int64(time.Since(t0) / time.Microsecond) }

func isReadOp(op string) bool {
	switch op {
	case "get", "hget", "llen", "ldump", "scard", "sdump":
		return true
	}
	return false
}

// redisArgs maps an operation token on an object to the redis command sent.
func redisArgs(key string, op string) (string, []interface{}) {
	p := strings.SplitN(key, ":", 2)
	k := nsBase + ":lin:" + p[1]
	q := strings.SplitN(op, ":", 2)
	arg := ""
	if len(q) > 1 {
		arg = q[1]
	}
	switch q[0] {
	case "incr":
		return "incr", []interface{}{k}
	case "getset":
		return "getset", []interface{}{k, arg}
	case "setnx":
		return "setnx", []interface{}{k, arg}
	case "get":
		return "get", []interface{}{k}
	case "set":
		return "set", []interface{}{k, arg}
	case "setox":
		return "set", []interface{}{k, arg, "NX"}
	case "setxx":
		return "set", []interface{}{k, arg, "XX"}
	case "del":
		return "del", []interface{}{k}
	case "hincrby":
		return "hincrby", []interface{}{k, "f", arg}
	case "hget":
		return "hget", []interface{}{k, "f"}
	case "lpush":
		return "lpush", []interface{}{k, arg}
	case "lpop":
		return "lpop", []interface{}{k}
	case "llen":
		return "llen", []interface{}{k}
	case "ldump":
		return "lrange", []interface{}{k, 0, -1}
	case "sadd":
		return "sadd", []interface{}{k, arg}
	case "srem":
		return "srem", []interface{}{k, arg}
	case "scard":
		return "scard", []interface{}{k}
	case "sdump":
		return "smembers", []interface{}{k}
	}
	panic("bad op " + op)
}

// canon maps a redis reply to the canonical reply token of the specification.
func canon(op string, v interface{}) string {
	switch x := v.(type) {
	case nil:
		return "n"
	case int64:
		return "i" + strconv.FormatInt(x, 10)
	case string:
		if x == "OK" {
			return "ok"
		}
		return "?s" + x
	case []byte:
		if _, err := strconv.ParseInt(string(x), 10, 64); err != nil {
			return "?b" + fmt.Sprintf("%x", x)
		}
		return "b" + string(x)
	case []interface{}:
		bs := make([][]byte, 0, len(x))
		for _, e := range x {
			b, ok := e.([]byte)
			if !ok {
				return "?a"
			}
			bs = append(bs, b)
		}
		if strings.HasPrefix(op, "sdump") {
			return "a" + joinSortedInts(bs)
		}
		ss := make([]string, len(bs))
		for i, b := range bs {
			ss[i] = string(b)
		}
		return "a" + strings.Join(ss, ",")
	}
	return fmt.Sprintf("?%T", v)
}

func errClass(err error) string {
	s := strings.ToLower(err.Error())
	switch {
	case strings.Contains(s, "i/o timeout"):
		return "client-timeout"
	case strings.Contains(s, "raft group not ready") || strings.Contains(s, "cluster_changed"):
		return "raft-group-not-ready"
	case strings.Contains(s, "not leader"):
		return "not-leader"
	case strings.Contains(s, "no leader"):
		return "no-leader"
	case strings.Contains(s, "not ready for write"):
		return "not-write-ready"
	case strings.Contains(s, "cancel"):
		return "proposal-canceled"
	case strings.Contains(s, "deadline") || strings.Contains(s, "timeout") || strings.Contains(s, "timed out"):
		return "server-timeout"
	case strings.Contains(s, "stopp"):
		return "stopped"
	case strings.Contains(s, "namespace") || strings.Contains(s, "partition"):
		return "no-namespace"
	case strings.Contains(s, "drop"):
		return "proposal-dropped"
	case strings.Contains(s, "eof") || strings.Contains(s, "reset") || strings.Contains(s, "broken pipe") || strings.Contains(s, "closed"):
		return "conn-broken"
	case strings.Contains(s, "refused"):
		return "conn-refused"
	}
	if i := strings.Index(s, " : err handle command"); i > 0 {
		s = s[:i]
	}
	return "other:" + s
}

// ---------------------------------------------------------------- objects

type object struct {
	key     string // "kv:k12"
	typ     string
	budget  int
	issued  int
	unknown int
	nhincr  int
	retired bool
}

type workload struct {
	mu         sync.Mutex
	rng        *rand.Rand
	active     []*object
	all        []*object
	gen        int
	nextVal    int64
	maxUnk     int
	minB       int
	maxB       int
	recs       []opRec
	dropped    map[string]int // error class -> count, reads that failed (no effect, not recorded)
	errs       map[string]int // error class -> count, writes with unknown outcome
	stop       int32
	leaderHint int32
	nonIdem    bool
}

func newWorkload(seed int64, nActive, minB, maxB, maxUnk int) *workload {
	w := &workload{rng: rand.New(rand.NewSource(seed)), minB: minB, maxB: maxB, maxUnk: maxUnk,
		dropped: map[string]int{}, errs: map[string]int{}, nextVal: 0}
	for i := 0; i < nActive; i++ {
		w.active = append(w.active, w.freshLocked())
	}
	return w
}

var typs = []string{"kv", "h", "l", "s"}

func (w *workload) freshLocked() *object {
	t := typs[w.gen%len(typs)]
	if w.rng.Intn(3) == 0 {
		t = typs[w.rng.Intn(len(typs))]
	}
	o := &object{key: fmt.Sprintf("%s:k%d", t, w.gen), typ: t, budget: w.minB + w.rng.Intn(w.maxB-w.minB+1)}
	w.gen++
	w.all = append(w.all, o)
	return o
}

// next reserves one operation on one of the active objects.
func (w *workload) next() (*object, string) {
	w.mu.Lock()
	defer w.mu.Unlock()
	i := w.rng.Intn(len(w.active))
	o := w.active[i]
	if o.issued >= o.budget || o.unknown >= w.maxUnk {
		o.retired = true
		o = w.freshLocked()
		w.active[i] = o
	}
	o.issued++
	return o, w.genOpLocked(o)
}

func (w *workload) uniq() int64 {
	w.nextVal++
	return w.nextVal * 1000
}

func (w *workload) genOpLocked(o *object) string {
	r := w.rng.Intn(100)
	if w.nonIdem && r < 75 {
		// mostly operations whose effect is visible when applied twice
		switch o.typ {
		case "kv":
			return "incr"
		case "h":
			d := int64(1) << uint(o.nhincr%60)
			o.nhincr++
			return fmt.Sprintf("hincrby:%d", d)
		case "l":
			if r < 50 {
				return fmt.Sprintf("lpush:%d", w.uniq())
			}
			return "lpop"
		}
	}
	r = w.rng.Intn(100)
	switch o.typ {
	case "kv":
		switch {
		case r < 26:
			return "incr"
		case r < 42:
			return fmt.Sprintf("getset:%d", w.uniq())
		case r < 50:
			return fmt.Sprintf("setnx:%d", w.uniq())
		case r < 57:
			return fmt.Sprintf("setox:%d", w.uniq())
		case r < 62:
			return fmt.Sprintf("setxx:%d", w.uniq())
		case r < 74:
			return "get"
		case r < 85:
			return fmt.Sprintf("set:%d", w.uniq())
		default:
			return "del"
		}
	case "h":
		if r < 65 {
			d := int64(1) << uint(o.nhincr%60)
			o.nhincr++
			return fmt.Sprintf("hincrby:%d", d)
		}
		return "hget"
	case "l":
		switch {
		case r < 45:
			return fmt.Sprintf("lpush:%d", w.uniq())
		case r < 80:
			return "lpop"
		default:
			return "llen"
		}
	default:
		switch {
		case r < 40:
			return fmt.Sprintf("sadd:%d", 1+w.rng.Intn(3))
		case r < 75:
			return fmt.Sprintf("srem:%d", 1+w.rng.Intn(3))
		default:
			return "scard"
		}
	}
}

func (w *workload) record(o *object, rec opRec) {
	w.mu.Lock()
	defer w.mu.Unlock()
	if rec.Ret < 0 {
		if isReadOp(rec.Op) {
			w.dropped[rec.Err]++
			return
		}
		w.errs[rec.Err]++
		o.unknown++
	}
	w.recs = append(w.recs, rec)
}

// ---------------------------------------------------------------- one client

type client struct {
	id    int
	addrs []string
	conns []*goredis.Conn
	rng   *rand.Rand
	opTO  time.Duration
}

func (c *client) conn(i int) (*goredis.Conn, error) {
	if c.conns[i] != nil {
		return c.conns[i], nil
	}
	nc, err := net.DialTimeout("tcp", c.addrs[i], 500*time.Millisecond)
	if err != nil {
		return nil, err
	}
	rc, err := goredis.NewConn(nc)
	if err != nil {
		nc.Close()
		return nil, err
	}
	c.conns[i] = rc
	return rc, nil
}

func (c *client) drop(i int) {
	if c.conns[i] != nil {
		c.conns[i].Close()
		c.conns[i] = nil
	}
}

// do sends one operation to replica target and returns the record.
// sent=false: the request never left (no connection) — nothing to record.
func (c *client) do(target int, key, op string) (rec opRec, sent bool) {
	rec = opRec{Client: c.id, Key: key, Op: op, Ret: -1, Target: target}
	cn, err := c.conn(target)
	if err != nil {
		return rec, false
	}
	cmd, args := redisArgs(key, op)
	cn.SetWriteDeadline(time.Now().Add(c.opTO))
	cn.SetReadDeadline(time.Now().Add(c.opTO))
	rec.Inv = nowUs()
	v, err := cn.Do(cmd, args...)
	ret := nowUs()
	if err != nil {
		rec.Err = errClass(err)
		if _, isReply := err.(goredis.Error); !isReply {
			c.drop(target) // the connection is in an unknown state
		}
		return rec, true
	}
	tok := canon(op, v)
	if strings.HasPrefix(tok, "?") {
		rec.Err = "odd-reply:" + tok
		return rec, true
	}
	rec.Ret, rec.Res = ret, tok
	return rec, true
}

func (c *client) run(w *workload, pace time.Duration, wg *sync.WaitGroup) {
	defer wg.Done()
	sticky := c.rng.Intn(len(c.addrs))
	for atomic.LoadInt32(&w.stop) == 0 {
		o, op := w.next()
		target := sticky
		x := c.rng.Intn(100)
		if isReadOp(op) {
			// reads are only served by the replica that believes it leads; aim at the hinted leader mostly
			if h := int(atomic.LoadInt32(&w.leaderHint)); h >= 0 && x < 80 {
				target = h
			} else {
				target = c.rng.Intn(len(c.addrs))
			}
		} else if x < 25 {
			target = c.rng.Intn(len(c.addrs))
		}
		rec, sent := c.do(target, o.key, op)
		if sent {
			w.record(o, rec)
		}
		if !sent || rec.Ret < 0 {
			sticky = c.rng.Intn(len(c.addrs))
			time.Sleep(20 * time.Millisecond)
		}
		if pace > 0 {
			time.Sleep(time.Duration(c.rng.Int63n(int64(pace))))
		}
	}
	for i := range c.conns {
		c.drop(i)
	}
}

// ---------------------------------------------------------------- history output

// byKey groups the records per object, each group sorted by invocation time.
func byKey(recs []opRec) (map[string][]opRec, []string) {
	m := map[string][]opRec{}
	for _, r := range recs {
		m[r.Key] = append(m[r.Key], r)
	}
	keys := make([]string, 0, len(m))
	for k := range m {
		keys = append(keys, k)
		g := m[k]
		sort.SliceStable(g, func(i, j int) bool { return g[i].Inv < g[j].Inv })
	}
	sort.Slice(keys, func(i, j int) bool {
		a, _ := strconv.Atoi(keys[i][strings.Index(keys[i], ":k")+2:])
		b, _ := strconv.Atoi(keys[j][strings.Index(keys[j], ":k")+2:])
		return a < b
	})
	return m, keys
}

func histLines(id string, g []opRec) []string {
	var out []string
	for _, r := range g {
		ret, res := "-", "-"
		if r.Ret >= 0 {
			ret, res = strconv.FormatInt(r.Ret, 10), r.Res
		}
		tag := fmt.Sprintf("c%d", r.Client)
		if r.Final {
			tag = fmt.Sprintf("F%d", r.Target)
		}
		out = append(out, fmt.Sprintf("%s\tO\t%d\t%s\t%s\t%s\t%s", id, r.Inv, ret, r.Op, res, tag))
	}
	out = append(out, id+"\tE")
	return out
}

// ---------------------------------------------------------------- targeted phases

// newObject registers a fresh object of the given type (not one of the randomly driven active objects).
func (w *workload) newObject(typ string) *object {
	w.mu.Lock()
	defer w.mu.Unlock()
	o := &object{key: fmt.Sprintf("%s:k%d", typ, w.gen), typ: typ, budget: 1 << 30}
	w.gen++
	w.all = append(w.all, o)
	return o
}

func (w *workload) uniqL() int64 {
	w.mu.Lock()
	defer w.mu.Unlock()
	return w.uniq()
}

// runRaces: rounds in which ALL clients send a conditional / overwriting write on the SAME fresh key at the
// same moment (barrier start), each through its own replica, so that the entries are committed together
// and applied in one apply batch. At most one SET .. NX / SETNX may win; a SET .. XX after a DEL must fail.
func runRaces(w *workload, clients []*client, until time.Time, rng *rand.Rand) int {
	rounds := 0
	n := len(clients)
	for time.Now().Before(until) {
		o := w.newObject("kv")
		kind := rng.Intn(10)
		ops := make([]string, n)
		var pre []string
		switch {
		case kind < 5: // everybody: SET k v NX
			for i := range ops {
				ops[i] = fmt.Sprintf("setox:%d", w.uniqL())
			}
		case kind < 7: // plain SETs racing with SET NX
			for i := range ops {
				if i%3 == 0 {
					ops[i] = fmt.Sprintf("set:%d", w.uniqL())
				} else {
					ops[i] = fmt.Sprintf("setox:%d", w.uniqL())
				}
			}
		case kind < 8: // SETNX race
			for i := range ops {
				ops[i] = fmt.Sprintf("setnx:%d", w.uniqL())
			}
		default: // existing key: DELs racing with SET XX and SET NX
			pre = []string{fmt.Sprintf("set:%d", w.uniqL())}
			for i := range ops {
				switch i % 3 {
				case 0:
					ops[i] = "del"
				case 1:
					ops[i] = fmt.Sprintf("setxx:%d", w.uniqL())
				default:
					ops[i] = fmt.Sprintf("setox:%d", w.uniqL())
				}
			}
		}
		for _, op := range pre {
			l := int(atomic.LoadInt32(&w.leaderHint))
			if l < 0 {
				l = 0
			}
			if rec, sent := clients[0].do(l, o.key, op); sent {
				w.record(o, rec)
			}
		}
		start := make(chan struct{})
		var wg sync.WaitGroup
		for i, cl := range clients {
			wg.Add(1)
			go func(i int, cl *client) {
				defer wg.Done()
				target := i % len(cl.addrs)
				cl.conn(target) // connect before the barrier
				<-start
				if rec, sent := cl.do(target, o.key, ops[i]); sent {
					w.record(o, rec)
				}
			}(i, cl)
		}
		time.Sleep(200 * time.Microsecond)
		close(start)
		wg.Wait()
		rounds++
	}
	return rounds
}

// runPairs: every client, on its own fresh objects, makes a write through the leader, waits for the
// acknowledgement and IMMEDIATELY sends the command whose no-op shortcut would apply to the state BEFORE that
// write through a follower (LPUSH -> LPOP, DEL -> SETNX, SREM -> SADD, SADD -> SREM): a replica that
// answers from a local store lagging behind the acknowledged write gives a non-linearizable reply.
func runPairs(w *workload, clients []*client, until time.Time) int {
	var wg sync.WaitGroup
	var rounds int32
	for _, cl := range clients {
		wg.Add(1)
		go func(cl *client) {
			defer wg.Done()
			for time.Now().Before(until) {
				l := int(atomic.LoadInt32(&w.leaderHint))
				if l < 0 {
					time.Sleep(50 * time.Millisecond)
					continue
				}
				f := (l + 1 + cl.rng.Intn(len(cl.addrs)-1)) % len(cl.addrs)
				var o *object
				var seq []string
				switch cl.rng.Intn(4) {
				case 0:
					o = w.newObject("l")
					seq = []string{fmt.Sprintf("lpush:%d", w.uniqL()), "F:lpop"}
				case 1:
					o = w.newObject("kv")
					seq = []string{fmt.Sprintf("set:%d", w.uniqL()), "del", fmt.Sprintf("F:setnx:%d", w.uniqL())}
				case 2:
					o = w.newObject("s")
					seq = []string{"sadd:1", "srem:1", "F:sadd:1"}
				default:
					o = w.newObject("s")
					seq = []string{"sadd:2", "F:srem:2"}
				}
				for _, op := range seq {
					target := l
					if strings.HasPrefix(op, "F:") {
						target, op = f, op[2:]
					}
					rec, sent := cl.do(target, o.key, op)
					if sent {
						w.record(o, rec)
					}
					if !sent || rec.Ret < 0 {
						break
					}
				}
				atomic.AddInt32(&rounds, 1)
			}
		}(cl)
	}
	wg.Wait()
	return int(rounds)
}
