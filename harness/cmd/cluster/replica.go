package main

// One replica of the 3-replica namespace: a real server.Server (static seed nodes, no placement
// driver) in this process. In the multi-process mode the same code runs in a child (zrnode mode)
// and the parent talks to it over a pipe (childRep).

import (
	"bufio"
	"encoding/json"
	"errors"
	"fmt"
	"io/ioutil"
	"os"
	"os/exec"
	"path"
	"sort"
	"strconv"
	"strings"
	"sync"
	"syscall"
	"time"

	"github.com/youzan/ZanRedisDB/common"
	"github.com/youzan/ZanRedisDB/engine"
	"github.com/youzan/ZanRedisDB/node"
	"github.com/youzan/ZanRedisDB/rockredis"
	"github.com/youzan/ZanRedisDB/server"
	"github.com/youzan/ZanRedisDB/slow"
	"github.com/youzan/ZanRedisDB/transport/rafthttp"
)

const (
	nsBase   = "default"
	nsFull   = "default-0"
	nReplica = 3
)

// ports of replica i (0-based): redis, http, raft, metric
func portsOf(base, i int) (int, int, int, int) {
	return base + i*4, base + i*4 + 1, base + i*4 + 2, base + i*4 + 3
}

type status struct {
	Up      bool   `json:"up"`      // namespace node present and started
	Lead    bool   `json:"lead"`    // this replica believes it is the leader
	Leader  uint64 `json:"leader"`  // raft id of the leader it knows (0 none)
	Applied uint64 `json:"applied"` // applied index
	Commit  uint64 `json:"commit"`
}

type logEnt struct {
	Index   uint64   `json:"i"`
	Term    uint64   `json:"t"`
	ConfChg bool     `json:"c,omitempty"`
	ReqIDs  []uint64 `json:"r,omitempty"`
	Hash    uint64   `json:"h"`
}

// rep is what the cluster logic needs from a replica, local or remote.
type rep interface {
	Status() (status, error)
	CloseNS() error // graceful stop of the namespace node
	OpenNS() error  // restart it on the same directory
	TransferTo(raftID uint64) error
	Dump(keys []string) (map[string]string, error) // key spec "kv:name" ... -> canonical reply token
	Log() ([]logEnt, error)
	Block(ids []uint64) error      // drop the raft messages arriving from these replicas (empty = heal)
	Gate() *server.VerifRaftFilter // message gate of an in-process replica (nil for a child process)
}

// ---------------------------------------------------------------- local replica

type fileLogger struct {
	mu sync.Mutex
	w  *bufio.Writer
	n  int
}

func (l *fileLogger) out(p, s string) error {
	l.mu.Lock()
	if l.n < 400000 {
		l.n++
		fmt.Fprintf(l.w, "%s %s%s\n", time.Now().Format("15:04:05.000000"), p, s)
		if l.n%64 == 0 {
			l.w.Flush()
		}
	}
	l.mu.Unlock()
	return nil
}
func (l *fileLogger) Output(d int, s string) error        { return l.out("", s) }
func (l *fileLogger) OutputErr(d int, s string) error     { return l.out("E ", s) }
func (l *fileLogger) OutputWarning(d int, s string) error { return l.out("W ", s) }
func (l *fileLogger) Flush()                              { l.mu.Lock(); l.w.Flush(); l.mu.Unlock() }

var theLogger *fileLogger

func setupLogging(file string, level int32) {
	f, err := os.Create(file)
	if err != nil {
		f, _ = os.Create(os.DevNull)
	}
	theLogger = &fileLogger{w: bufio.NewWriterSize(f, 1<<16)}
	server.SetLogger(level, theLogger)
	node.SetLogger(level, theLogger)
	rockredis.SetLogger(common.LOG_WARN, theLogger)
	engine.SetLogger(common.LOG_WARN, theLogger)
	slow.SetLogger(common.LOG_ERR, theLogger)
	rafthttp.SetLogger(common.LOG_WARN, theLogger)
}

type fakeClusterInfo struct{ name string }

func (ci *fakeClusterInfo) GetClusterName() string { return ci.name }
func (ci *fakeClusterInfo) GetSnapshotSyncInfo(fullNS string) ([]common.SnapshotSyncInfo, error) {
	return nil, nil
}
func (ci *fakeClusterInfo) UpdateMeForNamespaceLeader(fullNS string) (bool, error) { return false, nil }

type replica struct {
	id     int // 0-based; raft/node id = id+1
	dir    string
	base   int
	engine string
	srv    *server.Server
	conf   *node.NamespaceConfig
	filter *server.VerifRaftFilter
	mu     sync.Mutex
}

func seedNodes(base int) []node.ReplicaInfo {
	var seeds []node.ReplicaInfo
	for i := 0; i < nReplica; i++ {
		_, _, rp, _ := portsOf(base, i)
		seeds = append(seeds, node.ReplicaInfo{NodeID: uint64(i + 1), ReplicaID: uint64(i + 1),
			RaftAddr: "http://127.0.0.1:" + strconv.Itoa(rp)})
	}
	return seeds
}

// newReplica creates the server and the namespace node and starts both. dir is the replica's data
// directory (kept across restarts).
func newReplica(id int, dir string, base int, eng string, snapCount int) (*replica, error) {
	os.MkdirAll(dir, 0700)
	ioutil.WriteFile(path.Join(dir, "myid"), []byte(strconv.Itoa(id+1)), common.FILE_PERM)
	redisP, httpP, raftP, metricP := portsOf(base, id)
	opts := server.ServerConfig{
		ClusterID:     "verif-lin-" + strconv.Itoa(base),
		DataDir:       dir,
		RedisAPIPort:  redisP,
		HttpAPIPort:   httpP,
		LocalRaftAddr: "http://127.0.0.1:" + strconv.Itoa(raftP),
		BroadcastAddr: "127.0.0.1",
		TickMs:        100,
		ElectionTick:  5,
		ProfilePort:   -1,
		MetricAddr:    "127.0.0.1:" + strconv.Itoa(metricP),
	}
	opts.RocksDBOpts.EngineType = eng
	kv, err := server.NewServer(opts)
	if err != nil {
		return nil, err
	}
	kv.GetNsMgr().SetIClusterInfo(&fakeClusterInfo{name: opts.ClusterID})
	filter := kv.VerifInstallRaftFilter()
	conf := node.NewNSConfig()
	conf.Name = nsFull
	conf.BaseName = nsBase
	conf.EngType = rockredis.EngType
	conf.PartitionNum = 1
	conf.Replicator = nReplica
	conf.RaftGroupConf.GroupID = 1000
	conf.RaftGroupConf.SeedNodes = seedNodes(base)
	if snapCount > 0 {
		// frequent raft snapshots (checkpoints of the store) while writes are applied; the log is kept long enough
		// for a restarted replica to catch up from the log (no snapshot transfer between replicas)
		conf.SnapCount = snapCount
		conf.SnapCatchup = 100000
	}
	r := &replica{id: id, dir: dir, base: base, engine: eng, srv: kv, conf: conf, filter: filter}
	if _, err := kv.InitKVNamespace(uint64(id+1), conf, false); err != nil {
		return nil, err
	}
	kv.Start()
	return r, nil
}

func (r *replica) ns() *node.NamespaceNode { return r.srv.GetNamespaceFromFullName(nsFull) }

func (r *replica) Status() (st status, err error) {
	defer func() {
		if e := recover(); e != nil {
			st, err = status{}, fmt.Errorf("panic: %v", e)
		}
	}()
	n := r.ns()
	if n == nil || !n.IsReady() {
		return status{}, nil
	}
	st.Up = true
	st.Lead = n.Node.IsLead()
	if m := n.Node.GetLeadMember(); m != nil {
		st.Leader = m.ID
	}
	st.Applied = n.Node.GetAppliedIndex()
	st.Commit = n.Node.GetRaftStatus().Commit
	return st, nil
}

func (r *replica) CloseNS() error {
	r.mu.Lock()
	defer r.mu.Unlock()
	n := r.ns()
	if n == nil {
		return nil
	}
	n.Close()
	// the stopped-callback removes the node from the manager asynchronously
	for i := 0; i < 100; i++ {
		if r.ns() == nil {
			return nil
		}
		time.Sleep(50 * time.Millisecond)
	}
	return errors.New("namespace node not removed after Close")
}

func (r *replica) OpenNS() error {
	r.mu.Lock()
	defer r.mu.Unlock()
	if r.ns() != nil {
		return nil
	}
	n, err := r.srv.InitKVNamespace(uint64(r.id+1), r.conf, true)
	if err != nil {
		return err
	}
	return n.Start(false)
}

func (r *replica) Gate() *server.VerifRaftFilter { return r.filter }

func (c *childRep) Gate() *server.VerifRaftFilter { return nil }

func (r *replica) Block(ids []uint64) error {
	r.filter.SetBlocked(ids)
	return nil
}

func (r *replica) TransferTo(raftID uint64) error {
	n := r.ns()
	if n == nil {
		return errors.New("no namespace node")
	}
	return n.Node.TransferLeadership(raftID)
}

func fmtInt(b []byte) string {
	if b == nil {
		return "n"
	}
	return "b" + string(b)
}

// Dump reads the given objects directly from this replica's store (no raft, no leader check).
// spec: "kv:<key>", "h:<key>" (field f), "l:<key>", "s:<key>"; result = canonical reply token.
func (r *replica) Dump(keys []string) (out map[string]string, err error) {
	defer func() {
		if e := recover(); e != nil {
			out, err = nil, fmt.Errorf("panic: %v", e)
		}
	}()
	n := r.ns()
	if n == nil {
		return nil, errors.New("no namespace node")
	}
	st := n.Node.VerifKVStore()
	if st == nil {
		return nil, errors.New("no store")
	}
	out = make(map[string]string)
	for _, spec := range keys {
		p := strings.SplitN(spec, ":", 2)
		k := []byte("lin:" + p[1])
		switch p[0] {
		case "kv":
			v, e := st.KVGet(k)
			if e != nil {
				return nil, e
			}
			out[spec] = fmtInt(v)
		case "h":
			v, e := st.HGet(k, []byte("f"))
			if e != nil {
				return nil, e
			}
			out[spec] = fmtInt(v)
		case "l":
			vs, e := st.LRange(k, 0, -1)
			if e != nil {
				return nil, e
			}
			ss := make([]string, len(vs))
			for i, v := range vs {
				ss[i] = string(v)
			}
			out[spec] = "a" + strings.Join(ss, ",")
		case "s":
			vs, e := st.SMembers(k)
			if e != nil {
				return nil, e
			}
			out[spec] = "a" + joinSortedInts(vs)
		}
	}
	return out, nil
}

func joinSortedInts(vs [][]byte) string {
	is := make([]int, 0, len(vs))
	for _, v := range vs {
		x, err := strconv.Atoi(string(v))
		if err != nil {
			return "?" + string(v)
		}
		is = append(is, x)
	}
	sort.Ints(is)
	ss := make([]string, len(is))
	for i, x := range is {
		ss[i] = strconv.Itoa(x)
	}
	return strings.Join(ss, ",")
}

func (r *replica) Log() ([]logEnt, error) {
	n := r.ns()
	if n == nil {
		return nil, errors.New("no namespace node")
	}
	ents, ok := n.Node.VerifAppliedLog()
	if !ok {
		return nil, errors.New("log not readable")
	}
	out := make([]logEnt, len(ents))
	for i, e := range ents {
		out[i] = logEnt{Index: e.Index, Term: e.Term, ConfChg: e.ConfChg, ReqIDs: e.ReqIDs, Hash: e.DataHash}
	}
	return out, nil
}

// ---------------------------------------------------------------- child process side (zrnode mode)

type childReq struct {
	Cmd  string   `json:"cmd"`
	Arg  uint64   `json:"arg,omitempty"`
	Keys []string `json:"keys,omitempty"`
	IDs  []uint64 `json:"ids,omitempty"`
}
type childRsp struct {
	Err    string            `json:"err,omitempty"`
	Status *status           `json:"status,omitempty"`
	Dump   map[string]string `json:"dump,omitempty"`
	Log    []logEnt          `json:"log,omitempty"`
}

// runChild: one replica process; commands arrive on fd 3, answers leave on fd 4 (one JSON per line).
func runChild(id int, dir string, base int, eng string, snapCount int) {
	setupLogging(path.Join(dir, fmt.Sprintf("server-%d.log", time.Now().UnixNano())), common.LOG_INFO)
	in := bufio.NewReaderSize(os.NewFile(3, "cmd"), 1<<16)
	outF := os.NewFile(4, "rsp")
	r, err := newReplica(id, dir, base, eng, snapCount)
	send := func(rsp childRsp) {
		b, _ := json.Marshal(rsp)
		outF.Write(append(b, '\n'))
	}
	if err != nil {
		send(childRsp{Err: "start: " + err.Error()})
		os.Exit(3)
	}
	send(childRsp{})
	for {
		line, err := in.ReadBytes('\n')
		if err != nil {
			theLogger.Flush()
			os.Exit(0) // parent went away
		}
		var q childReq
		if json.Unmarshal(line, &q) != nil {
			send(childRsp{Err: "bad request"})
			continue
		}
		var rsp childRsp
		switch q.Cmd {
		case "status":
			st, e := r.Status()
			rsp.Status = &st
			if e != nil {
				rsp.Err = e.Error()
			}
		case "close":
			if e := r.CloseNS(); e != nil {
				rsp.Err = e.Error()
			}
		case "open":
			if e := r.OpenNS(); e != nil {
				rsp.Err = e.Error()
			}
		case "transfer":
			if e := r.TransferTo(q.Arg); e != nil {
				rsp.Err = e.Error()
			}
		case "dump":
			d, e := r.Dump(q.Keys)
			rsp.Dump = d
			if e != nil {
				rsp.Err = e.Error()
			}
		case "log":
			l, e := r.Log()
			rsp.Log = l
			if e != nil {
				rsp.Err = e.Error()
			}
		case "block":
			r.Block(q.IDs)
		case "flushlog":
			theLogger.Flush()
		default:
			rsp.Err = "unknown command"
		}
		send(rsp)
	}
}

// ---------------------------------------------------------------- parent side of a child replica

type childRep struct {
	id        int
	dir       string
	base      int
	engine    string
	mu        sync.Mutex
	cmd       *exec.Cmd
	w         *os.File
	r         *bufio.Reader
	rf        *os.File
	alive     bool
	paused    bool
	snapCount int
}

func (c *childRep) spawn() error {
	c.mu.Lock()
	defer c.mu.Unlock()
	self, err := os.Executable()
	if err != nil {
		return err
	}
	cr, pw, err := os.Pipe() // parent writes commands
	if err != nil {
		return err
	}
	pr, cw, err := os.Pipe() // parent reads answers
	if err != nil {
		return err
	}
	cmd := exec.Command(self, "-zrnode", "-id", strconv.Itoa(c.id), "-dir", c.dir, "-port", strconv.Itoa(c.base), "-engine", c.engine,
		"-snapcount", strconv.Itoa(c.snapCount))
	lf, _ := os.OpenFile(path.Join(c.dir, "stdout.log"), os.O_CREATE|os.O_APPEND|os.O_WRONLY, 0600)
	cmd.Stdout, cmd.Stderr = lf, lf
	cmd.ExtraFiles = []*os.File{cr, cw}
	cmd.SysProcAttr = &syscall.SysProcAttr{Pdeathsig: syscall.SIGKILL}
	if err := cmd.Start(); err != nil {
		return err
	}
	cr.Close()
	cw.Close()
	if lf != nil {
		lf.Close()
	}
	c.cmd, c.w, c.rf, c.r, c.alive = cmd, pw, pr, bufio.NewReaderSize(pr, 1<<20), true
	// first line = start result
	rsp, err := c.readRsp(60 * time.Second)
	if err != nil {
		c.killLocked()
		return err
	}
	if rsp.Err != "" {
		c.killLocked()
		return errors.New(rsp.Err)
	}
	return nil
}

func (c *childRep) readRsp(to time.Duration) (childRsp, error) {
	type res struct {
		b   []byte
		err error
	}
	ch := make(chan res, 1)
	rd := c.r
	go func() {
		b, err := rd.ReadBytes('\n')
		ch <- res{b, err}
	}()
	select {
	case x := <-ch:
		if x.err != nil {
			return childRsp{}, x.err
		}
		var rsp childRsp
		if err := json.Unmarshal(x.b, &rsp); err != nil {
			return childRsp{}, err
		}
		return rsp, nil
	case <-time.After(to):
		return childRsp{}, errors.New("child answer timeout")
	}
}

func (c *childRep) call(q childReq, to time.Duration) (childRsp, error) {
	c.mu.Lock()
	defer c.mu.Unlock()
	if !c.alive {
		return childRsp{}, errors.New("process down")
	}
	b, _ := json.Marshal(q)
	if _, err := c.w.Write(append(b, '\n')); err != nil {
		return childRsp{}, err
	}
	rsp, err := c.readRsp(to)
	if err != nil {
		return rsp, err
	}
	if rsp.Err != "" {
		return rsp, errors.New(rsp.Err)
	}
	return rsp, nil
}

func (c *childRep) killLocked() {
	if c.cmd != nil && c.cmd.Process != nil {
		c.cmd.Process.Signal(syscall.SIGKILL)
		c.cmd.Wait()
	}
	if c.w != nil {
		c.w.Close()
	}
	if c.rf != nil {
		c.rf.Close()
	}
	c.alive = false
}

// Kill sends SIGKILL (kill -9) to the replica process.
func (c *childRep) Kill() {
	c.mu.Lock()
	c.killLocked()
	c.mu.Unlock()
}

func (c *childRep) Alive() bool { c.mu.Lock(); defer c.mu.Unlock(); return c.alive }

// Pause / Resume freeze and thaw the replica process (SIGSTOP / SIGCONT): a long scheduling or GC pause.
func (c *childRep) Pause() {
	c.mu.Lock()
	if c.alive && c.cmd != nil && c.cmd.Process != nil {
		c.cmd.Process.Signal(syscall.SIGSTOP)
		c.paused = true
	}
	c.mu.Unlock()
}

func (c *childRep) Resume() {
	c.mu.Lock()
	if c.alive && c.cmd != nil && c.cmd.Process != nil {
		c.cmd.Process.Signal(syscall.SIGCONT)
	}
	c.paused = false
	c.mu.Unlock()
}

func (c *childRep) isPaused() bool { c.mu.Lock(); defer c.mu.Unlock(); return c.paused }

func (c *childRep) Status() (status, error) {
	if !c.Alive() || c.isPaused() {
		return status{}, nil
	}
	rsp, err := c.call(childReq{Cmd: "status"}, 5*time.Second)
	if err != nil || rsp.Status == nil {
		return status{}, err
	}
	return *rsp.Status, nil
}
func (c *childRep) CloseNS() error {
	_, err := c.call(childReq{Cmd: "close"}, 20*time.Second)
	return err
}
func (c *childRep) OpenNS() error {
	_, err := c.call(childReq{Cmd: "open"}, 60*time.Second)
	return err
}
func (c *childRep) TransferTo(id uint64) error {
	_, err := c.call(childReq{Cmd: "transfer", Arg: id}, 10*time.Second)
	return err
}
func (c *childRep) Block(ids []uint64) error {
	_, err := c.call(childReq{Cmd: "block", IDs: ids}, 5*time.Second)
	return err
}
func (c *childRep) Dump(keys []string) (map[string]string, error) {
	rsp, err := c.call(childReq{Cmd: "dump", Keys: keys}, 30*time.Second)
	return rsp.Dump, err
}
func (c *childRep) Log() ([]logEnt, error) {
	rsp, err := c.call(childReq{Cmd: "log"}, 30*time.Second)
	return rsp.Log, err
}
