package main

// -consts: regenerate coq/Lin/Consts.v from the source tree: for every redis command the
// specification Lin/Spec.v uses, whether node/node_cmd_reg.go registers it as a WRITE (the request
// goes through queueRequest / the raft log and is answered by the apply of its own entry) or as a
// READ (answered from the local store by the replica that believes it leads).

import (
	"fmt"
	"io/ioutil"
	"os"
	"path"
	"regexp"
	"sort"
	"strings"
)

var specCmds = []string{"incr", "getset", "setnx", "get", "set", "del", "hincrby", "hget",
	"lpush", "lpop", "llen", "lrange", "sadd", "srem", "scard", "smembers"}

func printConsts() {
	repo := os.Getenv("VERIF_REPO")
	if repo == "" {
		repo = "/repo"
	}
	b, err := ioutil.ReadFile(path.Join(repo, "node", "node_cmd_reg.go"))
	if err != nil {
		fmt.Fprintln(os.Stderr, err)
		os.Exit(1)
	}
	re := regexp.MustCompile(`nd\.router\.Register(Write|WriteMerge|Read|Merge)\("([^"]+)"`)
	kind := map[string]string{}
	for _, m := range re.FindAllStringSubmatch(string(b), -1) {
		kind[m[2]] = m[1]
	}
	reI := regexp.MustCompile(`kvsm\.router\.RegisterInternal\("([^"]+)"`)
	internal := map[string]bool{}
	for _, m := range reI.FindAllStringSubmatch(string(b), -1) {
		internal[m[1]] = true
	}
	var logged, local, applied []string
	for _, c := range specCmds {
		switch kind[c] {
		case "Write", "WriteMerge":
			logged = append(logged, c)
		case "Read", "Merge":
			local = append(local, c)
		}
		if internal[c] {
			applied = append(applied, c)
		}
	}
	sort.Strings(logged)
	sort.Strings(local)
	sort.Strings(applied)
	q := func(l []string) string {
		p := make([]string, len(l))
		for i, s := range l {
			p[i] = `"` + s + `"`
		}
		return "[" + strings.Join(p, "; ") + "]"
	}
	fmt.Println("(* GENERATED from node/node_cmd_reg.go by harness/cmd/cluster -consts; do not edit *)")
	fmt.Println("From Coq Require Import List String.")
	fmt.Println("Import ListNotations.")
	fmt.Println("Local Open Scope string_scope.")
	fmt.Println("(* commands of Lin/Spec.v registered with RegisterWrite/RegisterWriteMerge: proposed to the raft log *)")
	fmt.Println("Definition logged_cmds : list string := " + q(logged) + ".")
	fmt.Println("(* commands of Lin/Spec.v registered with RegisterRead/RegisterMerge: served from the local store *)")
	fmt.Println("Definition local_cmds : list string := " + q(local) + ".")
	fmt.Println("(* commands of Lin/Spec.v with an apply handler in the state machine (RegisterInternal) *)")
	fmt.Println("Definition applied_cmds : list string := " + q(applied) + ".")
}
