// Command cluster: harness of property C04 (acknowledged writes are totally ordered and never lost
// in a cluster). It runs a REAL 3-replica namespace of /repo's working tree (server.NewServer x 3,
// static seed nodes), either in one process (-mode inproc) or as three OS processes of this same
// binary (-mode procs, children run with -zrnode and can be kill -9ed), drives concurrent redis
// clients and a nemesis against it and writes:
//
//	cases.tsv / impl.out   sequential operation lists and the implementation's replies
//	                       (diffed against the extracted Lin/Spec.v)
//	hist.tsv               the recorded concurrent per-key histories incl. the final per-replica reads
//	                       (judged by the extracted, verified Lin/Checker.v)
//	meta.json              replica dumps, applied-log comparison, request-id uniqueness, statistics
//
// Exit code 3 + "INCONCLUSIVE: ..." = the cluster did not start / settle within its budget.
package main

import (
	"bufio"
	"encoding/json"
	"flag"
	"fmt"
	"io/ioutil"
	"math/rand"
	"os"
	"path"
	"sort"
	"strings"
	"sync"
	"sync/atomic"
	"time"

	"github.com/siddontang/goredis"
	"github.com/youzan/ZanRedisDB/common"
	"github.com/youzan/ZanRedisDB/node"
	"github.com/youzan/ZanRedisDB/raft/raftpb"
)

var (
	seed    = flag.Int64("seed", 1, "seed")
	outDir  = flag.String("out", ".", "output directory")
	port    = flag.Int("port", 30000, "port base (16 ports used)")
	mode    = flag.String("mode", "inproc", "inproc | procs")
	engineF = flag.String("engine", "mem", "mem | pebble | rocksdb")
	dur     = flag.Duration("dur", 20*time.Second, "duration of the concurrent load")
	nCli    = flag.Int("clients", 6, "concurrent clients")
	nSeq    = flag.Int("nseq", 40, "sequential specification cases")
	pace    = flag.Duration("pace", 8*time.Millisecond, "max random pause of a client between operations")
	noNem   = flag.Bool("nonemesis", false, "no faults")
	snapCnt = flag.Int("snapcount", 0, "raft SnapCount of the namespace (0 = the default, no snapshot during a run)")
	nemKind = flag.String("nemkind", "all", "all | restarts (only graceful restarts of followers, in quick succession)")
	mixF    = flag.String("mix", "all", "all | nonidem (mostly INCR / HINCRBY / LPUSH / LPOP)")
	staleTO = flag.Duration("stalebarrier", 0, "directed scenario 'late read-index answer completes a later round' (0 = skip): the read-index round timeout of the node (5s unless changed)")
	newLead = flag.Bool("newleader", false, "directed scenario 'read barrier on a freshly elected leader' (in-process only)")
	abortB  = flag.Bool("abortbatch", false, "directed scenario 'SETEX with ttl 0 right after batchable writes, applied in one batch by a replica that catches up'")
	lossDur = flag.Duration("lossdur", 0, "directed scenario 'follower forgets acknowledged entries' (0 = skip): writes through the leader for this long")
	partF   = flag.Bool("partitions", false, "nemesis also cuts raft links between replicas (thorough tier)")
	minB    = flag.Int("minb", 24, "min operations per key before it is retired")
	maxB    = flag.Int("maxb", 40, "max operations per key before it is retired")
	maxUnk  = flag.Int("maxunk", 4, "unknown outcomes after which a key is retired")
	raceDur = flag.Duration("racedur", 3*time.Second, "duration of the same-key race rounds (0 = none)")
	pairDur = flag.Duration("pairdur", 3*time.Second, "duration of the write-through-leader / shortcut-through-follower pairs (0 = none)")
	doC     = flag.Bool("consts", false, "print Consts.v")
	replay  = flag.String("replay", "", "cases.tsv (Q lines) to re-run against a fresh cluster")
	zrnode  = flag.Bool("zrnode", false, "child mode: run one replica")
	idF     = flag.Int("id", 0, "child mode: replica index")
	dirF    = flag.String("dir", "", "child mode: data directory")
	keepDir = flag.Bool("keep", false, "keep the data directories")
)

type nemEvent struct {
	At   int64  `json:"at"`
	What string `json:"what"`
	Err  string `json:"err,omitempty"`
}

type cluster struct {
	reps  []rep
	kids  []*childRep // procs mode only
	addrs []string
	dir   string
	base  int
	mu    sync.Mutex
	down  int // replica currently down (-1 none)
}

func inconclusive(format string, a ...interface{}) {
	fmt.Printf("INCONCLUSIVE: "+format+"\n", a...)
	if theLogger != nil {
		theLogger.Flush()
	}
	os.Exit(3)
}

func startCluster(dir string, base int, mode, eng string) (*cluster, error) {
	c := &cluster{dir: dir, base: base, down: -1}
	for i := 0; i < nReplica; i++ {
		rp, _, _, _ := portsOf(base, i)
		c.addrs = append(c.addrs, fmt.Sprintf("127.0.0.1:%d", rp))
		d := path.Join(dir, fmt.Sprintf("r%d", i))
		os.MkdirAll(d, 0700)
		if mode == "procs" {
			k := &childRep{id: i, dir: d, base: base, engine: eng, snapCount: *snapCnt}
			if err := k.spawn(); err != nil {
				return c, err
			}
			c.kids = append(c.kids, k)
			c.reps = append(c.reps, k)
		} else {
			r, err := newReplica(i, d, base, eng, *snapCnt)
			if err != nil {
				return c, err
			}
			c.reps = append(c.reps, r)
		}
	}
	return c, nil
}

func (c *cluster) shutdown() {
	for _, k := range c.kids {
		k.Kill()
	}
}

// leader returns the index of the replica that believes it leads and that a majority agrees on (-1 none).
func (c *cluster) leader() int {
	votes := map[uint64]int{}
	self := -1
	for i, r := range c.reps {
		st, err := r.Status()
		if err != nil || !st.Up {
			continue
		}
		if st.Leader != 0 {
			votes[st.Leader]++
		}
		if st.Lead {
			self = i
		}
	}
	if self >= 0 && votes[uint64(self+1)] >= 2 {
		return self
	}
	return -1
}

func (c *cluster) waitLeader(to time.Duration) int {
	dl := time.Now().Add(to)
	for time.Now().Before(dl) {
		if l := c.leader(); l >= 0 {
			return l
		}
		time.Sleep(100 * time.Millisecond)
	}
	return -1
}

// waitSettled: all replicas up, one leader, all applied indexes equal to the leader's commit index
// and unchanged over two polls.
func (c *cluster) waitSettled(to time.Duration) (uint64, bool) {
	dl := time.Now().Add(to)
	var last uint64
	stable := 0
	for time.Now().Before(dl) {
		ok := c.leader() >= 0
		var idx uint64
		for i, r := range c.reps {
			st, err := r.Status()
			if err != nil || !st.Up {
				ok = false
				break
			}
			if i == 0 {
				idx = st.Applied
			}
			if st.Applied != idx || st.Commit != st.Applied {
				ok = false
			}
		}
		if ok && idx == last {
			stable++
			if stable >= 3 {
				return idx, true
			}
		} else {
			stable = 0
		}
		last = idx
		time.Sleep(150 * time.Millisecond)
	}
	return last, false
}

// ---------------------------------------------------------------- nemesis

type nemesis struct {
	c          *cluster
	rng        *rand.Rand
	events     []nemEvent
	mu         sync.Mutex
	stop       chan struct{}
	done       chan struct{}
	procs      bool
	partitions bool
	kind       string
}

func (n *nemesis) log(what string, err error) {
	e := nemEvent{At: nowUs(), What: what}
	if err != nil {
		e.Err = err.Error()
	}
	n.mu.Lock()
	n.events = append(n.events, e)
	n.mu.Unlock()
}

func (n *nemesis) sleep(d time.Duration) bool {
	select {
	case <-n.stop:
		return false
	case <-time.After(d):
		return true
	}
}

// runRestarts: graceful restarts of a follower in quick succession while the load goes on (with a low SnapCount
// every restart restores the replica's latest checkpoint and replays the log from there).
func (n *nemesis) runRestarts() {
	defer close(n.done)
	for {
		if !n.sleep(time.Duration(350+n.rng.Intn(300)) * time.Millisecond) {
			return
		}
		lead := n.c.leader()
		victim := n.rng.Intn(nReplica)
		if victim == lead {
			victim = (victim + 1) % nReplica
		}
		err := n.c.reps[victim].CloseNS()
		n.log(fmt.Sprintf("stop %d (leader=%d)", victim, lead), err)
		alive := n.sleep(time.Duration(200+n.rng.Intn(250)) * time.Millisecond)
		err = n.c.reps[victim].OpenNS()
		n.log(fmt.Sprintf("restart %d", victim), err)
		if !alive {
			return
		}
	}
}

func (n *nemesis) run() {
	if n.kind == "restarts" {
		n.runRestarts()
		return
	}
	defer close(n.done)
	for {
		if !n.sleep(time.Duration(700+n.rng.Intn(1500)) * time.Millisecond) {
			return
		}
		x := n.rng.Intn(100)
		lead := n.c.leader()
		victim := n.rng.Intn(nReplica)
		if lead >= 0 && n.rng.Intn(2) == 0 {
			victim = lead
		}
		downFor := time.Duration(400+n.rng.Intn(2200)) * time.Millisecond
		switch {
		case x < 40:
			if lead < 0 {
				n.log("transfer-skipped-no-leader", nil)
				continue
			}
			to := (lead + 1 + n.rng.Intn(nReplica-1)) % nReplica
			err := n.c.reps[lead].TransferTo(uint64(to + 1))
			n.log(fmt.Sprintf("transfer %d->%d", lead, to), err)
		case n.partitions && x >= 88:
			// network partition: the victim's links to both other replicas are cut (or, one time in three,
			// only one link: the victim still hears the third replica), then healed
			others := []int{(victim + 1) % nReplica, (victim + 2) % nReplica}
			if n.rng.Intn(3) == 0 {
				others = others[:1]
			}
			var vb []uint64
			for _, o := range others {
				vb = append(vb, uint64(o+1))
				n.c.reps[o].Block([]uint64{uint64(victim + 1)})
			}
			err := n.c.reps[victim].Block(vb)
			n.log(fmt.Sprintf("partition %d|%v (leader=%d)", victim, others, lead), err)
			alive := n.sleep(time.Duration(1500+n.rng.Intn(3000)) * time.Millisecond)
			for i := range n.c.reps {
				n.c.reps[i].Block(nil)
			}
			n.log("heal", nil)
			if !alive {
				return
			}
		case n.procs && x >= 76:
			k := n.c.kids[victim]
			k.Pause()
			n.log(fmt.Sprintf("pause %d (leader=%d)", victim, lead), nil)
			alive := n.sleep(time.Duration(1200+n.rng.Intn(3000)) * time.Millisecond)
			k.Resume()
			n.log(fmt.Sprintf("resume %d", victim), nil)
			if !alive {
				return
			}
		case x < 65 || !n.procs:
			err := n.c.reps[victim].CloseNS()
			n.log(fmt.Sprintf("stop %d (leader=%d)", victim, lead), err)
			alive := n.sleep(downFor)
			err = n.c.reps[victim].OpenNS()
			n.log(fmt.Sprintf("restart %d", victim), err)
			if !alive {
				return
			}
		default:
			k := n.c.kids[victim]
			k.Kill()
			n.log(fmt.Sprintf("kill9 %d (leader=%d)", victim, lead), nil)
			alive := n.sleep(downFor)
			var err error
			for try := 0; try < 3; try++ {
				if err = k.spawn(); err == nil {
					break
				}
				time.Sleep(500 * time.Millisecond)
			}
			n.log(fmt.Sprintf("respawn %d", victim), err)
			if !alive {
				return
			}
		}
	}
}

// ---------------------------------------------------------------- sequential specification cases

func genSeqCase(rng *rand.Rand, w *workload, j int) []string {
	// one fresh object per type; operations of all four types interleaved
	objs := []*object{}
	for _, t := range typs {
		objs = append(objs, &object{key: fmt.Sprintf("%s:q%d", t, j), typ: t})
	}
	n := 8 + rng.Intn(10)
	var toks []string
	for i := 0; i < n; i++ {
		o := objs[rng.Intn(len(objs))]
		w.mu.Lock()
		op := w.genOpLocked(o)
		w.mu.Unlock()
		toks = append(toks, op)
	}
	// final dumps
	toks = append(toks, "get", "hget", "ldump", "sdump")
	return toks
}

func keyForOp(op string, j string) string {
	q := strings.SplitN(op, ":", 2)[0]
	switch q {
	case "incr", "getset", "setnx", "get", "set", "del":
		return "kv:q" + j
	case "hincrby", "hget":
		return "h:q" + j
	case "lpush", "lpop", "llen", "ldump":
		return "l:q" + j
	}
	return "s:q" + j
}

// runSeqCase executes the tokens one after the other through the given replica (the leader).
func runSeqCase(cl *client, c *cluster, id string, toks []string) string {
	var outs []string
	for _, op := range toks {
		var tok string
		for try := 0; try < 20; try++ {
			l := c.waitLeader(10 * time.Second)
			if l < 0 {
				tok = "err:no-leader"
				break
			}
			rec, sent := cl.do(l, keyForOp(op, id), op)
			if sent && rec.Ret >= 0 {
				tok = rec.Res
				break
			}
			tok = "err:" + rec.Err
			if sent && !isReadOp(op) {
				break // a write with an unknown outcome must not be retried
			}
			time.Sleep(100 * time.Millisecond)
		}
		outs = append(outs, tok)
	}
	return strings.Join(outs, " ")
}

// ---------------------------------------------------------------- main

type meta struct {
	Seed        int64                        `json:"seed"`
	Mode        string                       `json:"mode"`
	Engine      string                       `json:"engine"`
	Clients     int                          `json:"clients"`
	LoadUs      int64                        `json:"load_us"`
	Ops         int                          `json:"ops_recorded"`
	OpsOK       int                          `json:"ops_acknowledged"`
	OpsUnknown  int                          `json:"ops_unknown"`
	ReadsFailed map[string]int               `json:"reads_failed"`
	WriteErrs   map[string]int               `json:"write_errors"`
	OpKinds     map[string]int               `json:"op_kinds"`
	Keys        int                          `json:"keys"`
	Nemesis     []nemEvent                   `json:"nemesis"`
	Settled     bool                         `json:"settled"`
	SettleIndex uint64                       `json:"settle_index"`
	Dumps       []map[string]string          `json:"dumps"`     // per replica: object -> canonical state
	DumpErr     []string                     `json:"dump_err"`  // per replica
	LogCheck    map[string]interface{}       `json:"log_check"` // applied-log agreement + request-id uniqueness
	ViaFollower int                          `json:"acked_writes_via_follower"`
	Targets     map[string]int               `json:"targets"`
	Seq         int                          `json:"seq_cases"`
	RaceRounds  int                          `json:"race_rounds"`
	Directed    []nemEvent                   `json:"directed,omitempty"`
	PairRounds  int                          `json:"pair_rounds"`
	Extra       map[string]map[string]string `json:"extra,omitempty"`
}

func checkLogs(c *cluster) map[string]interface{} {
	res := map[string]interface{}{}
	logs := make([][]logEnt, len(c.reps))
	for i, r := range c.reps {
		l, err := r.Log()
		if err != nil {
			res[fmt.Sprintf("r%d_err", i)] = err.Error()
			continue
		}
		logs[i] = l
		res[fmt.Sprintf("r%d_len", i)] = len(l)
	}
	// agreement on common indexes
	type key struct {
		t uint64
		h uint64
	}
	at := map[uint64]key{}
	var disagree []string
	compared := 0
	for i, l := range logs {
		for _, e := range l {
			k := key{e.Term, e.Hash}
			if old, ok := at[e.Index]; ok {
				compared++
				if old != k && len(disagree) < 10 {
					disagree = append(disagree, fmt.Sprintf("index %d: replica %d has (term %d, hash %x), another has (term %d, hash %x)",
						e.Index, i, e.Term, e.Hash, old.t, old.h))
				}
			} else {
				at[e.Index] = k
			}
		}
	}
	res["compared"] = compared
	res["disagree"] = disagree
	// request ids never repeat within the log (taken from the longest log)
	best := 0
	for i := range logs {
		if len(logs[i]) > len(logs[best]) {
			best = i
		}
	}
	seen := map[uint64]uint64{}
	var dups []string
	nids := 0
	for _, e := range logs[best] {
		for _, id := range e.ReqIDs {
			nids++
			if old, ok := seen[id]; ok && len(dups) < 10 {
				dups = append(dups, fmt.Sprintf("request id %x at index %d and %d", id, old, e.Index))
			}
			seen[id] = e.Index
		}
	}
	res["request_ids"] = nids
	res["dup_ids"] = dups
	return res
}

func writeLines(file string, lines []string) {
	f, err := os.Create(file)
	if err != nil {
		panic(err)
	}
	w := bufio.NewWriter(f)
	for _, l := range lines {
		w.WriteString(l)
		w.WriteByte('\n')
	}
	w.Flush()
	f.Close()
}

func main() {
	flag.Parse()
	if *doC {
		printConsts()
		return
	}
	if *zrnode {
		runChild(*idF, *dirF, *port, *engineF, *snapCnt)
		return
	}
	os.MkdirAll(*outDir, 0755)
	dir, err := ioutil.TempDir("", "verif-lin-")
	if err != nil {
		panic(err)
	}
	cleanup := func() {
		if !*keepDir {
			os.RemoveAll(dir)
		}
	}
	setupLogging(path.Join(*outDir, "server.log"), common.LOG_INFO)
	defer theLogger.Flush()

	if *staleTO > 0 && *staleTO < 5*time.Second && *mode == "inproc" {
		// verif-only knob: a short read-index round timeout so that the stale-barrier schedule takes ~1s
		node.VerifSetReadIndexTimeout(*staleTO)
	}
	c, err := startCluster(dir, *port, *mode, *engineF)
	if err != nil {
		c.shutdown()
		cleanup()
		inconclusive("cluster start failed: %v", err)
	}
	if c.waitLeader(30*time.Second) < 0 {
		c.shutdown()
		cleanup()
		inconclusive("no leader elected within 30s")
	}
	if _, ok := c.waitSettled(20 * time.Second); !ok {
		c.shutdown()
		cleanup()
		inconclusive("cluster did not settle after start")
	}
	fmt.Printf("cluster up after %.1fs, leader %d\n", float64(nowUs())/1e6, c.leader())

	w := newWorkload(*seed, 3, *minB, *maxB, *maxUnk)
	w.nonIdem = *mixF == "nonidem"
	rng := rand.New(rand.NewSource(*seed*7919 + 13))

	// ---- phase 1: sequential specification cases (no faults)
	seqCl := &client{id: 99, addrs: c.addrs, conns: make([]*goredis.Conn, nReplica), rng: rng, opTO: 8 * time.Second}
	var cases, impl []string
	if *replay != "" {
		b, err := ioutil.ReadFile(*replay)
		if err != nil {
			panic(err)
		}
		for _, line := range strings.Split(string(b), "\n") {
			p := strings.Split(line, "\t")
			if len(p) >= 3 && p[1] == "Q" {
				id := p[0] + fmt.Sprintf("x%d", time.Now().UnixNano()%100000) // fresh keys
				cases = append(cases, line)
				impl = append(impl, p[0]+"\t"+runSeqCase(seqCl, c, id, p[2:]))
			}
		}
	} else {
		for j := 0; j < *nSeq; j++ {
			toks := genSeqCase(rng, w, j)
			id := fmt.Sprintf("q%d", j)
			cases = append(cases, id+"\tQ\t"+strings.Join(toks, "\t"))
			impl = append(impl, id+"\t"+runSeqCase(seqCl, c, fmt.Sprint(j), toks))
		}
	}
	writeLines(path.Join(*outDir, "cases.tsv"), cases)
	writeLines(path.Join(*outDir, "impl.out"), impl)
	fmt.Printf("sequential cases done: %d\n", len(cases))

	m := meta{Seed: *seed, Mode: *mode, Engine: *engineF, Clients: *nCli, Seq: len(cases),
		OpKinds: map[string]int{}, Targets: map[string]int{}}

	// ---- phase 2: concurrent load + nemesis
	var hist []string
	if *replay == "" && *dur > 0 {
		nem := &nemesis{c: c, rng: rand.New(rand.NewSource(*seed*104729 + 7)), stop: make(chan struct{}),
			done: make(chan struct{}), procs: *mode == "procs", partitions: *partF, kind: *nemKind}
		// leader hint for the readers
		hintStop := make(chan struct{})
		go func() {
			for {
				select {
				case <-hintStop:
					return
				case <-time.After(100 * time.Millisecond):
					atomic.StoreInt32(&w.leaderHint, int32(c.leader()))
				}
			}
		}()
		atomic.StoreInt32(&w.leaderHint, int32(c.leader()))
		var wg sync.WaitGroup
		loadStart := nowUs()
		// targeted phases first (fault free): same-key races and leader-write / follower-shortcut pairs
		var tcl []*client
		for i := 0; i < *nCli; i++ {
			tcl = append(tcl, &client{id: 50 + i, addrs: c.addrs, conns: make([]*goredis.Conn, nReplica),
				rng: rand.New(rand.NewSource(*seed*37 + int64(i)*7919)), opTO: 6 * time.Second})
		}
		if *staleTO > 0 && *mode == "inproc" {
			m.Directed = append(m.Directed, runStaleBarrier(c, w, *staleTO)...)
		}
		if *newLead && *mode == "inproc" {
			m.Directed = append(m.Directed, runNewLeaderBarrier(c, w)...)
		}
		if *abortB {
			m.Directed = append(m.Directed, runAbortBatch(c, w)...)
		}
		if *lossDur > 0 {
			m.Directed = append(m.Directed, runForgetAcked(c, w, *seed, *lossDur)...)
		}
		if *raceDur > 0 {
			m.RaceRounds = runRaces(w, tcl, time.Now().Add(*raceDur), rng)
		}
		if *pairDur > 0 {
			m.PairRounds = runPairs(w, tcl, time.Now().Add(*pairDur))
		}
		for _, cl := range tcl {
			for i := range cl.conns {
				cl.drop(i)
			}
		}
		fmt.Printf("targeted phases done: %d race rounds, %d pair rounds\n", m.RaceRounds, m.PairRounds)
		if !*noNem {
			go nem.run()
		} else {
			close(nem.done)
		}
		for i := 0; i < *nCli; i++ {
			cl := &client{id: i, addrs: c.addrs, conns: make([]*goredis.Conn, nReplica),
				rng: rand.New(rand.NewSource(*seed*31 + int64(i)*1000003)), opTO: 6 * time.Second}
			wg.Add(1)
			go cl.run(w, *pace, &wg)
		}
		time.Sleep(*dur)
		close(nem.stop)
		<-nem.done
		atomic.StoreInt32(&w.stop, 1)
		wg.Wait()
		close(hintStop)
		m.LoadUs = nowUs() - loadStart
		loadEnd := nowUs()
		m.Nemesis = nem.events

		// ---- phase 3: quiescence. Everything up again, a leader, a barrier write, equal applied indexes.
		for i, r := range c.reps {
			if *mode == "procs" && !c.kids[i].Alive() {
				if err := c.kids[i].spawn(); err != nil {
					m.Nemesis = append(m.Nemesis, nemEvent{At: nowUs(), What: fmt.Sprintf("final respawn %d", i), Err: err.Error()})
				}
			}
			st, _ := r.Status()
			if !st.Up {
				if err := r.OpenNS(); err != nil {
					m.Nemesis = append(m.Nemesis, nemEvent{At: nowUs(), What: fmt.Sprintf("final restart %d", i), Err: err.Error()})
				}
			}
		}
		settled := false
		if l := c.waitLeader(40 * time.Second); l >= 0 {
			// barrier: one more acknowledged write through the log (its own object, not part of any history)
			for try := 0; try < 30; try++ {
				l = c.waitLeader(10 * time.Second)
				if l < 0 {
					break
				}
				rec, sent := seqCl.do(l, "kv:barrier", "incr")
				if sent && rec.Ret >= 0 {
					break
				}
				time.Sleep(200 * time.Millisecond)
			}
			// a proposal whose client has given up can still commit until its own deadline (proposeTimeout 4s):
			// wait that long after the last client stopped, so that nothing lands between two replica dumps
			if rest := loadEnd + 4500000 - nowUs(); rest > 0 {
				time.Sleep(time.Duration(rest) * time.Microsecond)
			}
			m.SettleIndex, settled = c.waitSettled(60 * time.Second)
		}
		m.Settled = settled

		// ---- final reads from every replica's store, appended to each history as operations that
		// follow everything else in real time
		recs := w.recs
		groups, keys := byKey(recs)
		m.Keys = len(keys)
		m.Dumps = make([]map[string]string, len(c.reps))
		m.DumpErr = make([]string, len(c.reps))
		finalFrom := map[int]bool{}
		if !settled {
			// The cluster did not converge within its budget. The replicas that ARE up to date with the current
			// leader (same applied index, nothing committed but unapplied, stable over two polls, every client
			// stopped for seconds) must still hold every acknowledged write: they are read; the others are not.
			l := c.waitLeader(10 * time.Second)
			if l >= 0 {
				pick := func() (uint64, []int) {
					sl, err := c.reps[l].Status()
					if err != nil || !sl.Up || sl.Commit != sl.Applied {
						return 0, nil
					}
					var ok []int
					for i, r := range c.reps {
						st, err := r.Status()
						if err == nil && st.Up && st.Applied == sl.Applied && st.Commit == st.Applied {
							ok = append(ok, i)
						}
					}
					return sl.Applied, ok
				}
				a1, ok1 := pick()
				time.Sleep(400 * time.Millisecond)
				a2, ok2 := pick()
				if a1 == a2 && len(ok1) == len(ok2) && len(ok2) >= 2 && l == c.leader() {
					for _, i := range ok2 {
						finalFrom[i] = true
					}
				}
			}
			for i, r := range c.reps {
				st, _ := r.Status()
				m.Nemesis = append(m.Nemesis, nemEvent{At: nowUs(), What: fmt.Sprintf("not-settled: replica %d up=%v lead=%v applied=%d commit=%d final-read=%v",
					i, st.Up, st.Lead, st.Applied, st.Commit, finalFrom[i])})
			}
			for i, r := range c.reps {
				if finalFrom[i] {
					if d, err := r.Dump(keys); err == nil {
						m.Dumps[i] = d
					} else {
						m.DumpErr[i] = err.Error()
					}
				}
			}
		}
		for try := 0; settled && try < 3; try++ {
			for i, r := range c.reps {
				m.Dumps[i], m.DumpErr[i] = nil, ""
				d, err := r.Dump(keys)
				if err != nil {
					m.DumpErr[i] = err.Error()
					continue
				}
				m.Dumps[i] = d
			}
			m.LogCheck = checkLogs(c)
			// the dumps are one consistent cut only if nothing was applied while they were taken
			idx, ok := c.waitSettled(20 * time.Second)
			if ok && idx == m.SettleIndex {
				break
			}
			m.SettleIndex, settled = idx, ok
		}
		m.Settled = settled
		tfin := nowUs() + 1000
		for _, k := range keys {
			g := groups[k]
			if settled || len(finalFrom) > 0 {
				for i := range c.reps {
					if m.Dumps[i] == nil {
						continue
					}
					var op string
					switch strings.SplitN(k, ":", 2)[0] {
					case "kv":
						op = "get"
					case "h":
						op = "hget"
					case "l":
						op = "ldump"
					default:
						op = "sdump"
					}
					g = append(g, opRec{Client: 100 + i, Key: k, Op: op, Inv: tfin, Ret: tfin + 1, Res: m.Dumps[i][k], Target: i, Final: true})
					tfin += 10
				}
			}
			hist = append(hist, histLines(k, g)...)
		}
		// statistics
		for _, r := range recs {
			m.Ops++
			m.OpKinds[strings.SplitN(r.Op, ":", 2)[0]]++
			if r.Ret >= 0 {
				m.OpsOK++
				m.Targets[fmt.Sprintf("r%d", r.Target)]++
			} else {
				m.OpsUnknown++
			}
		}
		m.ReadsFailed, m.WriteErrs = w.dropped, w.errs
		// full records for the evidence / replay files
		rf, _ := os.Create(path.Join(*outDir, "records.jsonl"))
		bw := bufio.NewWriter(rf)
		for _, r := range recs {
			b, _ := json.Marshal(r)
			bw.Write(b)
			bw.WriteByte('\n')
		}
		bw.Flush()
		rf.Close()
	}
	writeLines(path.Join(*outDir, "hist.tsv"), hist)
	b, _ := json.MarshalIndent(m, "", " ")
	ioutil.WriteFile(path.Join(*outDir, "meta.json"), b, 0644)
	ks := make([]string, 0, len(m.WriteErrs))
	for k := range m.WriteErrs {
		ks = append(ks, k)
	}
	sort.Strings(ks)
	fmt.Printf("load done: %d ops recorded (%d acknowledged, %d unknown) on %d keys, %d nemesis events, settled=%v, write errors %v\n",
		m.Ops, m.OpsOK, m.OpsUnknown, m.Keys, len(m.Nemesis), m.Settled, ks)
	c.shutdown()
	theLogger.Flush()
	cleanup()
	if *replay == "" && *dur > 0 && !m.Settled {
		// the client histories are still judged; only the final replica reads are missing
		fmt.Println("NOT-SETTLED: the cluster did not settle after the load (no final replica reads)")
	}
	os.Exit(0) // the servers' own Stop sleeps for seconds; the data directories are already gone
}

// runForgetAcked is a fixed fault schedule (a few seconds): does a follower that restarts forget log entries it
// has already acknowledged to the leader?
//  1. the link leader -> F2 is cut: F2 lags, every commit now needs F1's acknowledgement;
//  2. clients write through the leader; after dur the link leader -> F1 is cut too (F1's acknowledgements still
//     reach the leader, but F1 no longer learns the commit index of the last entries it acknowledged);
//  3. F1 is restarted gracefully; 4. the leader is stopped, the links are healed and F1 + F2 must carry on with
//     every acknowledged write; 5. the old leader is started again and the cluster settles.
//
// The operations are ordinary recorded operations (judged by the checker together with the final replica reads).
func runForgetAcked(c *cluster, w *workload, seed int64, dur time.Duration) []nemEvent {
	var evs []nemEvent
	ev := func(what string, err error) {
		e := nemEvent{At: nowUs(), What: what}
		if err != nil {
			e.Err = err.Error()
		}
		evs = append(evs, e)
	}
	l := c.waitLeader(10 * time.Second)
	if l < 0 {
		ev("forget-acked skipped: no leader", nil)
		return evs
	}
	f1, f2 := (l+1)%nReplica, (l+2)%nReplica
	lid := []uint64{uint64(l + 1)}
	ev(fmt.Sprintf("cut %d->%d", l, f2), c.reps[f2].Block(lid))
	var stop int32
	var wg sync.WaitGroup
	for i := 0; i < 12; i++ {
		cl := &client{id: 70 + i, addrs: c.addrs, conns: make([]*goredis.Conn, nReplica),
			rng: rand.New(rand.NewSource(seed*41 + int64(i)*104729)), opTO: 6 * time.Second}
		wg.Add(1)
		go func(cl *client) {
			defer wg.Done()
			for atomic.LoadInt32(&stop) == 0 {
				o, op := w.next()
				rec, sent := cl.do(l, o.key, op)
				if sent {
					w.record(o, rec)
				}
				if !sent || rec.Ret < 0 {
					time.Sleep(20 * time.Millisecond)
				}
			}
			for i := range cl.conns {
				cl.drop(i)
			}
		}(cl)
	}
	time.Sleep(dur)
	ev(fmt.Sprintf("cut %d->%d", l, f1), c.reps[f1].Block(lid))
	time.Sleep(100 * time.Millisecond)
	atomic.StoreInt32(&stop, 1)
	ev(fmt.Sprintf("stop %d (follower)", f1), c.reps[f1].CloseNS())
	time.Sleep(300 * time.Millisecond)
	ev(fmt.Sprintf("restart %d", f1), c.reps[f1].OpenNS())
	ev(fmt.Sprintf("stop %d (leader)", l), c.reps[l].CloseNS())
	wg.Wait()
	for i := range c.reps {
		c.reps[i].Block(nil)
	}
	ev("heal", nil)
	// the two followers carry on
	dl := time.Now().Add(20 * time.Second)
	for time.Now().Before(dl) {
		s1, _ := c.reps[f1].Status()
		s2, _ := c.reps[f2].Status()
		if s1.Up && s2.Up && (s1.Lead || s2.Lead) && s1.Applied == s2.Applied && s1.Commit == s1.Applied && s2.Commit == s2.Applied {
			break
		}
		time.Sleep(100 * time.Millisecond)
	}
	ev(fmt.Sprintf("restart %d (old leader)", l), c.reps[l].OpenNS())
	_, ok := c.waitSettled(30 * time.Second)
	ev(fmt.Sprintf("settled=%v", ok), nil)
	return evs
}

// runStaleBarrier is a fixed schedule for the read barrier behind which write commands may answer from the
// local store (isLocalStoreCurrent): the connection leader -> F stalls (appends and read-index answers are held,
// heartbeats pass); a shortcut write to F starts read-index round 1, whose answer is stuck; DEL k through the
// leader is acknowledged (F still holds k); after round 1 has timed out, SETNX k through F starts round 2 and the
// connection delivers the OLD answer of round 1 first, the rest later. The answer of an earlier round must not
// complete the current one: SETNX must not be answered 0 from F's stale store.
func runStaleBarrier(c *cluster, w *workload, roundTO time.Duration) []nemEvent {
	var evs []nemEvent
	ev := func(what string, err error) {
		e := nemEvent{At: nowUs(), What: what}
		if err != nil {
			e.Err = err.Error()
		}
		evs = append(evs, e)
	}
	l := c.waitLeader(10 * time.Second)
	if l < 0 {
		ev("stale-barrier skipped: no leader", nil)
		return evs
	}
	f := (l + 1) % nReplica
	g := c.reps[f].Gate()
	if g == nil {
		ev("stale-barrier skipped: no gate", nil)
		return evs
	}
	mk := func(id int) *client {
		return &client{id: id, addrs: c.addrs, conns: make([]*goredis.Conn, nReplica), rng: rand.New(rand.NewSource(int64(id))), opTO: 12 * time.Second}
	}
	lc := mk(90)
	k, other := w.newObject("kv"), w.newObject("kv")
	do := func(cl *client, target int, o *object, op string) opRec {
		rec, sent := cl.do(target, o.key, op)
		if sent {
			w.record(o, rec)
		}
		return rec
	}
	if rec := do(lc, l, k, fmt.Sprintf("set:%d", w.uniqL())); rec.Ret < 0 {
		ev("stale-barrier skipped: SET failed", nil)
		return evs
	}
	c.waitSettled(5 * time.Second)
	g.SetHold(uint64(l+1), []raftpb.MessageType{raftpb.MsgApp, raftpb.MsgReadIndexResp})
	ev(fmt.Sprintf("hold %d->%d (MsgApp, MsgReadIndexResp)", l, f), nil)
	release := func() {
		g.SetHold(0, nil)
		g.Release(0, true, 0)
	}
	var wg sync.WaitGroup
	wg.Add(1)
	go func() { // round 1
		defer wg.Done()
		do(mk(91), f, other, fmt.Sprintf("setnx:%d", w.uniqL()))
	}()
	waitHeld := func(n int) bool {
		dl := time.Now().Add(10 * time.Second)
		for g.Held(raftpb.MsgReadIndexResp) < n {
			if time.Now().After(dl) {
				return false
			}
			time.Sleep(20 * time.Millisecond)
		}
		return true
	}
	if !waitHeld(1) {
		release()
		wg.Wait()
		ev("stale-barrier skipped: round 1 did not start", nil)
		return evs
	}
	round1 := time.Now()
	do(lc, l, k, "del")
	if c.leader() != l {
		release()
		wg.Wait()
		ev("stale-barrier skipped: leadership moved", nil)
		return evs
	}
	time.Sleep(time.Until(round1.Add(roundTO + roundTO*3/10 + 200*time.Millisecond)))
	done := make(chan struct{})
	go func() { // round 2
		do(mk(92), f, k, fmt.Sprintf("setnx:%d", w.uniqL()))
		close(done)
	}()
	started := waitHeld(2)
	n := g.Release(raftpb.MsgReadIndexResp, false, 1)
	ev(fmt.Sprintf("round 2 started=%v; old read-index answer delivered (%d)", started, n), nil)
	select {
	case <-done:
	case <-time.After(1500 * time.Millisecond):
	}
	release()
	ev("connection recovered", nil)
	<-done
	wg.Wait()
	for i := range lc.conns {
		lc.drop(i)
	}
	_, ok := c.waitSettled(30 * time.Second)
	ev(fmt.Sprintf("settled=%v", ok), nil)
	return evs
}

func dirClient(c *cluster, id int) *client {
	return &client{id: id, addrs: c.addrs, conns: make([]*goredis.Conn, nReplica), rng: rand.New(rand.NewSource(int64(id))), opTO: 12 * time.Second}
}

// runNewLeaderBarrier is a fixed schedule for the read barrier on a FRESHLY ELECTED leader: DEL k is acknowledged by
// the old leader; the replica T has the entry in its log but does not learn that it is committed (messages carrying a
// newer commit index are dropped at T); leadership is transferred to T while the acknowledgements of its appends are
// held back, so T cannot commit an entry of its own term; SETNX k through T: a leader that has not committed in
// its term must not answer read-index requests, so SETNX must not be answered 0 from T's store that still holds k.
func runNewLeaderBarrier(c *cluster, w *workload) []nemEvent {
	var evs []nemEvent
	ev := func(what string, err error) {
		e := nemEvent{At: nowUs(), What: what}
		if err != nil {
			e.Err = err.Error()
		}
		evs = append(evs, e)
	}
	l := c.waitLeader(10 * time.Second)
	if l < 0 {
		ev("newleader-barrier skipped: no leader", nil)
		return evs
	}
	t := (l + 1) % nReplica
	g := c.reps[t].Gate()
	if g == nil {
		ev("newleader-barrier skipped: no gate", nil)
		return evs
	}
	lc, tc := dirClient(c, 93), dirClient(c, 94)
	k := w.newObject("kv")
	do := func(cl *client, target int, op string) opRec {
		rec, sent := cl.do(target, k.key, op)
		if sent {
			w.record(k, rec)
		}
		return rec
	}
	heal := func() {
		g.SetCommitCeiling(0)
		g.SetHold(0, nil)
		g.Release(0, true, 0)
	}
	if rec := do(lc, l, fmt.Sprintf("set:%d", w.uniqL())); rec.Ret < 0 {
		ev("newleader-barrier skipped: SET failed", nil)
		return evs
	}
	c.waitSettled(5 * time.Second)
	st, _ := c.reps[l].Status()
	g.SetCommitCeiling(st.Commit)
	ev(fmt.Sprintf("replica %d stops learning commits above %d", t, st.Commit), nil)
	if rec := do(lc, l, "del"); rec.Ret < 0 {
		heal()
		ev("newleader-barrier skipped: DEL failed", nil)
		return evs
	}
	time.Sleep(200 * time.Millisecond) // T receives the entry (its append carries the old commit index)
	if ts, _ := c.reps[t].Status(); ts.Applied > st.Commit {
		heal()
		ev("newleader-barrier skipped: T already applied the DEL", nil)
		return evs
	}
	g.SetHold(0, []raftpb.MessageType{raftpb.MsgAppResp})
	err := c.reps[l].TransferTo(uint64(t + 1))
	ev(fmt.Sprintf("transfer %d->%d with append acknowledgements to %d held", l, t, t), err)
	lead := false
	for i := 0; i < 100 && !lead; i++ {
		ts, _ := c.reps[t].Status()
		lead = ts.Lead
		if !lead {
			time.Sleep(10 * time.Millisecond)
		}
	}
	if lead {
		go func() {
			time.Sleep(1500 * time.Millisecond)
			heal()
		}()
		rec := do(tc, t, fmt.Sprintf("setnx:%d", w.uniqL()))
		ev(fmt.Sprintf("SETNX through the new leader -> %s%s", rec.Res, rec.Err), nil)
		time.Sleep(100 * time.Millisecond)
	} else {
		ev("newleader-barrier skipped: T did not become leader", nil)
	}
	heal()
	for _, cl := range []*client{lc, tc} {
		for i := range cl.conns {
			cl.drop(i)
		}
	}
	_, ok := c.waitSettled(30 * time.Second)
	ev(fmt.Sprintf("settled=%v", ok), nil)
	return evs
}

// runAbortBatch is a fixed schedule for the write batch of the apply loop: replica F is stopped; ONE client sends,
// through the leader and one after the other, groups of batchable writes on two fresh keys (SET a, SET b,
// both acknowledged) each directly followed by `SETEX c 0 v` (refused: ttl 0; sent raw, it is not an operation of
// the specification and never takes effect); the leader applies the entries one Ready at a time; F is restarted and
// applies the whole backlog in large applyEntries calls. A command that cannot succeed must not be admitted to the
// open batch: its abort would throw away the acknowledged writes collected before it on F only.
func runAbortBatch(c *cluster, w *workload) []nemEvent {
	var evs []nemEvent
	ev := func(what string, err error) {
		e := nemEvent{At: nowUs(), What: what}
		if err != nil {
			e.Err = err.Error()
		}
		evs = append(evs, e)
	}
	l := c.waitLeader(10 * time.Second)
	if l < 0 {
		ev("abort-batch skipped: no leader", nil)
		return evs
	}
	f, o := (l+1)%nReplica, (l+2)%nReplica
	cl := dirClient(c, 95)
	_ = o
	ev(fmt.Sprintf("stop %d", f), c.reps[f].CloseNS())
	time.Sleep(300 * time.Millisecond)
	refused, odd := 0, 0
	for i := 0; i < 25; i++ {
		a, b := w.newObject("kv"), w.newObject("kv")
		for _, x := range []struct {
			o  *object
			op string
		}{{a, fmt.Sprintf("set:%d", w.uniqL())}, {b, fmt.Sprintf("set:%d", w.uniqL())}} {
			if rec, sent := cl.do(l, x.o.key, x.op); sent {
				w.record(x.o, rec)
			}
		}
		cn, err := cl.conn(l)
		if err != nil {
			continue
		}
		cn.SetReadDeadline(time.Now().Add(8 * time.Second))
		if _, err := cn.Do("setex", nsBase+":lin:ttl0-"+fmt.Sprint(i), 0, "x"); err != nil {
			refused++
		} else {
			odd++
		}
	}
	sl, _ := c.reps[l].Status()
	sf, _ := c.reps[f].Status()
	ev(fmt.Sprintf("25 groups written through %d; SETEX ttl 0 refused %d times, accepted %d times; applied: leader %d, stopped replica %d",
		l, refused, odd, sl.Applied, sf.Applied), nil)
	ev(fmt.Sprintf("restart %d", f), c.reps[f].OpenNS())
	for i := range cl.conns {
		cl.drop(i)
	}
	_, ok := c.waitSettled(30 * time.Second)
	ev(fmt.Sprintf("settled=%v", ok), nil)
	return evs
}
