// net.go: two REAL rafthttp.Transports talking over loopback HTTP (httptest servers): the real peer,
// streamWriter, streamReader (dial / decodeLoop per connection / re-dial), pipeline, snapshotSender and the
// real HTTP handlers. Messages are handed to the sender's Transport.Send / SendSnapshot; what the
// receiver's Raft interface gets (Process) is the observable.
//
//	id T v2 <receiver node> <sender node> ((msgs of phase 0) (msgs of phase 1) ...) <db bytes of MsgSnap-by-SendSnapshot | ->
//
// Before every phase but the first all client connections of the sender's server are cut (the receiver's
// stream readers see their connection die and re-dial; the sender's writers get fresh connections);
// messages are only sent once both stream writers hold a connection they did not hold before the cut,
// so no loss is legitimate. In a phase MsgApp travels over the msgappv2 stream, MsgSnap over the pipeline
// (POST), everything else over the message stream; if a db payload is given the LAST MsgSnap of the
// last phase goes through SendSnapshot (snapshot sender / snapshot handler) instead.
// With codec v2chaos the LAST phase is sent while the connections are being cut again and again: loss is
// legitimate there; judged (chaos=ok) is that every message the receiver gets is one of those sent, at most as often.
// With codec v2slow the receiver's Raft.Process sleeps 300 ms on the first message of the (single, >= 220 message)
// phase while the rest arrives: the order of delivery is still compared with the order sent.
// Output: unreach=<n> | app=(..) other=(..) snap=(..) | ...   (per phase; app and other in arrival order,
// snap sorted) and finally snapdb=<bytes the receiver's snapshot saver got | ->.
package main

import (
	"bytes"
	"fmt"
	"io"
	"io/ioutil"
	"net/http"
	"net/http/httptest"
	"sort"
	"strings"
	"sync"
	"time"

	"golang.org/x/net/context"

	"github.com/youzan/ZanRedisDB/pkg/types"
	"github.com/youzan/ZanRedisDB/raft"
	"github.com/youzan/ZanRedisDB/raft/raftpb"
	"github.com/youzan/ZanRedisDB/snap"
	"github.com/youzan/ZanRedisDB/stats"
	"github.com/youzan/ZanRedisDB/transport/rafthttp"
	"verif/harness/internal/hx"
)

type recRaft struct {
	mu       sync.Mutex
	got      []raftpb.Message
	unreach  int
	slowNext time.Duration // Process sleeps this long on the next message it gets (slow-receiver phase)
}

func (r *recRaft) Process(ctx context.Context, m raftpb.Message) error {
	r.mu.Lock()
	r.got = append(r.got, m)
	slow := r.slowNext
	r.slowNext = 0
	r.mu.Unlock()
	if slow > 0 {
		time.Sleep(slow) // a busy raft group: the message is recorded first, then the step takes long
	}
	return nil
}
func (r *recRaft) IsPeerRemoved(id uint64) bool { return false }
func (r *recRaft) ReportUnreachable(id uint64, g raftpb.Group) {
	r.mu.Lock()
	r.unreach++
	r.mu.Unlock()
}
func (r *recRaft) ReportSnapshot(id uint64, g raftpb.Group, status raft.SnapshotStatus) {}
func (r *recRaft) count() int {
	r.mu.Lock()
	defer r.mu.Unlock()
	return len(r.got)
}

type memSaver struct {
	mu sync.Mutex
	db []byte
	n  int
}

func (s *memSaver) SaveDBFrom(r io.Reader, m raftpb.Message) (int64, error) {
	b, err := ioutil.ReadAll(r)
	s.mu.Lock()
	s.db, s.n = b, s.n+1
	s.mu.Unlock()
	return int64(len(b)), err
}

type netNode struct {
	tr  *rafthttp.Transport
	srv *httptest.Server
	r   *recRaft
	sv  *memSaver
}

func startNode(id uint64) *netNode {
	n := &netNode{r: &recRaft{}, sv: &memSaver{}}
	var h http.Handler
	var hmu sync.Mutex
	n.srv = httptest.NewServer(http.HandlerFunc(func(w http.ResponseWriter, r *http.Request) {
		hmu.Lock()
		hh := h
		hmu.Unlock()
		if hh == nil {
			http.Error(w, "not ready", http.StatusServiceUnavailable)
			return
		}
		hh.ServeHTTP(w, r)
	}))
	urls, err := types.NewURLs([]string{n.srv.URL})
	if err != nil {
		panic(err)
	}
	n.tr = &rafthttp.Transport{
		DialTimeout: 5 * time.Second,
		ID:          types.ID(id),
		URLs:        urls,
		ClusterID:   "c16",
		Raft:        n.r,
		Snapshotter: n.sv,
		TrStats:     &stats.TransportStats{},
		PeersStats:  stats.NewPeersStats(),
		ErrorC:      make(chan error, 4),
	}
	if err := n.tr.Start(); err != nil {
		panic(err)
	}
	hmu.Lock()
	h = n.tr.Handler()
	hmu.Unlock()
	return n
}

func (n *netNode) stop() {
	n.tr.Stop()
	n.srv.CloseClientConnections()
	n.srv.Close()
}

const netDeadline = 40 * time.Second

func waitFor(cond func() bool) bool {
	start := time.Now()
	for !cond() {
		if time.Since(start) > netDeadline {
			return false
		}
		time.Sleep(300 * time.Microsecond)
	}
	return true
}

func classOf(m *raftpb.Message) string {
	switch m.Type {
	case raftpb.MsgApp:
		return "app"
	case raftpb.MsgSnap:
		return "snap"
	}
	return "other"
}

func runNet(c *kase) string {
	phases := parseConns(c.payload)
	var db []byte
	useSendSnap := c.cuts != "-" && c.cuts != ""
	if useSendSnap {
		db, _ = parseBytes(c.cuts)
	}
	recv, send := startNode(c.local), startNode(c.remote)
	defer recv.stop()
	defer send.stop()
	send.tr.UpdatePeer(types.ID(c.local), []string{recv.srv.URL})
	recv.tr.UpdatePeer(types.ID(c.remote), []string{send.srv.URL})
	attached := func(oldV2, oldMsg string) bool {
		v2, ok1, msg, ok2 := rafthttp.VerifPeerWriters(send.tr, types.ID(c.local))
		return ok1 && ok2 && v2 != oldV2 && msg != oldMsg
	}
	if !waitFor(func() bool { return attached("", "") }) {
		return "timeout-connect"
	}
	parts := []string{}
	expected := 0
	stableUnreach := -1
	for pi, ms := range phases {
		if pi > 0 {
			v2, _, msg, _ := rafthttp.VerifPeerWriters(send.tr, types.ID(c.local))
			send.srv.CloseClientConnections()
			if !waitFor(func() bool { return attached(v2, msg) }) {
				return strings.Join(append(parts, "timeout-redial"), " | ")
			}
		}
		before := recv.r.count()
		if c.codec == "v2slow" {
			// slow receiver: raft takes 300 ms over the first message of the burst while the rest of the burst
			// arrives on the same connection; the order in which raft gets the messages must still be the order sent
			recv.r.mu.Lock()
			recv.r.slowNext = 300 * time.Millisecond
			recv.r.mu.Unlock()
		}
		if c.codec == "v2chaos" && pi == len(phases)-1 {
			send.r.mu.Lock()
			stableUnreach = send.r.unreach // reports during the churn are legitimate
			send.r.mu.Unlock()
			parts = append(parts, chaosPhase(send, recv, ms, before))
			break
		}
		for i := range ms {
			m := ms[i]
			if useSendSnap && pi == len(phases)-1 && m.Type == raftpb.MsgSnap && lastSnap(ms) == i {
				sm := snap.NewMessage(m, ioutil.NopCloser(bytes.NewReader(db)), int64(len(db)))
				send.tr.SendSnapshot(*sm)
			} else {
				send.tr.Send([]raftpb.Message{m})
			}
		}
		expected += len(ms)
		ok := waitFor(func() bool { return recv.r.count() >= expected })
		recv.r.mu.Lock()
		got := append([]raftpb.Message{}, recv.r.got[before:]...)
		recv.r.mu.Unlock()
		var app, other, sn []string
		for i := range got {
			s := fmtMsg(&got[i])
			switch classOf(&got[i]) {
			case "app":
				app = append(app, s)
			case "snap":
				sn = append(sn, s)
			default:
				other = append(other, s)
			}
		}
		sort.Strings(sn)
		part := fmt.Sprintf("app=(%s) other=(%s) snap=(%s)", strings.Join(app, " "), strings.Join(other, " "), strings.Join(sn, " "))
		if !ok {
			part += " timeout"
		}
		parts = append(parts, part)
		if !ok {
			break
		}
	}
	send.r.mu.Lock()
	un := send.r.unreach
	send.r.mu.Unlock()
	if stableUnreach >= 0 {
		un = stableUnreach
	}
	sdb := "-"
	if useSendSnap {
		recv.sv.mu.Lock()
		if recv.sv.n > 0 {
			sdb = fmtBytes(recv.sv.db, false)
		}
		recv.sv.mu.Unlock()
	}
	return fmt.Sprintf("unreach=%d | %s | snapdb=%s", un, strings.Join(parts, " | "), sdb)
}

// chaosPhase sends the messages while the sender's connections are being cut again and again. Loss is
// legitimate here (raft retries); judged is that nothing is ALTERED or invented: whatever the receiving Raft
// gets is, field for field, one of the messages sent, at most as often as it was sent.
func chaosPhase(send, recv *netNode, ms []raftpb.Message, before int) string {
	for i := range ms {
		if i%3 == 1 {
			send.srv.CloseClientConnections()
		}
		send.tr.Send([]raftpb.Message{ms[i]})
		time.Sleep(300 * time.Microsecond)
	}
	// quiescence: nothing new for 300 ms
	last, since := recv.r.count(), time.Now()
	for time.Since(since) < 300*time.Millisecond {
		time.Sleep(2 * time.Millisecond)
		if n := recv.r.count(); n != last {
			last, since = n, time.Now()
		}
	}
	sent := map[string]int{}
	for i := range ms {
		sent[fmtMsg(&ms[i])]++
	}
	recv.r.mu.Lock()
	got := append([]raftpb.Message{}, recv.r.got[before:]...)
	recv.r.mu.Unlock()
	for i := range got {
		s := fmtMsg(&got[i])
		if sent[s] == 0 {
			return "chaos=altered-or-duplicated(" + s + ")"
		}
		sent[s]--
	}
	return "chaos=ok"
}

func lastSnap(ms []raftpb.Message) int {
	last := -1
	for i := range ms {
		if ms[i].Type == raftpb.MsgSnap {
			last = i
		}
	}
	return last
}

// genNet: phases of one direction of traffic between two nodes: a well-formed msgappv2 sequence cut into
// phases right before a message that would continue the cursor, interleaved with messages of other types
// (message stream) and snapshots (pipeline); optionally one snapshot through SendSnapshot with a db payload.
// genSlow: one burst of 220-320 appends of two raft groups interleaved on one connection, for a receiver whose
// raft is slow on the first of them.
func genSlow(r *hx.Rng) (local, remote uint64, phases [][]raftpb.Message) {
	local, remote = uint64(2+r.Pick(3)), uint64(6+r.Pick(3))
	gs := genGroups(r, local, remote, 2)
	for gs[0].from.GroupId == gs[1].from.GroupId && gs[0].from.RaftReplicaId == gs[1].from.RaftReplicaId {
		gs = genGroups(r, local, remote, 2)
	}
	var ms []raftpb.Message
	for k := 220 + r.Pick(100); k > 0; k-- {
		g := gs[r.Pick(2)]
		nent := r.Pick(2)
		ms = append(ms, g.app(r, g.last, g.term, nent, func(t, ix uint64) raftpb.Entry {
			return raftpb.Entry{Term: t, Index: ix, Data: []byte{byte(ix), byte(ix >> 8)}}
		}))
		g.last += uint64(nent)
	}
	return local, remote, [][]raftpb.Message{ms}
}

func genNet(r *hx.Rng) (codec string, local, remote uint64, phases [][]raftpb.Message, db string) {
	codec = "v2"
	var apps []raftpb.Message
	for len(apps) < 2 || local == remote || local == 0 || remote == 0 {
		var all []raftpb.Message
		local, remote, all = genV2Seq(r, 0, 10)
		apps = apps[:0]
		for _, m := range all {
			if !(m.Type == raftpb.MsgHeartbeat && m.From == 0 && m.To == 0) && m.To != 0 {
				apps = append(apps, m)
			}
		}
	}
	_, conns := splitAtCompact(r, apps)
	db = "-"
	for pi, ms := range conns {
		var ph []raftpb.Message
		for _, m := range ms {
			ph = append(ph, m)
			if r.Chance(0.35) {
				o := genAnyMsg(r)
				for o.Type == raftpb.MsgApp || o.Type == raftpb.MsgSnap || (o.Type == raftpb.MsgHeartbeat && o.From == 0) {
					o.Type = raftpb.MessageType(r.Pick(19))
				}
				o.To |= 1
				o.ToGroup.NodeId = local
				ph = append(ph, o)
			}
			if r.Chance(0.15) {
				o := genAnyMsg(r)
				o.Type = raftpb.MsgSnap
				o.Snapshot = genSnap(r)
				o.To |= 1
				o.ToGroup.NodeId = local
				o.ToGroup.GroupId = uint64(1000 + len(ph)) // one snapshot per group at a time
				ph = append(ph, o)
			}
		}
		if pi == len(conns)-1 && r.Chance(0.3) {
			codec = "v2chaos"
		} else if pi == len(conns)-1 && r.Chance(0.5) {
			o := genAnyMsg(r)
			o.Type = raftpb.MsgSnap
			o.Snapshot = genSnap(r)
			o.To |= 1
			o.ToGroup.NodeId = local
			o.ToGroup.GroupId = 4242
			ph = append(ph, o)
			db = fmtBytes(genData(r), false)
		}
		phases = append(phases, ph)
	}
	return
}

// splitAtCompact cuts a sequence right before messages that one long connection would send in the compact form.
func splitAtCompact(r *hx.Rng, ms []raftpb.Message) ([]int, [][]raftpb.Message) {
	stream, bounds, _ := encodeAll("v2", ms)
	var compact []int
	start := 0
	for i, b := range bounds {
		if i > 0 && stream[start] == 1 {
			compact = append(compact, i)
		}
		start = b
	}
	cut := map[int]bool{}
	for k := 1 + r.Pick(2); k > 0; k-- {
		if len(compact) > 0 && r.Chance(0.8) {
			cut[compact[r.Pick(len(compact))]] = true
		} else {
			cut[1+r.Pick(len(ms)-1)] = true
		}
	}
	var conns [][]raftpb.Message
	var cur []raftpb.Message
	var cuts []int
	for i, m := range ms {
		if cut[i] && len(cur) > 0 {
			conns = append(conns, cur)
			cuts = append(cuts, i)
			cur = nil
		}
		cur = append(cur, m)
	}
	conns = append(conns, cur)
	return cuts, conns
}
